#!/bin/bash
# usage: tools/confirm_seed.sh <seed out dir (patch.diff, demo.diff)> <name> 
# Confirms in a scratch worktree: (1) patch applies, builds, existing suite passes; (2) demo fails with patch; (3) demo passes without.
# Writes <outdir>/confirm.json
set -u
src=$1; name=$2
WT=/tmp/seedconfirm/wt-$name
export CARGO_TARGET_DIR=/tmp/seedconfirm/target CARGO_NET_OFFLINE=true
mkdir -p /tmp/seedconfirm
git -C /repo worktree remove --force $WT 2>/dev/null
git -C /repo worktree add --detach $WT HEAD -q || exit 2
cd $WT
res() { echo "{\"name\":\"$name\",\"patch_applies\":$1,\"suite_with_patch\":\"$2\",\"demo_with_patch\":\"$3\",\"demo_without_patch\":\"$4\"}" > $src/confirm.json; cat $src/confirm.json; }
demo=$src/demo.diff
git apply $src/patch.diff || { res false - - -; git -C /repo worktree remove --force $WT; exit 1; }
s1=$(cargo test --offline -j 12 2>&1 | grep -E "^test result" | awk '{p+=$4; f+=$6} END {print p" passed "f" failed"}')
git apply $demo || { res true "$s1" "demo-does-not-apply" -; git -C /repo worktree remove --force $WT; exit 1; }
s2=$(cargo test --offline -j 12 2>&1 | grep -E "^test result|error(\[|:)" | awk '/^test result/ {p+=$4; f+=$6} /error/ {e+=1} END {print p" passed "f" failed "e" errors"}')
git apply -R $src/patch.diff
s3=$(cargo test --offline -j 12 2>&1 | grep -E "^test result|error(\[|:)" | awk '/^test result/ {p+=$4; f+=$6} /error/ {e+=1} END {print p" passed "f" failed "e" errors"}')
res true "$s1" "$s2" "$s3"
cd /; git -C /repo worktree remove --force $WT
