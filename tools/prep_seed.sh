#!/bin/bash
# usage: tools/prep_seed.sh <round tag, e.g. r2> <first variant letter> <second letter> <ID>...
# Prepares /tmp/seed/<ID><tag>/{wt,out/<X>,out/<Y>,prompt.txt,property.txt} for a fresh seeding agent.
# The agent gets only the property text, a scratch worktree and the list of sites earlier seeds already used.
set -eu
tag=$1; X=$2; Y=$3; shift 3
for ID in "$@"; do
  D=/tmp/seed/$ID$tag
  mkdir -p $D/out/$X $D/out/$Y
  git -C /repo worktree remove --force $D/wt 2>/dev/null || true
  git -C /repo worktree add --detach $D/wt HEAD -q
  python3 - $ID $tag $X $Y <<'E'
import json,sys,glob,re,os
ID,tag,X,Y=sys.argv[1:5]
D=f'/tmp/seed/{ID}{tag}'
for l in open('/verif/properties.jsonl'):
    p=json.loads(l)
    if p['id']!=ID: continue
    prop=f"Title: {p['title']}\nStatement: {p['statement']}\nQuantified over: {p['quantifier']['text']}\nRelevant files: {', '.join(p['anchors']['files'])}"
    open(f'{D}/property.txt','w').write(prop+"\n")
    t=open('/verif/tools/seed_prompt.tmpl').read()
    used=[]
    for d in sorted(glob.glob(f'/verif/seeded/{ID}-*')):
        pd=os.path.join(d,'patch.diff')
        if not os.path.exists(pd): continue
        txt=open(pd).read()
        files=re.findall(r'^\+\+\+ b/(\S+)',txt,re.M)
        hunks=re.findall(r'^@@ [^@]*@@ ?(.*)$',txt,re.M)
        title=""
        rp=os.path.join(d,'README.md')
        if os.path.exists(rp):
            for line in open(rp):
                if line.strip(): title=line.strip().lstrip('# ').strip(); break
        used.append(f"{', '.join(sorted(set(files)))}: {title[:200]}")
    extra=""
    if used:
        extra="\n\nAn earlier round already produced changes at the following sites; choose DIFFERENT code sites and a different mechanism (do not repeat or vary these):\n"+"\n".join("  - "+u for u in used)+"\n"
    t=t.replace('PROPERTY @ID@\n@PROP@','PROPERTY @ID@\n@PROP@'+extra)
    t=t.replace('/tmp/seed/@ID@/','/tmp/seed/@ID@@TAG@/').replace('/tmp/seed/@ID@ ','/tmp/seed/@ID@@TAG@ ')
    t=t.replace('out/A','out/'+X).replace('out/B','out/'+Y).replace('("A" and "B"','("'+X+'" and "'+Y+'"').replace('For each of A and B','For each of '+X+' and '+Y)
    t=t.replace('@TAG@',tag).replace('@ID@',ID).replace('@PROP@',prop)
    open(f'{D}/prompt.txt','w').write(t)
E
done
echo prepared "$@"
