#!/usr/bin/env python3
"""usage: [SEED_TAG=r2] import_seed.py <PROP> <A|B|C|D> <needs> <caught_by (comma list or 'none')> [note]
Copies a confirmed seeded change from /tmp/seed/<PROP>/out/<X> to /verif/seeded/<PROP>-<X>/ and writes meta.json."""
import json, os, shutil, sys
prop, x, needs, caught = sys.argv[1:5]
note = sys.argv[5] if len(sys.argv) > 5 else ""
# later rounds live in /tmp/seed/<PROP>r<k>/out/<X>
tag = os.environ.get("SEED_TAG", "")
src = f"/tmp/seed/{prop}{tag}/out/{x}"
dst = f"/verif/seeded/{prop}-{x}"
os.makedirs(dst, exist_ok=True)
for f in os.listdir(src):
    if f.endswith(".log"): continue
    shutil.copy(os.path.join(src, f), os.path.join(dst, f))
conf = json.load(open(os.path.join(src, "confirm.json")))
meta = {
    "property": prop,
    "breaks": open(f"/tmp/seed/{prop}{tag}/property.txt").read().split("\n")[0].replace("Title: ", "") if os.path.exists(f"/tmp/seed/{prop}{tag}/property.txt") else prop,
    "needs_to_manifest": needs,
    "origin": "independent sub-agent given only the property text and a scratch worktree",
    "confirmed": {
        "how": "tools/confirm_seed.sh in a scratch worktree of /repo HEAD: cargo test --offline with the patch; with patch + demo; with demo only",
        "existing_suite_with_patch": conf["suite_with_patch"],
        "demo_with_patch": conf["demo_with_patch"] + " (non-zero exit)",
        "demo_without_patch": conf["demo_without_patch"],
    },
    "detected_by": [] if caught == "none" else caught.split(","),
    "detection_cmd": "tools/try_seed.sh seeded/%s-%s/patch.diff quick <check>" % (prop, x),
    "note": note,
}
json.dump(meta, open(os.path.join(dst, "meta.json"), "w"), indent=1)
print(dst)
