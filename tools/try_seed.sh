#!/bin/bash
# usage: tools/try_seed.sh <patch.diff> <tier> <check id>...
# Applies a seeded change to /repo, runs the given checks, reverts. Prints one line per check.
set -u
patch=$1; tier=$2; shift 2
cd /verif
if ! git -C /repo diff --quiet; then echo "/repo is dirty"; exit 2; fi
git -C /repo apply "$patch" || { echo "patch does not apply"; exit 2; }
mkdir -p /tmp/seedlogs
for id in "$@"; do
  log=/tmp/seedlogs/$(basename $(dirname $patch))-$id.log
  cp evidence/$id.json /tmp/seedlogs/$id.evidence.bak 2>/dev/null
  ./check $id --tier $tier > $log 2>&1; rc=$?
  cp /tmp/seedlogs/$id.evidence.bak evidence/$id.json 2>/dev/null
  echo "$id rc=$rc $(grep -c '^VIOLATION' $log) violation lines; $(grep -m1 'violation:' $log | cut -c1-200)"
done
git -C /repo checkout -- .
# remove replay files written by the mutated run
git -C /verif clean -fdq replays
git -C /verif checkout -- replays 2>/dev/null
exit 0
