#!/usr/bin/env python3
"""Regenerates the machine-written parts of DESIGN.md (between the
<!-- BEGIN:x --> / <!-- END:x --> markers) from evidence/*.json,
seeded/*/meta.json, known-findings.jsonl and /repo's git log.

usage: tools/gen_design_tables.py            (rewrites /verif/DESIGN.md in place)
"""
import glob, json, os, re, subprocess

V = os.path.dirname(os.path.dirname(os.path.abspath(__file__)))


def esc(s):
    return str(s).replace("|", "\\|").replace("\n", " ")


def as_built():
    rows = ["| id | level | tier of this evidence | evaluations / states / transitions | distinct non-trivial | distinct outcomes | exhaustive | wall s |",
            "|---|---|---|---|---|---|---|---|"]
    detail = []
    for f in sorted(glob.glob(os.path.join(V, "evidence", "C*.json"))):
        e = json.load(open(f))
        c = e["coverage"]
        nums = "%s / %s / %s" % (c.get("evaluations", "-"), c.get("states", "-"), c.get("transitions", "-"))
        rows.append("| %s | %s | %s | %s | %s | %s | %s%s | %.1f |" % (
            e["property_id"], e["level"], e["tier"], nums, c.get("distinct_nontrivial", "-"),
            c.get("distinct_outcomes", "-"), c.get("exhaustive"),
            " (capped)" if c.get("capped") else "", e["wall_s"]))
        detail.append("**%s** (%s tier). *Rule:* %s *Bound:* %s%s" % (
            e["property_id"], e["tier"], esc(re.sub(r"\s+", " ", c.get("rule", ""))).rstrip(".") + ".",
            esc(c.get("bound", "")),
            (" *Cap hit:* " + esc(c.get("cap_detail") or c["capped"])) if c.get("capped") else ""))
    return "\n".join(rows) + "\n\n" + "\n\n".join(detail)


def seeded():
    rows = ["| change | site (from its README) | needs, to show | caught by | note |", "|---|---|---|---|---|"]
    n = caught = first_missed = 0
    for d in sorted(glob.glob(os.path.join(V, "seeded", "*"))):
        mp = os.path.join(d, "meta.json")
        if not os.path.exists(mp):
            continue
        m = json.load(open(mp))
        site = ""
        pd = os.path.join(d, "patch.diff")
        if os.path.exists(pd):
            files = re.findall(r"^\+\+\+ b/(\S+)", open(pd).read(), re.M)
            site = ", ".join(sorted(set(files)))
        n += 1
        if m.get("detected_by"):
            caught += 1
        if "missed" in m.get("note", ""):
            first_missed += 1
        rows.append("| %s | `%s` | %s | %s | %s |" % (
            os.path.basename(d), site, esc(m.get("needs_to_manifest", "")),
            ", ".join(m.get("detected_by") or ["**none**"]), esc(m.get("note", ""))))
    head = ("%d confirmed changes; %d are reported by at least one check at the quick tier; "
            "%d of them were missed when first tried and led to the strengthening noted in the last column.\n\n" % (n, caught, first_missed))
    return head + "\n".join(rows)


def strengthening():
    """Per property: what was added to its check after a seeded change was missed."""
    by = {}
    for d in sorted(glob.glob(os.path.join(V, "seeded", "*"))):
        mp = os.path.join(d, "meta.json")
        if not os.path.exists(mp):
            continue
        m = json.load(open(mp))
        note = m.get("note", "")
        if "miss" not in note:
            continue
        by.setdefault(m["property"], []).append("%s: %s" % (os.path.basename(d), note))
    out = []
    for prop in sorted(by):
        out.append("* **%s**" % prop)
        for n in by[prop]:
            out.append("  * %s" % n)
    return "\n".join(out)


def findings():
    subj = {}
    for l in subprocess.check_output(["git", "-C", "/repo", "log", "--format=%h\t%s"]).decode().splitlines():
        h, s = l.split("\t", 1)
        subj[h] = s
    fixed, open_ = [], []
    for l in open(os.path.join(V, "known-findings.jsonl")):
        if not l.strip():
            continue
        e = json.loads(l)
        if e["status"] == "fixed":
            fixed.append(e)
        else:
            open_.append(e)
    out = ["**Fixed** (one `fix:` commit each; the entry suppresses nothing):\n",
           "| property | commit | what failed | fingerprint the check reported |", "|---|---|---|---|"]
    for e in fixed:
        out.append("| %s | `%s` %s | %s | `%s` |" % (e["property"], e.get("commit", ""), esc(subj.get(e.get("commit", ""), "")),
                                                  esc(e["what"]), esc(e["fingerprint"])))
    out += ["", "**Open** (recorded, printed as `KNOWN-FINDING`, exit 0; any other violation of the property still fails):\n",
            "| property | fingerprint | what fails | why not repaired here |", "|---|---|---|---|"]
    for e in open_:
        out.append("| %s | `%s` | %s | %s |" % (e["property"], esc(e["fingerprint"]), esc(e["what"]), esc(e.get("why_open", ""))))
    return "\n".join(out)


def hooks():
    rows = ["| commit | subject |", "|---|---|"]
    for l in subprocess.check_output(["git", "-C", "/repo", "log", "--reverse", "--format=%h\t%s", "--grep", "^verif hooks"]).decode().splitlines():
        h, s = l.split("\t", 1)
        rows.append("| `%s` | %s |" % (h, esc(s)))
    return "\n".join(rows)


def main():
    p = os.path.join(V, "DESIGN.md")
    s = open(p).read()
    for name, fn in (("as-built", as_built), ("seeded", seeded), ("strengthening", strengthening), ("findings", findings), ("hook-commits", hooks)):
        b, e = "<!-- BEGIN:%s -->" % name, "<!-- END:%s -->" % name
        if b not in s:
            print("marker missing:", name)
            continue
        i, j = s.index(b) + len(b), s.index(e)
        s = s[:i] + "\n" + fn() + "\n" + s[j:]
    counts = {
        "fix-commits": len(subprocess.check_output(["git", "-C", "/repo", "log", "--format=%h", "--grep", "^fix:"]).decode().split()),
        "open": sum(1 for l in open(os.path.join(V, "known-findings.jsonl")) if l.strip() and json.loads(l)["status"] == "open"),
        "seeded": len(glob.glob(os.path.join(V, "seeded", "*", "meta.json"))),
    }
    for k, v in counts.items():
        s = re.sub(r"<!--n:%s-->.*?<!--/n-->" % k, "<!--n:%s-->%d<!--/n-->" % (k, v), s)
    open(p, "w").write(s)
    print("DESIGN.md tables regenerated", counts)


if __name__ == "__main__":
    main()
