#!/usr/bin/env python3
"""Regenerates /verif/MANIFEST.json from the table in tools/checks.json and the hook commits in /repo."""
import json, os, subprocess, sys
V = os.path.dirname(os.path.dirname(os.path.abspath(__file__)))
table = json.load(open(os.path.join(V, "tools", "checks.json")))
props = [json.loads(l) for l in open(os.path.join(V, "properties.jsonl"))]
ids = [p["id"] for p in props]
log = subprocess.run(["git", "-C", "/repo", "log", "--format=%H %s"], capture_output=True, text=True).stdout.splitlines()
hook_commits = [l.split()[0] for l in log if l.split(" ", 1)[1].startswith("verif hooks:")]
checks = []
na = []
for pid in ids:
    t = table.get(pid)
    if not t or not t.get("implemented"):
        na.append({"property_id": pid, "reason": (t or {}).get("na_reason", "check not built yet (planned in DESIGN.md section 4); not claimed")})
        continue
    c = {
        "property_id": pid,
        "quick_cmd": f"./check {pid} --tier quick",
        "thorough_cmd": f"./check {pid} --tier thorough",
        "evidence_file": f"/verif/evidence/{pid}.json",
        "replay_cmd_template": f"./check {pid} --replay {{path}}",
        "engine": t["engine"],
        "level_claimed": {"category": t["level"], "text": t["text"], "design_ref": f"DESIGN.md section 4, {pid}"},
        "level_note": t["note"],
        "technique": t["technique"],
    }
    checks.append(c)
engines = {}
for pid in ids:
    t = table.get(pid)
    if t and t.get("implemented"):
        engines.setdefault(t["engine"], []).append(pid)
ENG = {
    "E-SEQ": ("harness/src/checks", "exhaustive enumeration of operation/input sequences over a finite alphabet against a reference model, on the real code"),
    "E-ENUM": ("harness/src/checks", "complete enumeration of a finite input/configuration grammar against a reference model, on the real code"),
    "E-BFS": ("harness/src/checks", "explicit-state breadth-first search; every transition executes the real handler; canonical-state dedup"),
    "E-SCHED": ("harness/src/sched.rs", "CHESS-style controlled scheduler: all interleavings of real threads at hooked synchronisation points up to a preemption bound"),
    "E-TREE": ("harness/src/rpkigen", "generated signed RPKI trees with enumerated fault placements through the real validation engine"),
    "E-CRASH": ("harness/src/crash.rs", "every file-system step of a run as kill point; recovery by the real code"),
    "E-FAULT": ("harness/src/checks", "every sequence of environment answers up to a length, real handlers"),
}
m = {
    "version": 1,
    "setup_cmd": "./check --build",
    "hooks": {
        "guard": "--cfg routinator_verif",
        "enable": "RUSTFLAGS=\"--cfg routinator_verif\" (set in /verif/harness/.cargo/config.toml for the harness build, which compiles /repo as a path dependency; and by ./check for the real binary built into /verif/target-bin)",
        "baseline_off_cmd": "cd /repo && cargo test --workspace --no-fail-fast --offline",
        "source_commits": hook_commits[::-1],
        "add_only": True,
    },
    "engines": [{"name": k, "path": ENG[k][0], "serves_properties": v, "kind_free_text": ENG[k][1]} for k, v in engines.items()],
    "checks": checks,
    "notes": "All checks: ./check <ID> --tier quick|thorough; exit 0 held / 1 VIOLATION / 2 machinery error. Known findings: /verif/known-findings.jsonl. See DESIGN.md.",
    "not_applicable": na,
}
json.dump(m, open(os.path.join(V, "MANIFEST.json"), "w"), indent=1)
print(f"claimed {len(checks)}, not claimed {len(na)}")
