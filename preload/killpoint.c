/* LD_PRELOAD shim: SIGKILL the process on entry to its N-th mutating
 * file-system call below a directory.
 *
 *   KILLPOINT_DIR    only calls whose target lies below this directory count
 *   KILLPOINT_EXE    only processes whose /proc/self/exe ends with this count
 *   KILLPOINT_AT     N (1-based); 0 or unset: never kill, only count
 *   KILLPOINT_AFTER  if set to 1: kill right after the N-th call returned
 *                    instead of before it is made (this reaches the state
 *                    in front of any following operations the shim cannot
 *                    see, e.g. a rename made through a raw system call)
 *   KILLPOINT_LOG    append "<n> <op> <path>" per counted call (dry run)
 *
 * The kill is a real SIGKILL raised before the call is performed: whatever
 * earlier calls wrote is in the page cache, user-space buffers are lost.
 */
#define _GNU_SOURCE
#include <dlfcn.h>
#include <fcntl.h>
#include <signal.h>
#include <stdarg.h>
#include <stdio.h>
#include <stdlib.h>
#include <string.h>
#include <sys/stat.h>
#include <sys/types.h>
#include <sys/uio.h>
#include <unistd.h>

static int initialised = 0;
static int active = 0;
static long kill_at = 0;
static long counter = 0;
static int kill_after = 0;
static int pending = 0;
static const char *dir = NULL;
static size_t dir_len = 0;
static const char *log_path = NULL;

static void init(void) {
    if (initialised) return;
    initialised = 1;
    dir = getenv("KILLPOINT_DIR");
    const char *exe = getenv("KILLPOINT_EXE");
    const char *at = getenv("KILLPOINT_AT");
    log_path = getenv("KILLPOINT_LOG");
    if (!dir || !exe) return;
    dir_len = strlen(dir);
    char buf[4096];
    ssize_t n = readlink("/proc/self/exe", buf, sizeof(buf) - 1);
    if (n <= 0) return;
    buf[n] = 0;
    size_t el = strlen(exe);
    if ((size_t)n < el || strcmp(buf + n - el, exe) != 0) return;
    kill_at = at ? atol(at) : 0;
    kill_after = getenv("KILLPOINT_AFTER") && atoi(getenv("KILLPOINT_AFTER")) == 1;
    active = 1;
}

static int below(const char *path) {
    if (!path) return 0;
    char abs[8192];
    if (path[0] != '/') {
        if (!getcwd(abs, sizeof(abs) - 2)) return 0;
        size_t l = strlen(abs);
        snprintf(abs + l, sizeof(abs) - l, "/%s", path);
        path = abs;
    }
    return strncmp(path, dir, dir_len) == 0 && (path[dir_len] == '/' || path[dir_len] == 0);
}

static int fd_below(int fd, char *out, size_t outlen) {
    char link[64];
    snprintf(link, sizeof(link), "/proc/self/fd/%d", fd);
    ssize_t n = readlink(link, out, outlen - 1);
    if (n <= 0) return 0;
    out[n] = 0;
    return below(out);
}

static void at_path(int dirfd, const char *path, char *out, size_t outlen) {
    if (path && path[0] == '/') { snprintf(out, outlen, "%s", path); return; }
    if (dirfd == AT_FDCWD) { snprintf(out, outlen, "%s", path ? path : ""); return; }
    char base[4096];
    char link[64];
    snprintf(link, sizeof(link), "/proc/self/fd/%d", dirfd);
    ssize_t n = readlink(link, base, sizeof(base) - 1);
    if (n <= 0) { snprintf(out, outlen, "%s", path ? path : ""); return; }
    base[n] = 0;
    snprintf(out, outlen, "%s/%s", base, path ? path : "");
}

static void point(const char *op, const char *path) {
    counter++;
    if (log_path) {
        static int (*real_open)(const char *, int, ...) = NULL;
        static ssize_t (*real_write)(int, const void *, size_t) = NULL;
        if (!real_open) real_open = dlsym(RTLD_NEXT, "open");
        if (!real_write) real_write = dlsym(RTLD_NEXT, "write");
        int fd = real_open(log_path, O_WRONLY | O_CREAT | O_APPEND, 0644);
        if (fd >= 0) {
            char line[8300];
            int n = snprintf(line, sizeof(line), "%ld %s %s\n", counter, op, path ? path + (strlen(path) > dir_len ? dir_len : 0) : "");
            real_write(fd, line, n);
            close(fd);
        }
    }
    if (kill_at > 0 && counter == kill_at) {
        if (kill_after) { pending = 1; return; }
        raise(SIGKILL);
        for (;;) pause();
    }
}

static void after(void) {
    if (pending) {
        raise(SIGKILL);
        for (;;) pause();
    }
}

#define REAL(name) static __typeof__(name) *real = NULL; if (!real) real = dlsym(RTLD_NEXT, #name)

ssize_t write(int fd, const void *buf, size_t count) {
    REAL(write);
    init();
    if (active) { char p[4096]; if (fd_below(fd, p, sizeof(p))) point("write", p); }
    { __typeof__(real(fd, buf, count)) r__ = real(fd, buf, count); after(); return r__; }
}

ssize_t writev(int fd, const struct iovec *iov, int iovcnt) {
    REAL(writev);
    init();
    if (active) { char p[4096]; if (fd_below(fd, p, sizeof(p))) point("writev", p); }
    { __typeof__(real(fd, iov, iovcnt)) r__ = real(fd, iov, iovcnt); after(); return r__; }
}

ssize_t pwrite64(int fd, const void *buf, size_t count, off64_t off) {
    REAL(pwrite64);
    init();
    if (active) { char p[4096]; if (fd_below(fd, p, sizeof(p))) point("pwrite", p); }
    { __typeof__(real(fd, buf, count, off)) r__ = real(fd, buf, count, off); after(); return r__; }
}

static int creating(int flags) { return (flags & (O_CREAT | O_TRUNC)) != 0; }

int open(const char *path, int flags, ...) {
    REAL(open);
    mode_t mode = 0;
    if (flags & (O_CREAT | O_TMPFILE)) { va_list ap; va_start(ap, flags); mode = va_arg(ap, mode_t); va_end(ap); }
    init();
    if (active && creating(flags) && below(path)) point("open-create", path);
    { __typeof__(real(path, flags, mode)) r__ = real(path, flags, mode); after(); return r__; }
}

int open64(const char *path, int flags, ...) {
    REAL(open64);
    mode_t mode = 0;
    if (flags & (O_CREAT | O_TMPFILE)) { va_list ap; va_start(ap, flags); mode = va_arg(ap, mode_t); va_end(ap); }
    init();
    if (active && creating(flags) && below(path)) point("open-create", path);
    { __typeof__(real(path, flags, mode)) r__ = real(path, flags, mode); after(); return r__; }
}

int openat(int dirfd, const char *path, int flags, ...) {
    REAL(openat);
    mode_t mode = 0;
    if (flags & (O_CREAT | O_TMPFILE)) { va_list ap; va_start(ap, flags); mode = va_arg(ap, mode_t); va_end(ap); }
    init();
    if (active && creating(flags)) { char p[8192]; at_path(dirfd, path, p, sizeof(p)); if (below(p)) point("open-create", p); }
    { __typeof__(real(dirfd, path, flags, mode)) r__ = real(dirfd, path, flags, mode); after(); return r__; }
}

int openat64(int dirfd, const char *path, int flags, ...) {
    REAL(openat64);
    mode_t mode = 0;
    if (flags & (O_CREAT | O_TMPFILE)) { va_list ap; va_start(ap, flags); mode = va_arg(ap, mode_t); va_end(ap); }
    init();
    if (active && creating(flags)) { char p[8192]; at_path(dirfd, path, p, sizeof(p)); if (below(p)) point("open-create", p); }
    { __typeof__(real(dirfd, path, flags, mode)) r__ = real(dirfd, path, flags, mode); after(); return r__; }
}

int rename(const char *from, const char *to) {
    REAL(rename);
    init();
    if (active && (below(from) || below(to))) point("rename", to);
    { __typeof__(real(from, to)) r__ = real(from, to); after(); return r__; }
}

int renameat(int fd1, const char *from, int fd2, const char *to) {
    REAL(renameat);
    init();
    if (active) { char p[8192]; at_path(fd2, to, p, sizeof(p)); if (below(p)) point("rename", p); }
    { __typeof__(real(fd1, from, fd2, to)) r__ = real(fd1, from, fd2, to); after(); return r__; }
}

int renameat2(int fd1, const char *from, int fd2, const char *to, unsigned int flags) {
    REAL(renameat2);
    init();
    if (active) { char p[8192]; at_path(fd2, to, p, sizeof(p)); if (below(p)) point("rename", p); }
    { __typeof__(real(fd1, from, fd2, to, flags)) r__ = real(fd1, from, fd2, to, flags); after(); return r__; }
}

int link(const char *from, const char *to) {
    REAL(link);
    init();
    if (active && below(to)) point("link", to);
    { __typeof__(real(from, to)) r__ = real(from, to); after(); return r__; }
}

int linkat(int fd1, const char *from, int fd2, const char *to, int flags) {
    REAL(linkat);
    init();
    if (active) { char p[8192]; at_path(fd2, to, p, sizeof(p)); if (below(p)) point("link", p); }
    { __typeof__(real(fd1, from, fd2, to, flags)) r__ = real(fd1, from, fd2, to, flags); after(); return r__; }
}

int unlink(const char *path) {
    REAL(unlink);
    init();
    if (active && below(path)) point("unlink", path);
    { __typeof__(real(path)) r__ = real(path); after(); return r__; }
}

int unlinkat(int dirfd, const char *path, int flags) {
    REAL(unlinkat);
    init();
    if (active) { char p[8192]; at_path(dirfd, path, p, sizeof(p)); if (below(p)) point("unlink", p); }
    { __typeof__(real(dirfd, path, flags)) r__ = real(dirfd, path, flags); after(); return r__; }
}

int rmdir(const char *path) {
    REAL(rmdir);
    init();
    if (active && below(path)) point("rmdir", path);
    { __typeof__(real(path)) r__ = real(path); after(); return r__; }
}

int mkdir(const char *path, mode_t mode) {
    REAL(mkdir);
    init();
    if (active && below(path)) point("mkdir", path);
    { __typeof__(real(path, mode)) r__ = real(path, mode); after(); return r__; }
}

int mkdirat(int dirfd, const char *path, mode_t mode) {
    REAL(mkdirat);
    init();
    if (active) { char p[8192]; at_path(dirfd, path, p, sizeof(p)); if (below(p)) point("mkdir", p); }
    { __typeof__(real(dirfd, path, mode)) r__ = real(dirfd, path, mode); after(); return r__; }
}

int ftruncate(int fd, off_t len) {
    REAL(ftruncate);
    init();
    if (active) { char p[4096]; if (fd_below(fd, p, sizeof(p))) point("ftruncate", p); }
    { __typeof__(real(fd, len)) r__ = real(fd, len); after(); return r__; }
}

int ftruncate64(int fd, off64_t len) {
    REAL(ftruncate64);
    init();
    if (active) { char p[4096]; if (fd_below(fd, p, sizeof(p))) point("ftruncate", p); }
    { __typeof__(real(fd, len)) r__ = real(fd, len); after(); return r__; }
}
