#![allow(dead_code)]
//! Small payload universes and reference representations.

use std::collections::{BTreeMap, BTreeSet};
use std::net::{IpAddr, Ipv4Addr, Ipv6Addr};
use std::sync::Arc;
use bytes::Bytes;
use rpki::crypto::KeyIdentifier;
use rpki::resources::addr::{MaxLenPrefix, Prefix};
use rpki::resources::Asn;
use rpki::rtr::payload::{Action, Aspa, Payload, PayloadRef, RouteOrigin, RouterKey};
use rpki::rtr::pdu::{ProviderAsns, RouterKeyInfo};
use routinator::payload::{PayloadInfo, PayloadSnapshot};
use routinator::slurm::ExceptionInfo;

pub fn info() -> PayloadInfo {
    PayloadInfo::from(Arc::new(ExceptionInfo::default()))
}

pub fn origin(addr: &str, len: u8, max: u8, asn: u32) -> RouteOrigin {
    let addr: IpAddr = addr.parse().unwrap();
    RouteOrigin::new(
        MaxLenPrefix::new(Prefix::new(addr, len).unwrap(), Some(max)).unwrap(),
        Asn::from_u32(asn)
    )
}

pub fn v4(a: u8, b: u8, c: u8, d: u8, len: u8, max: u8, asn: u32) -> RouteOrigin {
    RouteOrigin::new(
        MaxLenPrefix::new(
            Prefix::new(IpAddr::V4(Ipv4Addr::new(a, b, c, d)), len).unwrap(),
            Some(max)
        ).unwrap(),
        Asn::from_u32(asn)
    )
}

pub fn v6(addr: Ipv6Addr, len: u8, max: u8, asn: u32) -> RouteOrigin {
    RouteOrigin::new(
        MaxLenPrefix::new(
            Prefix::new(IpAddr::V6(addr), len).unwrap(), Some(max)
        ).unwrap(),
        Asn::from_u32(asn)
    )
}

pub fn router_key(ski: u8, asn: u32, key: &[u8]) -> RouterKey {
    RouterKey::new(
        KeyIdentifier::from([ski; 20]),
        Asn::from_u32(asn),
        RouterKeyInfo::new(Bytes::copy_from_slice(key)).unwrap()
    )
}

pub fn aspa(customer: u32, providers: &[u32]) -> Aspa {
    Aspa::new(
        Asn::from_u32(customer),
        ProviderAsns::try_from_iter(
            providers.iter().map(|x| Asn::from_u32(*x))
        ).unwrap()
    )
}

/// The origins universe (3 items; two share a prefix, two share an ASN).
pub fn origin_universe() -> Vec<RouteOrigin> {
    vec![
        v4(10, 0, 0, 0, 8, 8, 1),
        v4(10, 0, 0, 0, 8, 16, 1),
        v6("2001:db8::".parse().unwrap(), 32, 48, 2),
    ]
}

/// The router key universe (2 items, same ASN, different key).
pub fn key_universe() -> Vec<RouterKey> {
    vec![router_key(1, 1, b"key-one"), router_key(2, 1, b"key-two")]
}

/// The ASPA universe: per customer the provider-set choices.
///
/// Index 0 means absent.
pub fn aspa_choices(customer: u32) -> Vec<Option<Aspa>> {
    vec![
        None,
        Some(aspa(customer, &[1])),
        Some(aspa(customer, &[2])),
        Some(aspa(customer, &[1, 2])),
    ]
}

/// A data set in reference form.
#[derive(Clone, Debug, Default, Eq, Ord, PartialEq, PartialOrd)]
pub struct DataSet {
    pub origins: BTreeSet<RouteOrigin>,
    pub keys: BTreeSet<RouterKey>,
    pub aspas: BTreeMap<Asn, ProviderAsns>,
}

impl DataSet {
    pub fn snapshot(&self) -> PayloadSnapshot {
        PayloadSnapshot::new(
            self.origins.iter().map(|o| (*o, info())),
            self.keys.iter().map(|k| (k.clone(), info())),
            self.aspas.iter().map(|(c, p)| {
                (Aspa::new(*c, p.clone()), info())
            }),
            None
        )
    }

    pub fn from_snapshot(snap: &PayloadSnapshot) -> Self {
        DataSet {
            origins: snap.origins().map(|x| x.0).collect(),
            keys: snap.router_keys().map(|x| x.0.clone()).collect(),
            aspas: snap.aspas().map(|x| {
                (x.0.customer, x.0.providers.clone())
            }).collect(),
        }
    }

    /// Collects from an iterator of payload refs; reports duplicates.
    pub fn from_payload<'a>(
        iter: impl Iterator<Item = PayloadRef<'a>>
    ) -> Result<Self, String> {
        let mut res = DataSet::default();
        for item in iter {
            let fresh = match item {
                PayloadRef::Origin(o) => res.origins.insert(o),
                PayloadRef::RouterKey(k) => res.keys.insert(k.clone()),
                PayloadRef::Aspa(a) => {
                    res.aspas.insert(a.customer, a.providers.clone()).is_none()
                }
            };
            if !fresh {
                return Err(format!("duplicate item {:?}", item))
            }
        }
        Ok(res)
    }

    /// Applies an action list as an RTR client would.
    ///
    /// Returns an error when an action is impossible (withdrawing an
    /// absent item, announcing a present origin/key).
    pub fn apply(
        &mut self, actions: &[(Payload, Action)]
    ) -> Result<(), String> {
        for (p, a) in actions {
            match (p, a) {
                (Payload::Origin(o), Action::Announce) => {
                    if !self.origins.insert(*o) {
                        return Err(format!("announce of present {:?}", o))
                    }
                }
                (Payload::Origin(o), Action::Withdraw) => {
                    if !self.origins.remove(o) {
                        return Err(format!("withdraw of absent {:?}", o))
                    }
                }
                (Payload::RouterKey(k), Action::Announce) => {
                    if !self.keys.insert(k.clone()) {
                        return Err(format!("announce of present {:?}", k))
                    }
                }
                (Payload::RouterKey(k), Action::Withdraw) => {
                    if !self.keys.remove(k) {
                        return Err(format!("withdraw of absent {:?}", k))
                    }
                }
                (Payload::Aspa(x), Action::Announce) => {
                    // announce covers add and replace
                    if self.aspas.get(&x.customer) == Some(&x.providers) {
                        return Err(format!(
                            "announce of unchanged ASPA {:?}", x
                        ))
                    }
                    self.aspas.insert(x.customer, x.providers.clone());
                }
                (Payload::Aspa(x), Action::Withdraw) => {
                    if self.aspas.remove(&x.customer).is_none() {
                        return Err(format!("withdraw of absent {:?}", x))
                    }
                }
            }
        }
        Ok(())
    }

    pub fn describe(&self) -> String {
        let o: Vec<String> = self.origins.iter().map(fmt_origin).collect();
        let k: Vec<String> = self.keys.iter().map(|k| {
            format!("key{}", k.key_identifier.as_slice()[0])
        }).collect();
        let a: Vec<String> = self.aspas.iter().map(|(c, p)| {
            format!("{}=>{:?}", c, p.iter().map(|x| x.into_u32()).collect::<Vec<_>>())
        }).collect();
        format!("{{o:[{}] k:[{}] a:[{}]}}", o.join(","), k.join(","), a.join(","))
    }
}

pub fn fmt_origin(o: &RouteOrigin) -> String {
    format!(
        "{}/{}-{}@{}", o.prefix.addr(), o.prefix.prefix_len(),
        o.prefix.resolved_max_len(), o.asn.into_u32()
    )
}

pub fn fmt_payload(p: &Payload) -> String {
    match p {
        Payload::Origin(o) => fmt_origin(o),
        Payload::RouterKey(k) => format!(
            "key{}@{}", k.key_identifier.as_slice()[0], k.asn.into_u32()
        ),
        Payload::Aspa(a) => format!(
            "aspa{}=>{:?}", a.customer.into_u32(),
            a.providers.iter().map(|x| x.into_u32()).collect::<Vec<_>>()
        ),
    }
}

pub fn fmt_actions(actions: &[(Payload, Action)]) -> Vec<String> {
    actions.iter().map(|(p, a)| {
        format!("{}{}", if a.is_announce() { "+" } else { "-" }, fmt_payload(p))
    }).collect()
}

pub fn to_owned(p: PayloadRef<'_>) -> Payload {
    match p {
        PayloadRef::Origin(o) => Payload::Origin(o),
        PayloadRef::RouterKey(k) => Payload::RouterKey(k.clone()),
        PayloadRef::Aspa(a) => Payload::Aspa(a.clone()),
    }
}

/// All data sets over the given universes (full product).
pub fn all_sets(
    origins: &[RouteOrigin], keys: &[RouterKey],
    aspa_customers: &[u32],
) -> Vec<DataSet> {
    let mut res = Vec::new();
    let choices: Vec<Vec<Option<Aspa>>> = aspa_customers.iter().map(|c| {
        aspa_choices(*c)
    }).collect();
    let aspa_combos: usize = choices.iter().map(|c| c.len()).product();
    for om in 0..(1u32 << origins.len()) {
        for km in 0..(1u32 << keys.len()) {
            for mut ac in 0..aspa_combos {
                let mut ds = DataSet::default();
                for (i, o) in origins.iter().enumerate() {
                    if om & (1 << i) != 0 { ds.origins.insert(*o); }
                }
                for (i, k) in keys.iter().enumerate() {
                    if km & (1 << i) != 0 { ds.keys.insert(k.clone()); }
                }
                for ch in &choices {
                    let pick = &ch[ac % ch.len()];
                    ac /= ch.len();
                    if let Some(a) = pick {
                        ds.aspas.insert(a.customer, a.providers.clone());
                    }
                }
                res.push(ds);
            }
        }
    }
    res
}

/// Local exceptions whose assertions are exactly the origins and router
/// keys of the data set (ASPAs cannot be asserted through SLURM here).
pub fn exceptions_for(ds: &DataSet) -> routinator::slurm::LocalExceptions {
    use rpki::slurm::{
        BgpsecAssertion, LocallyAddedAssertions, PrefixAssertion, SlurmFile,
        ValidationOutputFilters, Base64KeyInfo,
    };
    assert!(ds.aspas.is_empty());
    let file = SlurmFile::new(
        ValidationOutputFilters::new(Vec::new(), Vec::new()),
        LocallyAddedAssertions::new(
            ds.origins.iter().map(|o| {
                PrefixAssertion::new(o.prefix, o.asn, None)
            }).collect::<Vec<_>>(),
            ds.keys.iter().map(|k| {
                BgpsecAssertion::new(
                    k.asn, k.key_identifier,
                    Base64KeyInfo::try_from(
                        k.key_info.as_slice().to_vec()
                    ).unwrap(),
                    None
                )
            }).collect::<Vec<_>>(),
        )
    );
    routinator::slurm::LocalExceptions::from_json(
        &file.to_string(), false
    ).expect("slurm round trip")
}

/// Installs the data set as the next validation result of the history.
///
/// Origins and router keys go in as SLURM assertions (hook-free), ASPAs
/// through the cfg-only `verif_push_point`.
pub fn install(
    history: &routinator::payload::SharedHistory,
    config: &routinator::Config, ds: &DataSet
) -> bool {
    let (report, exc, metrics) = prepare(config, ds);
    history.update(report, &exc, metrics)
}

pub fn prepare(
    config: &routinator::Config, ds: &DataSet
) -> (
    routinator::payload::ValidationReport,
    routinator::slurm::LocalExceptions,
    routinator::metrics::Metrics
) {
    let mut config = config.clone();
    config.enable_aspa = true;
    let report = routinator::payload::ValidationReport::new(&config);
    let mut metrics = routinator::metrics::Metrics::new();
    let tal = rpki::repository::tal::TalInfo::from_name("verif".into()).into_arc();
    metrics.tals.push(routinator::metrics::TalMetrics::new(tal.clone()));
    if !ds.aspas.is_empty() {
        report.verif_push_point(
            tal,
            rpki::repository::x509::Time::utc(2100, 1, 1, 0, 0, 0),
            Vec::new(), Vec::new(),
            ds.aspas.iter().map(|(c, p)| (*c, p.iter().collect::<Vec<_>>()))
        );
    }
    let mut plain = ds.clone();
    plain.aspas.clear();
    (report, exceptions_for(&plain), metrics)
}

/// A configuration for tests that never touch the file system.
pub fn mem_config() -> routinator::Config {
    let mut config = routinator::Config::default_with_paths(
        "/nonexistent/routinator.conf".into(),
        "/nonexistent/rpki-cache".into(),
    );
    config.validation_threads = 1;
    config
}

/// The four data sets used for history checks. One ASPA customer is
/// absent, then has providers {1}, {1,2}, {2}: repeated changes of one
/// customer across consecutive updates (merging them is order dependent).
pub fn history_sets() -> Vec<DataSet> {
    let o = origin_universe();
    let k = key_universe();
    let mk = |os: &[usize], ks: &[usize], providers: &[u32]| {
        let mut ds = DataSet::default();
        for i in os { ds.origins.insert(o[*i]); }
        for i in ks { ds.keys.insert(k[*i].clone()); }
        if !providers.is_empty() { ds.aspas.insert(7.into(), aspa(7, providers).providers); }
        ds
    };
    vec![mk(&[], &[], &[]), mk(&[0], &[], &[1]), mk(&[0, 1], &[0], &[1, 2]), mk(&[1, 2], &[1], &[2])]
}
