//! E-TREE: generated, validly signed RPKI repository trees with injected
//! faults and a ground truth derived from the spec (never from the
//! validator).

#![allow(dead_code)]

use std::collections::BTreeMap;
use std::net::{IpAddr, Ipv4Addr, Ipv6Addr};
use std::path::Path;
use std::str::FromStr;
use std::sync::atomic::{AtomicUsize, Ordering};
use bytes::Bytes;
use rpki::crypto::softsigner::{KeyId, OpenSslSigner};
use rpki::crypto::{
    DigestAlgorithm, PublicKey, PublicKeyFormat, Signature,
    SignatureAlgorithm, Signer,
};
use rpki::crypto::signer::{KeyError, SigningError};
use rpki::repository::aspa::AspaBuilder;
use rpki::repository::cert::{ExtendedKeyUsage, KeyUsage, Overclaim, TbsCert};
use rpki::repository::crl::{CrlEntry, TbsCertList};
use rpki::repository::manifest::{FileAndHash, ManifestContent};
use rpki::repository::resources::Prefix as ResPrefix;
use rpki::repository::roa::RoaBuilder;
use rpki::repository::sigobj::SignedObjectBuilder;
use rpki::repository::x509::{Serial, Time, Validity};
use rpki::resources::Asn;
use rpki::rtr::payload::Payload;
use rpki::uri;
use bcder::Mode;
use bcder::encode::Values;
use chrono::TimeDelta;
use crate::data;


//------------ PoolSigner ----------------------------------------------------

/// A signer that takes one-off keys from a pool of pre-generated keys.
pub struct PoolSigner {
    inner: OpenSslSigner,
    pool: Vec<KeyId>,
    next: AtomicUsize,
}

impl Signer for PoolSigner {
    type KeyId = KeyId;
    type Error = <OpenSslSigner as Signer>::Error;

    fn create_key(&self, algorithm: PublicKeyFormat) -> Result<KeyId, Self::Error> {
        self.inner.create_key(algorithm)
    }

    fn get_key_info(&self, key: &KeyId) -> Result<PublicKey, KeyError<Self::Error>> {
        self.inner.get_key_info(key)
    }

    fn destroy_key(&self, key: &KeyId) -> Result<(), KeyError<Self::Error>> {
        self.inner.destroy_key(key)
    }

    fn sign<Alg: SignatureAlgorithm, D: AsRef<[u8]> + ?Sized>(
        &self, key: &KeyId, algorithm: Alg, data: &D
    ) -> Result<Signature<Alg>, SigningError<Self::Error>> {
        self.inner.sign(key, algorithm, data)
    }

    fn sign_one_off<Alg: SignatureAlgorithm, D: AsRef<[u8]> + ?Sized>(
        &self, algorithm: Alg, data: &D
    ) -> Result<(Signature<Alg>, PublicKey), Self::Error> {
        let idx = self.next.fetch_add(1, Ordering::Relaxed) % self.pool.len();
        let key = &self.pool[idx];
        let sig = self.inner.sign(key, algorithm, data).map_err(|err| {
            match err {
                SigningError::Signer(err) => err,
                _ => std::io::Error::other("pool key unusable")
            }
        })?;
        let info = self.inner.get_key_info(key).map_err(|err| match err {
            KeyError::Signer(err) => err,
            _ => std::io::Error::other("pool key missing")
        })?;
        Ok((sig, info))
    }

    fn rand(&self, target: &mut [u8]) -> Result<(), Self::Error> {
        self.inner.rand(target)
    }
}


//------------ Gen -----------------------------------------------------------

/// Keys and signer.
pub struct Gen {
    pub signer: PoolSigner,
    /// CA keys.
    pub keys: Vec<KeyId>,
    pub pubs: Vec<PublicKey>,
    /// Router (ECDSA P-256) public keys.
    pub ec_pubs: Vec<PublicKey>,
}

impl Gen {
    pub fn load() -> Self {
        let dir = std::env::var("VERIF_DIR").unwrap_or_else(|_| "/verif".into());
        let dir = Path::new(&dir).join("harness/keys");
        let inner = OpenSslSigner::new();
        let mut all = Vec::new();
        for i in 0..24 {
            let der = std::fs::read(dir.join(format!("rsa{i}.der")))
                .expect("key file (harness/keys)");
            all.push(inner.key_from_der(&der).expect("load RSA key"));
        }
        let pool: Vec<KeyId> = all[12..].to_vec();
        let keys: Vec<KeyId> = all[..12].to_vec();
        let pubs = keys.iter().map(|k| inner.get_key_info(k).unwrap()).collect();
        let mut ec_pubs = Vec::new();
        for i in 0..3 {
            let der = std::fs::read(dir.join(format!("ec{i}.pub.der"))).unwrap();
            ec_pubs.push(PublicKey::decode(Bytes::from(der)).expect("EC public key"));
        }
        Gen {
            signer: PoolSigner { inner, pool, next: AtomicUsize::new(0) },
            keys, pubs, ec_pubs
        }
    }
}


//------------ Specs ---------------------------------------------------------

#[derive(Clone, Copy, Debug, Eq, PartialEq, Ord, PartialOrd, Hash)]
pub enum Fault {
    BadSig, Overclaim, Revoked, Expired, NotYetValid, WrongCrlDp,
    HashMismatch, Missing, NotListed, Undecodable,
}

pub const OBJ_FAULTS: [Fault; 10] = [
    Fault::BadSig, Fault::Overclaim, Fault::Revoked, Fault::Expired,
    Fault::NotYetValid, Fault::WrongCrlDp, Fault::HashMismatch,
    Fault::Missing, Fault::NotListed, Fault::Undecodable,
];

#[derive(Clone, Copy, Debug, Eq, PartialEq, Ord, PartialOrd, Hash)]
pub enum PointFault {
    MftBadSig, MftExpiredEe, MftStale, MftPremature, CrlStale, CrlMissing,
    CrlBadSig, CrlWrongHash, NoManifest, MftUndecodable, CrlNotListed,
    /// The manifest's EE certificate is revoked by the point's own CRL.
    MftEeRevoked,
}

pub const POINT_FAULTS: [PointFault; 12] = [
    PointFault::MftBadSig, PointFault::MftExpiredEe, PointFault::MftStale,
    PointFault::MftPremature, PointFault::CrlStale, PointFault::CrlMissing,
    PointFault::CrlBadSig, PointFault::CrlWrongHash, PointFault::NoManifest,
    PointFault::MftUndecodable, PointFault::CrlNotListed,
    PointFault::MftEeRevoked,
];

#[derive(Clone, Copy, Debug, Eq, PartialEq)]
pub enum Truth { Must, MustNot, DontCare }

#[derive(Clone, Debug)]
pub enum ObjKind {
    /// (asn, prefixes as (addr, len, max-len))
    Roa(u32, Vec<(IpAddr, u8, u8)>),
    /// (customer, providers)
    Aspa(u32, Vec<u32>),
    /// (asn, EC key index)
    Router(u32, usize),
    /// A router certificate for several AS numbers (one key per number).
    RouterMulti(Vec<u32>, usize),
}

#[derive(Clone, Debug)]
pub struct ObjSpec {
    pub name: String,
    pub kind: ObjKind,
    pub fault: Option<Fault>,
    /// EE notAfter offset in seconds from now (default one year).
    pub not_after: Option<i64>,
}

impl ObjSpec {
    pub fn roa(name: &str, asn: u32, addr: &str, len: u8, max: u8) -> Self {
        ObjSpec {
            name: name.into(),
            kind: ObjKind::Roa(asn, vec![(addr.parse().unwrap(), len, max)]),
            fault: None, not_after: None,
        }
    }
    pub fn aspa(name: &str, customer: u32, providers: &[u32]) -> Self {
        ObjSpec {
            name: name.into(), kind: ObjKind::Aspa(customer, providers.to_vec()),
            fault: None, not_after: None,
        }
    }
    pub fn router(name: &str, asn: u32, key: usize) -> Self {
        ObjSpec {
            name: name.into(), kind: ObjKind::Router(asn, key),
            fault: None, not_after: None,
        }
    }
    pub fn file_name(&self) -> String {
        match self.kind {
            ObjKind::Roa(..) => format!("{}.roa", self.name),
            ObjKind::Aspa(..) => format!("{}.asa", self.name),
            ObjKind::Router(..) | ObjKind::RouterMulti(..) => format!("{}.cer", self.name),
        }
    }
}

#[derive(Clone, Debug)]
pub struct CaSpec {
    /// Serial numbers this CA's CRL revokes besides those of its own
    /// faulty objects (e.g. certificates of an earlier version).
    pub extra_revoked: Vec<u64>,
    pub name: String,
    /// Index of the CA key.
    pub key: usize,
    /// rsync host/module/dir/ of the publication point.
    pub host: String,
    pub module: String,
    pub dir: String,
    pub rpki_notify: Option<String>,
    pub v4: Vec<(Ipv4Addr, u8)>,
    pub v6: Vec<(Ipv6Addr, u8)>,
    pub asns: Vec<(u32, u32)>,
    /// Fault of the CA certificate as an object of its parent's point.
    pub cert_fault: Option<Fault>,
    pub point_fault: Option<PointFault>,
    pub objs: Vec<ObjSpec>,
    pub children: Vec<CaSpec>,
    /// Offsets in seconds relative to now.
    pub cert_not_after: i64,
    pub mft_number: u64,
    /// Where the manifest (and CRL) numbers live: 0 = as given, 1 = moved
    /// up by 2^64 - 2 (so that 1, 2, 3 straddle the 64-bit boundary), 2 =
    /// moved up by 2^136 (numbers of 18 octets; 20 are allowed).
    pub mft_number_base: u8,
    pub mft_this_update: i64,
    pub mft_next_update: i64,
    pub mft_ee_not_after: i64,
    pub crl_next_update: i64,
    /// Only issue the certificate, do not build a publication point (the
    /// certificate points at a point built elsewhere).
    pub skip_point: bool,
}

/// The manifest number `n` moved to the given base (see `CaSpec::mft_number_base`).
pub fn big_number(n: u64, base: u8) -> Serial {
    let mut bytes = [0u8; 20];
    match base {
        0 => bytes[12..].copy_from_slice(&n.to_be_bytes()),
        1 => {
            let v = (u64::MAX as u128 - 1) + n as u128;
            bytes[4..].copy_from_slice(&v.to_be_bytes());
        }
        _ => { bytes[2] = 1; bytes[12..].copy_from_slice(&n.to_be_bytes()); }
    }
    Serial::from_array(bytes).expect("manifest number")
}

pub const YEAR: i64 = 365 * 86400;
pub const DAY: i64 = 86400;

impl CaSpec {
    pub fn new(name: &str, key: usize, host: &str, module: &str) -> Self {
        CaSpec {
            name: name.into(), key,
            host: host.into(), module: module.into(), dir: format!("{name}/"),
            rpki_notify: None,
            v4: Vec::new(), v6: Vec::new(), asns: Vec::new(),
            cert_fault: None, point_fault: None,
            objs: Vec::new(), children: Vec::new(),
            cert_not_after: YEAR,
            extra_revoked: Vec::new(),
            mft_number: 1, mft_number_base: 0, mft_this_update: -3600, mft_next_update: DAY,
            mft_ee_not_after: 7 * DAY, crl_next_update: DAY,
            skip_point: false,
        }
    }

    pub fn repo_uri(&self) -> String {
        format!("rsync://{}/{}/{}", self.host, self.module, self.dir)
    }

    pub fn mft_uri(&self) -> String { format!("{}{}.mft", self.repo_uri(), self.name) }
    pub fn crl_uri(&self) -> String { format!("{}{}.crl", self.repo_uri(), self.name) }

    pub fn visit<'a>(&'a self, f: &mut impl FnMut(&'a CaSpec)) {
        f(self);
        for c in &self.children { c.visit(f) }
    }

    pub fn visit_mut(&mut self, f: &mut impl FnMut(&mut CaSpec)) {
        f(self);
        for c in &mut self.children { c.visit_mut(f) }
    }

    pub fn find_mut(&mut self, name: &str) -> Option<&mut CaSpec> {
        if self.name == name { return Some(self) }
        for c in &mut self.children {
            if let Some(x) = c.find_mut(name) { return Some(x) }
        }
        None
    }
}

#[derive(Clone, Debug)]
pub struct TalSpec {
    pub name: String,
    pub ca: CaSpec,
    /// Use another key in the TAL than the TA certificate's.
    pub wrong_key: bool,
    /// TA certificate location (rsync).
    pub ta_uri: String,
    /// Additional https URI for the TA certificate.
    pub https_uri: Option<String>,
}

#[derive(Clone, Debug)]
pub struct TreeSpec {
    pub tals: Vec<TalSpec>,
}

#[derive(Clone, Debug)]
pub struct TruthItem {
    pub payload: Payload,
    pub truth: Truth,
    pub ca: String,
    pub obj: String,
}

/// The generated bytes.
#[derive(Clone, Debug, Default)]
pub struct Image {
    /// rsync URI -> content
    pub files: BTreeMap<String, Vec<u8>>,
    /// (TAL name, TAL file content)
    pub tals: Vec<(String, String)>,
    /// TA certificates by TAL name
    pub ta_certs: BTreeMap<String, Vec<u8>>,
    pub truth: Vec<TruthItem>,
    /// Everything needed to know about each CA for oracles.
    pub cas: Vec<CaInfo>,
    /// serial number of the EE certificate of each object: "ca/object" -> serial
    pub ee_serials: BTreeMap<String, u64>,
}

#[derive(Clone, Debug)]
pub struct CaInfo {
    pub name: String,
    pub mft_uri: String,
    pub repo_uri: String,
    pub rpki_notify: Option<String>,
    /// The chain of CA names from the TA down to this CA.
    pub chain: Vec<String>,
    /// The file names listed on the manifest (with content as listed).
    pub listed: BTreeMap<String, Vec<u8>>,
    pub manifest: Vec<u8>,
    pub crl: Vec<u8>,
    /// Earliest of all times that bound the data of this CA's chain
    /// (seconds relative to generation time): for C39.
    pub v4: Vec<(Ipv4Addr, u8)>,
    pub v6: Vec<(Ipv6Addr, u8)>,
}

#[derive(Clone, Copy, Debug, Eq, PartialEq)]
pub enum Stale { Reject, Warn, Accept }


//------------ Building ------------------------------------------------------

fn t(now: Time, off: i64) -> Time {
    now + TimeDelta::try_seconds(off).unwrap()
}

fn rsync(s: &str) -> uri::Rsync {
    uri::Rsync::from_str(s).unwrap_or_else(|e| panic!("bad rsync uri {s}: {e}"))
}

fn flip_last(bytes: &mut [u8]) {
    let n = bytes.len();
    bytes[n - 1] ^= 0x55;
}

fn sha256(data: &[u8]) -> Vec<u8> {
    DigestAlgorithm::sha256().digest(data).as_ref().to_vec()
}

struct Issuer<'a> {
    key: &'a KeyId,
    pubkey: &'a PublicKey,
    /// URI of the issuer's certificate (caIssuers).
    cert_uri: String,
    crl_uri: String,
}

pub struct Builder<'a> {
    pub gen: &'a Gen,
    pub now: Time,
    pub stale: Stale,
    pub image: Image,
    serial: u64,
}

impl<'a> Builder<'a> {
    pub fn new(gen: &'a Gen, stale: Stale) -> Self {
        Builder { gen, now: Time::now(), stale, image: Image::default(), serial: 100 }
    }

    pub fn at(gen: &'a Gen, stale: Stale, now: Time) -> Self {
        Builder { gen, now, stale, image: Image::default(), serial: 100 }
    }

    fn next_serial(&mut self) -> u64 { self.serial += 1; self.serial }

    /// Moves the serial numbers of everything built from now on.
    pub fn skip_serials(&mut self, n: u64) { self.serial += n; }

    pub fn build(mut self, spec: &TreeSpec) -> Image {
        for tal in &spec.tals {
            self.build_tal(tal);
        }
        self.image
    }

    fn ca_cert(
        &mut self, ca: &CaSpec, issuer: Option<&Issuer>, serial: u64,
        cert_uri: &str,
    ) -> Vec<u8> {
        let pubkey = self.gen.pubs[ca.key].clone();
        let (nb, na) = match ca.cert_fault {
            Some(Fault::Expired) => (-2 * DAY, -DAY),
            Some(Fault::NotYetValid) => (DAY, 2 * DAY),
            _ => (-DAY, ca.cert_not_after)
        };
        let issuer_name = match issuer {
            Some(i) => i.pubkey.to_subject_name(),
            None => pubkey.to_subject_name()
        };
        let mut cert = TbsCert::new(
            Serial::from(serial), issuer_name,
            Validity::new(t(self.now, nb), t(self.now, na)),
            None, pubkey, KeyUsage::Ca, Overclaim::Refuse,
        );
        cert.set_basic_ca(Some(true));
        cert.set_ca_repository(Some(rsync(&ca.repo_uri())));
        cert.set_rpki_manifest(Some(rsync(&ca.mft_uri())));
        if let Some(n) = ca.rpki_notify.as_ref() {
            cert.set_rpki_notify(Some(uri::Https::from_str(n).unwrap()));
        }
        if let Some(i) = issuer {
            cert.set_authority_key_identifier(Some(i.pubkey.key_identifier()));
            cert.set_ca_issuer(Some(rsync(&i.cert_uri)));
            let crl = if ca.cert_fault == Some(Fault::WrongCrlDp) {
                format!("{}.other.crl", i.crl_uri.trim_end_matches(".crl"))
            } else { i.crl_uri.clone() };
            cert.set_crl_uri(Some(rsync(&crl)));
        }
        let _ = cert_uri;
        let mut v4 = ca.v4.clone();
        if ca.cert_fault == Some(Fault::Overclaim) {
            v4.push((Ipv4Addr::new(198, 51, 100, 0), 24));
        }
        cert.build_v4_resource_blocks(|b| {
            for (a, l) in &v4 { b.push(ResPrefix::new(*a, *l)); }
        });
        cert.build_v6_resource_blocks(|b| {
            for (a, l) in &ca.v6 { b.push(ResPrefix::new(*a, *l)); }
        });
        cert.build_as_resource_blocks(|b| {
            for (lo, hi) in &ca.asns { b.push((Asn::from_u32(*lo), Asn::from_u32(*hi))); }
        });
        let key = match issuer { Some(i) => i.key, None => &self.gen.keys[ca.key] };
        let cert = cert.into_cert(&self.gen.signer, key).expect("sign CA cert");
        let mut bytes = cert.to_captured().into_bytes().to_vec();
        match ca.cert_fault {
            Some(Fault::BadSig) => flip_last(&mut bytes),
            Some(Fault::Undecodable) => bytes = b"this is not a certificate".to_vec(),
            _ => { }
        }
        bytes
    }

    fn build_tal(&mut self, tal: &TalSpec) {
        let serial = self.next_serial();
        let cert = self.ca_cert(&tal.ca, None, serial, &tal.ta_uri);
        self.image.files.insert(tal.ta_uri.clone(), cert.clone());
        self.image.ta_certs.insert(tal.name.clone(), cert);
        let key_idx = if tal.wrong_key { (tal.ca.key + 1) % self.gen.pubs.len() } else { tal.ca.key };
        let spki = self.gen.pubs[key_idx].to_info_bytes();
        let mut text = String::new();
        if let Some(h) = tal.https_uri.as_ref() { text.push_str(h); text.push('\n'); }
        text.push_str(&tal.ta_uri);
        text.push_str("\n\n");
        let b64 = base64::Engine::encode(&base64::engine::general_purpose::STANDARD, spki.as_ref());
        for chunk in b64.as_bytes().chunks(64) {
            text.push_str(std::str::from_utf8(chunk).unwrap());
            text.push('\n');
        }
        self.image.tals.push((tal.name.clone(), text));
        // Everything under a TAL with a wrong key must not be served.
        let dead = tal.wrong_key
            || matches!(tal.ca.cert_fault, Some(Fault::Expired) | Some(Fault::NotYetValid)
                | Some(Fault::BadSig) | Some(Fault::Undecodable));
        self.build_ca(&tal.ca, &tal.ta_uri, dead, false, &mut Vec::new());
    }

    /// Builds the publication point of `ca`. `dead`: nothing below may be
    /// served; `dontcare`: treatment not fixed by the property.
    fn build_ca(
        &mut self, ca: &CaSpec, cert_uri: &str, dead: bool, dontcare: bool,
        chain: &mut Vec<String>,
    ) {
        chain.push(ca.name.clone());
        let key = &self.gen.keys[ca.key];
        let pubkey = &self.gen.pubs[ca.key];
        let repo = ca.repo_uri();
        let crl_uri = ca.crl_uri();
        let issuer = Issuer { key, pubkey, cert_uri: cert_uri.into(), crl_uri: crl_uri.clone() };

        let point_dead = match ca.point_fault {
            None => false,
            Some(PointFault::MftStale) | Some(PointFault::CrlStale) => {
                self.stale == Stale::Reject
            }
            Some(_) => true
        };
        let dead = dead || point_dead;

        // name -> (published content or None if withheld, listed hash)
        let mut listed: BTreeMap<String, Vec<u8>> = BTreeMap::new();
        let mut published: BTreeMap<String, Vec<u8>> = BTreeMap::new();
        let mut revoked: Vec<u64> = Vec::new();
        // Does any listed file go missing or mismatch? Then the whole
        // point is abandoned on the fetch path.
        let abandons = ca.objs.iter().any(|o| {
            matches!(o.fault, Some(Fault::HashMismatch) | Some(Fault::Missing))
        }) || ca.children.iter().any(|c| {
            matches!(c.cert_fault, Some(Fault::HashMismatch) | Some(Fault::Missing))
        });

        // --- objects
        let mut truths = Vec::new();
        for (oi, obj) in ca.objs.iter().enumerate() {
            let serial = self.next_serial();
            self.image.ee_serials.insert(format!("{}/{}", ca.name, obj.name), serial);
            let file = obj.file_name();
            let obj_uri = format!("{repo}{file}");
            let (nb, na) = match obj.fault {
                Some(Fault::Expired) => (-2 * DAY, -DAY),
                Some(Fault::NotYetValid) => (DAY, 2 * DAY),
                _ => (-DAY, obj.not_after.unwrap_or(YEAR))
            };
            let validity = Validity::new(t(self.now, nb), t(self.now, na));
            let ee_crl = if obj.fault == Some(Fault::WrongCrlDp) {
                format!("{repo}other.crl")
            } else { crl_uri.clone() };
            let sigobj = || SignedObjectBuilder::new(
                Serial::from(serial), validity, rsync(&ee_crl),
                rsync(cert_uri), rsync(&obj_uri)
            );
            let (mut bytes, payloads): (Vec<u8>, Vec<Payload>) = match &obj.kind {
                ObjKind::Roa(asn, prefixes) => {
                    let mut roa = RoaBuilder::new(Asn::from_u32(*asn));
                    let mut payloads = Vec::new();
                    for (i, (addr, len, max)) in prefixes.iter().enumerate() {
                        let (addr, len, max) = if obj.fault == Some(Fault::Overclaim) {
                            // outside every CA's resources
                            (IpAddr::V4(Ipv4Addr::new(198, 51, 100, (oi * 16 + i) as u8)), 32, 32)
                        } else { (*addr, *len, *max) };
                        match addr {
                            IpAddr::V4(a) => roa.push_v4_addr(a, len, Some(max)),
                            IpAddr::V6(a) => roa.push_v6_addr(a, len, Some(max)),
                        }
                        payloads.push(Payload::Origin(match addr {
                            IpAddr::V4(a) => { let o = a.octets(); data::v4(o[0], o[1], o[2], o[3], len, max, *asn) }
                            IpAddr::V6(a) => data::v6(a, len, max, *asn),
                        }));
                    }
                    let roa = roa.finalize(sigobj(), &self.gen.signer, key).expect("sign ROA");
                    let der = roa.encode_ref().to_captured(Mode::Der).into_bytes().to_vec();
                    (der, payloads)
                }
                ObjKind::Aspa(customer, providers) => {
                    let customer = if obj.fault == Some(Fault::Overclaim) { 4_200_000_000 + oi as u32 } else { *customer };
                    let mut aspa = AspaBuilder::empty(Asn::from_u32(customer));
                    for p in providers { aspa.add_provider(Asn::from_u32(*p)).unwrap(); }
                    let aspa = aspa.finalize(sigobj(), &self.gen.signer, key).expect("sign ASPA");
                    let mut ps = providers.clone(); ps.sort(); ps.dedup();
                    let der = aspa.encode_ref().to_captured(Mode::Der).into_bytes().to_vec();
                    (der, vec![Payload::Aspa(data::aspa(customer, &ps))])
                }
                ObjKind::Router(..) | ObjKind::RouterMulti(..) => {
                    let (asns, ec): (Vec<u32>, &usize) = match &obj.kind {
                        ObjKind::Router(asn, ec) => (vec![*asn], ec),
                        ObjKind::RouterMulti(asns, ec) => (asns.clone(), ec),
                        _ => unreachable!()
                    };
                    let asns: Vec<u32> = if obj.fault == Some(Fault::Overclaim) { vec![4_200_000_000 + oi as u32] } else { asns };
                    let ec_pub = self.gen.ec_pubs[*ec].clone();
                    let mut cert = TbsCert::new(
                        Serial::from(serial), pubkey.to_subject_name(), validity,
                        None, ec_pub.clone(), KeyUsage::Ee, Overclaim::Refuse,
                    );
                    cert.set_authority_key_identifier(Some(pubkey.key_identifier()));
                    cert.set_ca_issuer(Some(rsync(cert_uri)));
                    cert.set_crl_uri(Some(rsync(&ee_crl)));
                    cert.set_extended_key_usage(Some(ExtendedKeyUsage::create_router()));
                    cert.build_as_resource_blocks(|b| for asn in &asns { b.push(Asn::from_u32(*asn)) });
                    let cert = cert.into_cert(&self.gen.signer, key).expect("sign router cert");
                    let payload = asns.iter().map(|asn| Payload::RouterKey(rpki::rtr::payload::RouterKey::new(
                        ec_pub.key_identifier(), Asn::from_u32(*asn),
                        rpki::rtr::pdu::RouterKeyInfo::new(ec_pub.to_info_bytes()).unwrap(),
                    ))).collect();
                    (cert.to_captured().into_bytes().to_vec(), payload)
                }
            };
            match obj.fault {
                Some(Fault::BadSig) => flip_last(&mut bytes),
                Some(Fault::Undecodable) => bytes = b"garbage, not DER".to_vec(),
                Some(Fault::Revoked) => revoked.push(serial),
                _ => { }
            }
            // listing and publication
            match obj.fault {
                Some(Fault::NotListed) => { published.insert(file.clone(), bytes.clone()); }
                Some(Fault::Missing) => { listed.insert(file.clone(), bytes.clone()); }
                Some(Fault::HashMismatch) => {
                    listed.insert(file.clone(), bytes.clone());
                    let mut other = bytes.clone();
                    let mid = other.len() / 2;
                    other[mid] ^= 0xff;
                    published.insert(file.clone(), other);
                }
                _ => {
                    listed.insert(file.clone(), bytes.clone());
                    published.insert(file.clone(), bytes.clone());
                }
            }
            let truth = if dead { Truth::MustNot }
                else if obj.fault == Some(Fault::WrongCrlDp) { Truth::DontCare }
                else if obj.fault.is_some() { Truth::MustNot }
                else if dontcare || abandons { Truth::DontCare }
                else { Truth::Must };
            for p in payloads {
                truths.push(TruthItem { payload: p, truth, ca: ca.name.clone(), obj: obj.name.clone() });
            }
        }
        self.image.truth.extend(truths);

        // --- child CA certificates
        let mut child_info = Vec::new();
        for child in &ca.children {
            let serial = self.next_serial();
            let file = format!("{}.cer", child.name);
            let child_cert_uri = format!("{repo}{file}");
            let bytes = self.ca_cert(child, Some(&issuer), serial, &child_cert_uri);
            if child.cert_fault == Some(Fault::Revoked) { revoked.push(serial); }
            match child.cert_fault {
                Some(Fault::NotListed) => { published.insert(file.clone(), bytes.clone()); }
                Some(Fault::Missing) => { listed.insert(file.clone(), bytes.clone()); }
                Some(Fault::HashMismatch) => {
                    listed.insert(file.clone(), bytes.clone());
                    let mut other = bytes.clone();
                    let mid = other.len() / 2;
                    other[mid] ^= 0xff;
                    published.insert(file.clone(), other);
                }
                _ => {
                    listed.insert(file.clone(), bytes.clone());
                    published.insert(file.clone(), bytes.clone());
                }
            }
            let child_dead = dead || match child.cert_fault {
                None => false,
                Some(Fault::WrongCrlDp) => false,
                Some(_) => true,
            };
            let child_dc = dontcare || (abandons && child.cert_fault.is_none())
                || child.cert_fault == Some(Fault::WrongCrlDp);
            child_info.push((child, child_cert_uri, child_dead, child_dc));
        }

        // --- CRL
        let mft_serial = self.next_serial();
        if ca.point_fault == Some(PointFault::MftEeRevoked) { revoked.push(mft_serial); }
        revoked.extend(ca.extra_revoked.iter().copied());
        let crl_file = format!("{}.crl", ca.name);
        let crl_next = if ca.point_fault == Some(PointFault::CrlStale) { -3600 } else { ca.crl_next_update };
        let crl = TbsCertList::new(
            Default::default(), pubkey.to_subject_name(),
            t(self.now, -2 * 3600), t(self.now, crl_next),
            revoked.iter().map(|s| CrlEntry::new(Serial::from(*s), t(self.now, -3600))).collect::<Vec<_>>(),
            pubkey.key_identifier(), big_number(ca.mft_number, ca.mft_number_base),
        );
        let mut crl_bytes = crl.into_crl(&self.gen.signer, key).expect("sign CRL")
            .to_captured().into_bytes().to_vec();
        if ca.point_fault == Some(PointFault::CrlBadSig) { flip_last(&mut crl_bytes); }
        match ca.point_fault {
            Some(PointFault::CrlMissing) => { listed.insert(crl_file.clone(), crl_bytes.clone()); }
            Some(PointFault::CrlNotListed) => { published.insert(crl_file.clone(), crl_bytes.clone()); }
            Some(PointFault::CrlWrongHash) => {
                listed.insert(crl_file.clone(), crl_bytes.clone());
                let mut other = crl_bytes.clone();
                let mid = other.len() / 2;
                other[mid] ^= 0xff;
                published.insert(crl_file.clone(), other);
            }
            _ => {
                listed.insert(crl_file.clone(), crl_bytes.clone());
                published.insert(crl_file.clone(), crl_bytes.clone());
            }
        }

        // --- manifest
        let (this_up, next_up) = match ca.point_fault {
            Some(PointFault::MftStale) => (-2 * DAY, -3600),
            Some(PointFault::MftPremature) => (3600, DAY),
            _ => (ca.mft_this_update, ca.mft_next_update)
        };
        let (ee_nb, ee_na) = match ca.point_fault {
            Some(PointFault::MftExpiredEe) => (-2 * DAY, -3600),
            Some(PointFault::MftStale) => (-3 * DAY, ca.mft_ee_not_after),
            _ => (-DAY, ca.mft_ee_not_after)
        };
        let entries: Vec<FileAndHash<Bytes, Bytes>> = listed.iter().map(|(name, content)| {
            FileAndHash::new(Bytes::from(name.clone().into_bytes()), Bytes::from(sha256(content)))
        }).collect();
        let content = ManifestContent::new(
            big_number(ca.mft_number, ca.mft_number_base), t(self.now, this_up), t(self.now, next_up),
            DigestAlgorithm::default(), entries.iter()
        );
        let mft = content.into_manifest(
            SignedObjectBuilder::new(
                Serial::from(mft_serial),
                Validity::new(t(self.now, ee_nb), t(self.now, ee_na)),
                rsync(&crl_uri), rsync(cert_uri), rsync(&ca.mft_uri())
            ),
            &self.gen.signer, key
        ).expect("sign manifest");
        let mut mft_bytes = mft.encode_ref().to_captured(Mode::Der).into_bytes().to_vec();
        match ca.point_fault {
            Some(PointFault::MftBadSig) => flip_last(&mut mft_bytes),
            Some(PointFault::MftUndecodable) => mft_bytes = b"not a manifest".to_vec(),
            _ => { }
        }
        if ca.point_fault != Some(PointFault::NoManifest) {
            published.insert(format!("{}.mft", ca.name), mft_bytes.clone());
        }

        for (name, content) in &published {
            self.image.files.insert(format!("{repo}{name}"), content.clone());
        }
        self.image.cas.push(CaInfo {
            name: ca.name.clone(), mft_uri: ca.mft_uri(), repo_uri: repo.clone(),
            rpki_notify: ca.rpki_notify.clone(), chain: chain.clone(),
            listed, manifest: mft_bytes, crl: crl_bytes,
            v4: ca.v4.clone(), v6: ca.v6.clone(),
        });

        for (child, uri, child_dead, child_dc) in child_info {
            if child.skip_point { continue }
            self.build_ca(child, &uri, child_dead, child_dc, chain);
        }
        chain.pop();
    }
}


//------------ Standard trees ------------------------------------------------

/// Two TALs; under the first: TA -> CA -> grandchild, each with payload.
pub fn base_tree() -> TreeSpec {
    let mut ta = CaSpec::new("ta0", 0, "ta0.example", "repo");
    ta.v4 = vec![(Ipv4Addr::new(10, 0, 0, 0), 8)];
    ta.v6 = vec![("2001:db8::".parse().unwrap(), 32)];
    ta.asns = vec![(64496, 64511)];
    ta.objs = vec![
        ObjSpec::roa("r0a", 64496, "10.0.0.0", 16, 16),
        ObjSpec::roa("r0b", 64497, "2001:db8::", 32, 48),
    ];
    let mut ca = CaSpec::new("ca1", 1, "ca1.example", "repo");
    ca.v4 = vec![(Ipv4Addr::new(10, 1, 0, 0), 16)];
    ca.v6 = vec![("2001:db8:1::".parse().unwrap(), 48)];
    ca.asns = vec![(64500, 64505)];
    ca.objs = vec![
        ObjSpec::roa("r1a", 64500, "10.1.0.0", 16, 24),
        ObjSpec::roa("r1b", 64501, "10.1.1.0", 24, 24),
        ObjSpec::aspa("a1", 64500, &[64501, 64502]),
        ObjSpec::router("k1", 64500, 0),
    ];
    let mut gc = CaSpec::new("gc2", 2, "ca1.example", "repo");
    gc.v4 = vec![(Ipv4Addr::new(10, 1, 128, 0), 17)];
    gc.asns = vec![(64505, 64505)];
    gc.objs = vec![
        ObjSpec::roa("r2a", 64505, "10.1.128.0", 17, 20),
        ObjSpec::roa("r2b", 64505, "10.1.200.0", 24, 24),
        ObjSpec::aspa("a2", 64505, &[64500]),
    ];
    ca.children.push(gc);
    ta.children.push(ca);
    let mut tb = CaSpec::new("tb0", 3, "tb0.example", "repo");
    tb.v4 = vec![(Ipv4Addr::new(192, 0, 2, 0), 24)];
    tb.asns = vec![(65000, 65010)];
    tb.objs = vec![
        ObjSpec::roa("r3a", 65000, "192.0.2.0", 24, 24),
        ObjSpec::router("k3", 65001, 1),
    ];
    TreeSpec { tals: vec![
        TalSpec { name: "alpha".into(), ta_uri: "rsync://ta0.example/repo/ta0.cer".into(),
                  ca: ta, wrong_key: false, https_uri: None },
        TalSpec { name: "beta".into(), ta_uri: "rsync://tb0.example/repo/tb0.cer".into(),
                  ca: tb, wrong_key: false, https_uri: None },
    ]}
}
