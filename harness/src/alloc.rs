//! A global allocator that records the largest single request per thread.
//!
//! Used by C27: reading a corrupted local file must not make the code ask
//! for memory far beyond the file's size. Requests are passed on to the
//! system allocator unchanged.

use std::alloc::{GlobalAlloc, Layout, System};
use std::cell::Cell;

pub struct Tracking;

thread_local! {
    static MAX: Cell<usize> = const { Cell::new(0) };
}

#[inline]
fn note(size: usize) {
    // `try_with`: the thread may be shutting down.
    let _ = MAX.try_with(|m| if size > m.get() { m.set(size) });
}

unsafe impl GlobalAlloc for Tracking {
    unsafe fn alloc(&self, layout: Layout) -> *mut u8 {
        note(layout.size());
        System.alloc(layout)
    }
    unsafe fn dealloc(&self, ptr: *mut u8, layout: Layout) {
        System.dealloc(ptr, layout)
    }
    unsafe fn alloc_zeroed(&self, layout: Layout) -> *mut u8 {
        note(layout.size());
        System.alloc_zeroed(layout)
    }
    unsafe fn realloc(&self, ptr: *mut u8, layout: Layout, new_size: usize) -> *mut u8 {
        note(new_size);
        System.realloc(ptr, layout, new_size)
    }
}

/// Resets the calling thread's high-water mark.
pub fn reset() { let _ = MAX.try_with(|m| m.set(0)); }

/// The largest single request of the calling thread since the last reset.
pub fn max() -> usize { MAX.try_with(|m| m.get()).unwrap_or(0) }
