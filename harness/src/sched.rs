//! E-SCHED: a controlled scheduler for real threads (CHESS style).
//!
//! Every execution runs fresh OS threads over fresh real objects. Exactly
//! one controlled thread runs at a time. At every hooked synchronisation
//! operation (lock acquire of `utils::sync` locks and the history lock,
//! explicit `verif::point`s) the running thread parks and the scheduler
//! picks the next thread among the enabled ones. The scheduler keeps its
//! own lock table, so a thread that is granted an acquire never blocks in
//! the real lock. The explorer enumerates all schedules up to a preemption
//! bound by stateless depth-first search over choice prefixes.

#![allow(dead_code)]

use std::cell::RefCell;
use std::collections::{BTreeMap, HashMap};
use std::panic::{self, AssertUnwindSafe};
use std::sync::atomic::{AtomicU64, Ordering};
use std::sync::{Arc, Condvar, Mutex};
use std::thread::JoinHandle;
use routinator::verif::LockMode;
use serde_json::{json, Value};
use crate::hooks::{hooks, SchedHooks};

type Cond = Arc<dyn Fn() -> bool + Send + Sync>;

#[derive(Clone)]
enum Pending {
    Start,
    Point(&'static str),
    Acquire(usize, LockMode),
    /// Blocked until the condition holds (a modelled blocking wait).
    Block(&'static str, Cond),
}

#[derive(Clone, Copy, Debug, Eq, PartialEq)]
enum Status { Waiting, Running, Finished }

struct ThreadState {
    name: String,
    status: Status,
    pending: Pending,
    panic: Option<String>,
}

#[derive(Default)]
struct LockState { writer: Option<usize>, readers: Vec<usize> }

#[derive(Clone, Debug)]
pub struct PointRec {
    /// Number of enabled threads at this point.
    pub enabled: usize,
    /// Index into the canonical enabled list that was chosen.
    pub chosen: usize,
    /// Whether the thread that was running is still enabled (choosing
    /// another one is a preemption).
    pub cur_enabled: bool,
    /// `thread:operation` of the chosen thread.
    pub label: String,
}

struct Inner {
    threads: Vec<ThreadState>,
    current: Option<usize>,
    locks: HashMap<usize, LockState>,
    lock_ord: HashMap<usize, usize>,
    prefix: Vec<usize>,
    points: Vec<PointRec>,
    steps: u64,
    max_steps: u64,
    abort: Option<String>,
    started: bool,
    log: Vec<String>,
}

pub struct Sched {
    inner: Mutex<Inner>,
    cond: Condvar,
    handles: Mutex<Vec<JoinHandle<()>>>,
}

struct AbortToken;

thread_local! {
    static CUR: RefCell<Option<(Arc<Sched>, usize)>> = const { RefCell::new(None) };
}

fn cur() -> Option<(Arc<Sched>, usize)> {
    CUR.with(|c| c.borrow().clone())
}

/// The process-wide dispatcher installed into the hook handler.
struct Dispatch;

impl SchedHooks for Dispatch {
    fn point(&self, label: &'static str) {
        if let Some((s, tid)) = cur() { s.yield_now(tid, Pending::Point(label)) }
    }
    fn acquire(&self, lock: usize, mode: LockMode) {
        if let Some((s, tid)) = cur() { s.yield_now(tid, Pending::Acquire(lock, mode)) }
    }
    fn release(&self, lock: usize, mode: LockMode) {
        if let Some((s, tid)) = cur() { s.release(tid, lock, mode) }
    }
}

pub fn install() {
    let h = hooks();
    let mut slot = h.sched.write().unwrap();
    if slot.is_none() {
        *slot = Some(Arc::new(Dispatch));
    }
}

/// An explicit scheduling point of harness code.
pub fn point(label: &'static str) {
    if let Some((s, tid)) = cur() { s.yield_now(tid, Pending::Point(label)) }
}

/// Blocks the calling controlled thread until `cond` holds.
pub fn block_until(label: &'static str, cond: impl Fn() -> bool + Send + Sync + 'static) {
    if let Some((s, tid)) = cur() {
        s.yield_now(tid, Pending::Block(label, Arc::new(cond)))
    }
}

/// Appends a line to the execution's observation log.
pub fn note(line: String) {
    if let Some((s, _)) = cur() {
        s.inner.lock().unwrap().log.push(line)
    }
}

impl Sched {
    pub fn new(prefix: Vec<usize>, max_steps: u64) -> Arc<Self> {
        Arc::new(Sched {
            inner: Mutex::new(Inner {
                threads: Vec::new(), current: None,
                locks: HashMap::new(), lock_ord: HashMap::new(),
                prefix, points: Vec::new(), steps: 0, max_steps,
                abort: None, started: false, log: Vec::new(),
            }),
            cond: Condvar::new(),
            handles: Mutex::new(Vec::new()),
        })
    }

    /// Registers and spawns a controlled thread. It starts running only
    /// when the scheduler picks it.
    pub fn spawn(self: &Arc<Self>, name: &str, f: impl FnOnce() + Send + 'static) {
        let tid = {
            let mut inner = self.inner.lock().unwrap();
            inner.threads.push(ThreadState {
                name: name.into(), status: Status::Waiting,
                pending: Pending::Start, panic: None,
            });
            inner.threads.len() - 1
        };
        let this = self.clone();
        let handle = std::thread::Builder::new().name(format!("sched-{name}"))
            .spawn(move || {
                CUR.with(|c| *c.borrow_mut() = Some((this.clone(), tid)));
                let res = panic::catch_unwind(AssertUnwindSafe(|| {
                    this.wait_turn(tid);
                    f()
                }));
                CUR.with(|c| *c.borrow_mut() = None);
                let msg = match res {
                    Ok(()) => None,
                    Err(err) => {
                        if err.is::<AbortToken>() { None }
                        else if let Some(s) = err.downcast_ref::<&str>() { Some(s.to_string()) }
                        else if let Some(s) = err.downcast_ref::<String>() { Some(s.clone()) }
                        else { Some("panic".into()) }
                    }
                };
                this.finish(tid, msg);
            }).expect("spawn controlled thread");
        self.handles.lock().unwrap().push(handle);
    }

    /// Runs the execution to completion and returns its trace.
    pub fn run(self: &Arc<Self>) -> Execution {
        {
            let mut inner = self.inner.lock().unwrap();
            inner.started = true;
            self.pick_next(&mut inner, None);
            self.cond.notify_all();
            while inner.abort.is_none()
                && inner.threads.iter().any(|t| t.status != Status::Finished)
            {
                inner = self.cond.wait(inner).unwrap();
            }
            if inner.abort.is_some() {
                self.cond.notify_all();
            }
        }
        let handles: Vec<_> = self.handles.lock().unwrap().drain(..).collect();
        for h in handles { let _ = h.join(); }
        let inner = self.inner.lock().unwrap();
        Execution {
            points: inner.points.clone(),
            abort: inner.abort.clone(),
            panics: inner.threads.iter().filter_map(|t| {
                t.panic.as_ref().map(|p| format!("{}: {}", t.name, p))
            }).collect(),
            log: inner.log.clone(),
            steps: inner.steps,
        }
    }

    fn is_enabled(inner: &Inner, tid: usize) -> bool {
        let t = &inner.threads[tid];
        if t.status != Status::Waiting { return false }
        match &t.pending {
            Pending::Start | Pending::Point(_) => true,
            Pending::Block(_, cond) => cond(),
            Pending::Acquire(lock, mode) => {
                match inner.locks.get(lock) {
                    None => true,
                    Some(l) => match mode {
                        LockMode::Read => l.writer.is_none(),
                        LockMode::Write | LockMode::Mutex => {
                            l.writer.is_none() && l.readers.is_empty()
                        }
                    }
                }
            }
        }
    }

    fn label(inner: &mut Inner, tid: usize) -> String {
        let op = match inner.threads[tid].pending.clone() {
            Pending::Start => "start".to_string(),
            Pending::Point(l) => l.to_string(),
            Pending::Block(l, _) => format!("unblock:{l}"),
            Pending::Acquire(lock, mode) => {
                let n = inner.lock_ord.len();
                let ord = *inner.lock_ord.entry(lock).or_insert(n);
                format!("{}:L{}", match mode {
                    LockMode::Read => "read", LockMode::Write => "write",
                    LockMode::Mutex => "lock"
                }, ord)
            }
        };
        format!("{}:{}", inner.threads[tid].name, op)
    }

    /// Picks the next thread to run. `yielder` is the thread giving up the
    /// processor (None at start or when it has finished).
    fn pick_next(&self, inner: &mut Inner, yielder: Option<usize>) {
        if inner.abort.is_some() { return }
        let mut enabled = Vec::new();
        let mut cur_enabled = false;
        if let Some(y) = yielder {
            if Self::is_enabled(inner, y) { enabled.push(y); cur_enabled = true; }
        }
        for tid in 0..inner.threads.len() {
            if Some(tid) != yielder && Self::is_enabled(inner, tid) { enabled.push(tid) }
        }
        if enabled.is_empty() {
            inner.current = None;
            if inner.threads.iter().any(|t| t.status != Status::Finished) {
                let blocked: Vec<String> = (0..inner.threads.len()).filter(|t| {
                    inner.threads[*t].status != Status::Finished
                }).collect::<Vec<_>>().into_iter().map(|t| Self::label(inner, t)).collect();
                inner.abort = Some(format!("deadlock: no enabled thread; blocked: {}", blocked.join(", ")));
            }
            return
        }
        let idx = inner.points.len();
        let chosen = if idx < inner.prefix.len() {
            let c = inner.prefix[idx];
            if c >= enabled.len() {
                inner.abort = Some(format!(
                    "divergence: replayed choice {c} at point {idx} but only {} threads enabled",
                    enabled.len()
                ));
                inner.current = None;
                return
            }
            c
        } else { 0 };
        let tid = enabled[chosen];
        let label = Self::label(inner, tid);
        inner.points.push(PointRec { enabled: enabled.len(), chosen, cur_enabled, label });
        // Grant.
        if let Pending::Acquire(lock, mode) = inner.threads[tid].pending.clone() {
            let l = inner.locks.entry(lock).or_default();
            match mode {
                LockMode::Read => l.readers.push(tid),
                LockMode::Write | LockMode::Mutex => l.writer = Some(tid),
            }
        }
        inner.threads[tid].status = Status::Running;
        inner.current = Some(tid);
    }

    fn wait_turn(&self, tid: usize) {
        let mut inner = self.inner.lock().unwrap();
        while inner.current != Some(tid) && inner.abort.is_none() {
            inner = self.cond.wait(inner).unwrap();
        }
        if inner.abort.is_some() && inner.current != Some(tid) {
            drop(inner);
            panic::resume_unwind(Box::new(AbortToken));
        }
    }

    fn yield_now(&self, tid: usize, pending: Pending) {
        if std::thread::panicking() { return }
        let mut inner = self.inner.lock().unwrap();
        if inner.abort.is_some() {
            drop(inner);
            panic::resume_unwind(Box::new(AbortToken));
        }
        inner.steps += 1;
        if inner.steps > inner.max_steps {
            inner.abort = Some(format!("horizon: more than {} scheduling steps", inner.max_steps));
            inner.current = None;
            self.cond.notify_all();
            drop(inner);
            panic::resume_unwind(Box::new(AbortToken));
        }
        inner.threads[tid].pending = pending;
        inner.threads[tid].status = Status::Waiting;
        self.pick_next(&mut inner, Some(tid));
        self.cond.notify_all();
        while inner.current != Some(tid) && inner.abort.is_none() {
            inner = self.cond.wait(inner).unwrap();
        }
        if inner.current != Some(tid) {
            drop(inner);
            panic::resume_unwind(Box::new(AbortToken));
        }
    }

    fn release(&self, tid: usize, lock: usize, mode: LockMode) {
        let mut inner = match self.inner.lock() { Ok(i) => i, Err(e) => e.into_inner() };
        if let Some(l) = inner.locks.get_mut(&lock) {
            match mode {
                LockMode::Read => {
                    if let Some(p) = l.readers.iter().position(|t| *t == tid) {
                        l.readers.swap_remove(p);
                    }
                }
                LockMode::Write | LockMode::Mutex => {
                    if l.writer == Some(tid) { l.writer = None }
                }
            }
        }
    }

    fn finish(&self, tid: usize, panic_msg: Option<String>) {
        let mut inner = match self.inner.lock() { Ok(i) => i, Err(e) => e.into_inner() };
        inner.threads[tid].status = Status::Finished;
        inner.threads[tid].panic = panic_msg;
        // Locks still held by a dead thread are released by its guards'
        // drop; make sure the table agrees.
        for l in inner.locks.values_mut() {
            if l.writer == Some(tid) { l.writer = None }
            l.readers.retain(|t| *t != tid);
        }
        if inner.current == Some(tid) || inner.current.is_none() {
            if inner.started && inner.abort.is_none() {
                self.pick_next(&mut inner, None);
            }
        }
        self.cond.notify_all();
    }
}

#[derive(Clone, Debug)]
pub struct Execution {
    pub points: Vec<PointRec>,
    pub abort: Option<String>,
    pub panics: Vec<String>,
    pub log: Vec<String>,
    pub steps: u64,
}

impl Execution {
    pub fn choices(&self) -> Vec<usize> { self.points.iter().map(|p| p.chosen).collect() }
    pub fn labels(&self) -> Vec<String> { self.points.iter().map(|p| p.label.clone()).collect() }
    pub fn preemptions(&self) -> usize {
        self.points.iter().filter(|p| p.cur_enabled && p.chosen != 0).count()
    }
    pub fn deadlock(&self) -> bool {
        self.abort.as_deref().map(|a| a.starts_with("deadlock")).unwrap_or(false)
    }
}

/// The verdict of one execution.
pub struct Verdict {
    /// Observation class (for the distinct-outcome statistics).
    pub outcome: String,
    /// `(fingerprint, message)` if the oracle failed.
    pub violation: Option<(String, String)>,
}

#[derive(Clone, Debug)]
pub struct Found {
    pub fingerprint: String,
    pub message: String,
    pub choices: Vec<usize>,
    pub labels: Vec<String>,
    pub preemptions: usize,
}

#[derive(Default)]
pub struct Stats {
    pub executions: u64,
    pub steps: u64,
    pub max_points: usize,
    pub outcomes: BTreeMap<String, u64>,
    pub found: Vec<Found>,
    pub capped: Option<String>,
    pub by_preemptions: BTreeMap<usize, u64>,
    pub sample: Option<Vec<String>>,
    pub machinery: Option<String>,
}

pub struct Config {
    pub bound: usize,
    pub max_steps: u64,
    pub max_execs: u64,
    pub workers: usize,
}

/// Explores all schedules of `body` with at most `bound` preemptions.
///
/// `body` receives a fresh scheduler, builds fresh objects, spawns the
/// controlled threads, calls `run()` and evaluates the oracle.
pub fn explore<B>(cfg: &Config, body: B) -> Stats
where B: Fn(&Arc<Sched>) -> (Execution, Verdict) + Sync {
    install();
    let stack: Mutex<Vec<Vec<usize>>> = Mutex::new(vec![Vec::new()]);
    let active = AtomicU64::new(0);
    let stats: Mutex<Stats> = Mutex::new(Stats::default());
    let execs = AtomicU64::new(0);
    std::thread::scope(|scope| {
        let workers = std::env::var("SCHED_WORKERS").ok().and_then(|s| s.parse().ok()).unwrap_or(cfg.workers);
        for _ in 0..workers.max(1) {
            scope.spawn(|| {
                loop {
                    let item = {
                        let mut st = stack.lock().unwrap();
                        match st.pop() {
                            Some(p) => { active.fetch_add(1, Ordering::SeqCst); Some(p) }
                            None => None
                        }
                    };
                    let prefix = match item {
                        Some(p) => p,
                        None => {
                            if active.load(Ordering::SeqCst) == 0 { break }
                            std::thread::sleep(std::time::Duration::from_micros(200));
                            continue
                        }
                    };
                    if execs.fetch_add(1, Ordering::SeqCst) >= cfg.max_execs {
                        let mut s = stats.lock().unwrap();
                        s.capped = Some(format!("execution cap {} reached", cfg.max_execs));
                        stack.lock().unwrap().clear();
                        active.fetch_sub(1, Ordering::SeqCst);
                        continue
                    }
                    let sched = Sched::new(prefix.clone(), cfg.max_steps);
                    let (exec, verdict) = body(&sched);
                    let choices = exec.choices();
                    // children
                    let mut children = Vec::new();
                    let mut pre = 0usize;
                    for i in 0..exec.points.len() {
                        let p = &exec.points[i];
                        if i >= prefix.len() {
                            let cost = pre + if p.cur_enabled { 1 } else { 0 };
                            if cost <= cfg.bound {
                                for alt in 1..p.enabled {
                                    let mut c = choices[..i].to_vec();
                                    c.push(alt);
                                    children.push(c);
                                }
                            }
                        }
                        if p.cur_enabled && p.chosen != 0 { pre += 1 }
                    }
                    {
                        let mut s = stats.lock().unwrap();
                        s.executions += 1;
                        s.steps += exec.points.len() as u64;
                        s.max_points = s.max_points.max(exec.points.len());
                        *s.outcomes.entry(verdict.outcome.clone()).or_insert(0) += 1;
                        *s.by_preemptions.entry(exec.preemptions()).or_insert(0) += 1;
                        if s.sample.is_none() && exec.preemptions() >= 1 {
                            s.sample = Some(exec.labels());
                        }
                        if let Some(a) = exec.abort.as_ref() {
                            if a.starts_with("divergence") {
                                s.machinery = Some(format!("{a} (prefix {prefix:?})"));
                            }
                        }
                        if let Some((fp, msg)) = verdict.violation {
                            s.found.push(Found {
                                fingerprint: fp, message: msg,
                                choices: choices.clone(), labels: exec.labels(),
                                preemptions: exec.preemptions(),
                            });
                        }
                    }
                    if !children.is_empty() {
                        stack.lock().unwrap().extend(children);
                    }
                    active.fetch_sub(1, Ordering::SeqCst);
                }
            });
        }
    });
    let mut stats = stats.into_inner().unwrap();
    // Minimal counterexamples first.
    stats.found.sort_by_key(|f| (f.preemptions, f.choices.len(), f.choices.clone()));
    stats
}

/// Replays one schedule; returns the execution and verdict.
pub fn replay<B>(choices: &[usize], max_steps: u64, body: B) -> (Execution, Verdict)
where B: Fn(&Arc<Sched>) -> (Execution, Verdict) {
    install();
    let sched = Sched::new(choices.to_vec(), max_steps);
    body(&sched)
}

/// Confirms a violation by replaying it twice; both replays must reproduce
/// the same labels and the same fingerprint.
pub fn confirm<B>(found: &Found, max_steps: u64, body: B) -> Result<(), String>
where B: Fn(&Arc<Sched>) -> (Execution, Verdict) {
    for round in 0..2 {
        let (exec, verdict) = replay(&found.choices, max_steps, &body);
        if exec.labels() != found.labels {
            return Err(format!("replay {round} diverged: labels differ"))
        }
        match verdict.violation {
            Some((fp, _)) if fp == found.fingerprint => { }
            other => return Err(format!(
                "replay {round} did not reproduce {}: got {:?}", found.fingerprint,
                other.map(|x| x.0)
            ))
        }
    }
    Ok(())
}

pub fn found_json(harness: &str, bound: usize, f: &Found) -> Value {
    json!({
        "harness": harness, "bound": bound, "choices": f.choices,
        "labels": f.labels, "preemptions": f.preemptions,
    })
}
