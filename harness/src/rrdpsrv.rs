//! A reference model of an RRDP server and a fake HTTPS transport for it.
//!
//! The model is deliberately boring: a map from rsync URI to content, a
//! session, a serial and the list of retained deltas. It renders its own
//! XML (not rpki-rs') so that broken documents can be produced as well.

#![allow(dead_code)]

use std::collections::{BTreeMap, HashMap};
use std::sync::{Arc, Mutex};
use routinator::verif::{HttpAnswer, http_response::Response};

pub fn sha256(data: &[u8]) -> [u8; 32] {
    let d = ring::digest::digest(&ring::digest::SHA256, data);
    let mut res = [0u8; 32];
    res.copy_from_slice(d.as_ref());
    res
}

pub fn hex(data: &[u8]) -> String {
    data.iter().map(|b| format!("{b:02x}")).collect()
}

pub fn b64(data: &[u8]) -> String {
    use base64::Engine;
    base64::engine::general_purpose::STANDARD.encode(data)
}

#[derive(Clone, Debug, Eq, PartialEq)]
pub enum Elem {
    /// publish without hash (new object)
    Publish { uri: String, data: Vec<u8> },
    /// publish with hash (replaces)
    Update { uri: String, old: Vec<u8>, data: Vec<u8> },
    Withdraw { uri: String, old: Vec<u8> },
}

impl Elem {
    pub fn uri(&self) -> &str {
        match self {
            Elem::Publish { uri, .. } | Elem::Update { uri, .. }
            | Elem::Withdraw { uri, .. } => uri
        }
    }

    pub fn xml(&self) -> String {
        match self {
            Elem::Publish { uri, data } => format!(
                "<publish uri=\"{uri}\">{}</publish>", b64(data)
            ),
            Elem::Update { uri, old, data } => format!(
                "<publish uri=\"{uri}\" hash=\"{}\">{}</publish>",
                hex(&sha256(old)), b64(data)
            ),
            Elem::Withdraw { uri, old } => format!(
                "<withdraw uri=\"{uri}\" hash=\"{}\"/>", hex(&sha256(old))
            ),
        }
    }
}

#[derive(Clone, Debug)]
pub struct Server {
    /// e.g. `https://rrdp.example/r1`
    pub base: String,
    pub session: String,
    pub serial: u64,
    pub objects: BTreeMap<String, Vec<u8>>,
    /// retained deltas: serial -> elements (delta N turns N-1 into N)
    pub deltas: BTreeMap<u64, Vec<Elem>>,
    /// content at every serial of this session ever published
    pub at_serial: BTreeMap<u64, BTreeMap<String, Vec<u8>>>,
    pub session_counter: u32,
    /// bumped whenever content changes without a new serial (a server
    /// rewriting what it published): part of the notification's validators
    pub generation: u64,
}

pub const XMLNS: &str = "http://www.ripe.net/rpki/rrdp";

impl Server {
    pub fn new(base: &str) -> Self {
        let mut res = Server {
            base: base.into(),
            session: String::new(),
            serial: 1,
            objects: BTreeMap::new(),
            deltas: BTreeMap::new(),
            at_serial: BTreeMap::new(),
            session_counter: 0,
            generation: 0,
        };
        res.new_session();
        res
    }

    pub fn session_id(n: u32) -> String {
        format!("9df4b597-af9e-4dca-bdda-7194{:08x}", n + 1)
    }

    /// Starts a new session with the current content at serial 1.
    pub fn new_session(&mut self) {
        self.session = Self::session_id(self.session_counter);
        self.session_counter += 1;
        self.serial = 1;
        self.deltas.clear();
        self.at_serial.clear();
        self.at_serial.insert(1, self.objects.clone());
    }

    pub fn notify_uri(&self) -> String { format!("{}/notification.xml", self.base) }
    pub fn snapshot_uri(&self) -> String {
        format!("{}/{}/{}/snapshot.xml", self.base, self.session, self.serial)
    }
    pub fn delta_uri(&self, serial: u64) -> String {
        format!("{}/{}/{}/delta.xml", self.base, self.session, serial)
    }

    /// Applies a change as one new delta.
    pub fn step(&mut self, elems: Vec<Elem>) {
        for e in &elems {
            match e {
                Elem::Publish { uri, data } | Elem::Update { uri, data, .. } => {
                    self.objects.insert(uri.clone(), data.clone());
                }
                Elem::Withdraw { uri, .. } => { self.objects.remove(uri); }
            }
        }
        self.serial += 1;
        self.deltas.insert(self.serial, elems);
        self.at_serial.insert(self.serial, self.objects.clone());
    }

    /// Publishes / replaces / withdraws so that `uri` has `data`.
    pub fn set(&mut self, uri: &str, data: Option<&[u8]>) -> bool {
        let old = self.objects.get(uri).cloned();
        let elem = match (old, data) {
            (None, None) => return false,
            (None, Some(d)) => Elem::Publish { uri: uri.into(), data: d.to_vec() },
            (Some(o), Some(d)) => {
                if o == d { return false }
                Elem::Update { uri: uri.into(), old: o, data: d.to_vec() }
            }
            (Some(o), None) => Elem::Withdraw { uri: uri.into(), old: o },
        };
        self.step(vec![elem]);
        true
    }

    /// Jumps the serial forward dropping all deltas.
    pub fn drop_deltas(&mut self) {
        self.deltas.clear();
    }

    pub fn snapshot_xml(&self) -> String {
        self.snapshot_xml_of(&self.session, self.serial, &self.objects)
    }

    pub fn snapshot_xml_of(
        &self, session: &str, serial: u64, objects: &BTreeMap<String, Vec<u8>>
    ) -> String {
        let mut s = format!(
            "<snapshot xmlns=\"{XMLNS}\" version=\"1\" session_id=\"{session}\" serial=\"{serial}\">\n"
        );
        for (uri, data) in objects {
            s.push_str(&format!("<publish uri=\"{uri}\">{}</publish>\n", b64(data)));
        }
        s.push_str("</snapshot>\n");
        s
    }

    pub fn delta_xml(&self, serial: u64) -> Option<String> {
        let elems = self.deltas.get(&serial)?;
        Some(self.delta_xml_of(&self.session, serial, elems))
    }

    pub fn delta_xml_of(&self, session: &str, serial: u64, elems: &[Elem]) -> String {
        let mut s = format!(
            "<delta xmlns=\"{XMLNS}\" version=\"1\" session_id=\"{session}\" serial=\"{serial}\">\n"
        );
        for e in elems { s.push_str(&e.xml()); s.push('\n'); }
        s.push_str("</delta>\n");
        s
    }

    /// The notification file. `delta_entries`: (serial, uri, hash hex).
    pub fn notification_xml_of(
        &self, session: &str, serial: u64, snapshot_uri: &str,
        snapshot_hash: &str, delta_entries: &[(u64, String, String)]
    ) -> String {
        let mut s = format!(
            "<notification xmlns=\"{XMLNS}\" version=\"1\" session_id=\"{session}\" serial=\"{serial}\">\n\
             <snapshot uri=\"{snapshot_uri}\" hash=\"{snapshot_hash}\"/>\n"
        );
        for (serial, uri, hash) in delta_entries {
            s.push_str(&format!("<delta serial=\"{serial}\" uri=\"{uri}\" hash=\"{hash}\"/>\n"));
        }
        s.push_str("</notification>\n");
        s
    }

    pub fn delta_entries(&self) -> Vec<(u64, String, String)> {
        // newest first, as real servers list them
        self.deltas.keys().rev().map(|serial| {
            let xml = self.delta_xml(*serial).unwrap();
            (*serial, self.delta_uri(*serial), hex(&sha256(xml.as_bytes())))
        }).collect()
    }

    pub fn notification_xml(&self) -> String {
        let snap = self.snapshot_xml();
        self.notification_xml_of(
            &self.session, self.serial, &self.snapshot_uri(),
            &hex(&sha256(snap.as_bytes())), &self.delta_entries()
        )
    }

    pub fn etag(&self) -> String {
        format!("\"{}-{}-{}\"", &self.session[self.session.len() - 8..], self.serial, self.generation)
    }

    /// The faithful answer to a request (None: not one of our URIs).
    pub fn answer(&self, uri: &str, etag: Option<&[u8]>) -> Option<Response> {
        if !uri.starts_with(&self.base) { return None }
        if uri == self.notify_uri() {
            let mine = self.etag();
            if etag == Some(mine.as_bytes()) {
                return Some(resp(304, vec![("ETag".into(), mine)], Vec::new()))
            }
            return Some(resp(200, vec![("ETag".into(), mine)], self.notification_xml().into_bytes()))
        }
        if uri == self.snapshot_uri() {
            return Some(resp(200, vec![], self.snapshot_xml().into_bytes()))
        }
        for serial in self.deltas.keys() {
            if uri == self.delta_uri(*serial) {
                return Some(resp(200, vec![], self.delta_xml(*serial).unwrap().into_bytes()))
            }
        }
        Some(resp(404, vec![], b"not found".to_vec()))
    }
}

pub fn resp(status: u16, headers: Vec<(String, String)>, body: Vec<u8>) -> Response {
    Response { status, headers, body, known_length: true }
}

/// A fake HTTPS world: several servers plus plain files (TA certificates),
/// a request log, and an optional override deciding individual answers.
#[derive(Default)]
pub struct World {
    pub servers: Mutex<Vec<Server>>,
    pub files: Mutex<HashMap<String, Vec<u8>>>,
    pub log: Mutex<Vec<String>>,
    pub unreachable: Mutex<Vec<String>>,
}

impl World {
    pub fn answer(&self, uri: &str, etag: Option<&[u8]>) -> HttpAnswer {
        self.log.lock().unwrap().push(uri.to_string());
        for prefix in self.unreachable.lock().unwrap().iter() {
            if uri.starts_with(prefix.as_str()) { return HttpAnswer::Unreachable }
        }
        if let Some(data) = self.files.lock().unwrap().get(uri) {
            return HttpAnswer::Response(resp(200, vec![], data.clone()))
        }
        for s in self.servers.lock().unwrap().iter() {
            if let Some(r) = s.answer(uri, etag) { return HttpAnswer::Response(r) }
        }
        HttpAnswer::Unreachable
    }
}

//------------ Host routing --------------------------------------------------

type HostMap = Mutex<HashMap<String, Arc<crate::hooks::HttpFn>>>;

fn host_map() -> &'static HostMap {
    static MAP: std::sync::OnceLock<HostMap> = std::sync::OnceLock::new();
    MAP.get_or_init(|| {
        // The process-wide transport routes by host name, so that cases
        // running in parallel (each with its own host names) do not mix.
        let f: Arc<crate::hooks::HttpFn> = Arc::new(|uri, etag, lm| {
            let host = host_of(uri);
            let f = host_map().lock().unwrap().get(host).cloned();
            match f {
                Some(f) => f(uri, etag, lm),
                // Never let a check talk to the real network.
                None => Some(HttpAnswer::Unreachable)
            }
        });
        *crate::hooks::hooks().http.write().unwrap() = Some(f);
        Mutex::new(HashMap::new())
    })
}

pub fn host_of(uri: &str) -> &str {
    let rest = uri.strip_prefix("https://").unwrap_or(uri);
    let end = rest.find('/').unwrap_or(rest.len());
    &rest[..end]
}

/// Routes all requests for `host` to `f` until the guard is dropped.
pub fn serve_host(host: &str, f: Arc<crate::hooks::HttpFn>) -> HostGuard {
    host_map().lock().unwrap().insert(host.to_string(), f);
    HostGuard(host.to_string())
}

pub struct HostGuard(String);

impl Drop for HostGuard {
    fn drop(&mut self) {
        host_map().lock().unwrap().remove(&self.0);
    }
}
