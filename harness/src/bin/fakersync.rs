//! A fake rsync: `fakersync <casedir> [rsync args..] <src> <dst>`.
//!
//! Copies `<casedir>/remote/<host>/<module>` to `<dst>` (exact copy, like
//! `rsync -r --delete`), appends `<src>` to `<casedir>/rsync.log`, and fails
//! like rsync does if `<casedir>/unreachable/<host>/<module>` exists or the
//! module is not there. Kept free of dependencies so that it starts fast.

use std::fs;
use std::io::Write;
use std::path::Path;

fn copy_tree(src: &Path, dst: &Path) -> std::io::Result<()> {
    fs::create_dir_all(dst)?;
    for entry in fs::read_dir(src)? {
        let entry = entry?;
        let to = dst.join(entry.file_name());
        if entry.file_type()?.is_dir() {
            copy_tree(&entry.path(), &to)?;
        }
        else {
            fs::copy(entry.path(), &to)?;
        }
    }
    Ok(())
}

fn main() {
    let args: Vec<String> = std::env::args().skip(1).collect();
    if args.first().map(|s| s.as_str()) == Some("-h") {
        println!("fakersync (protocol version 31)");
        return
    }
    if args.len() < 3 { std::process::exit(1) }
    let case = Path::new(&args[0]);
    let src = &args[args.len() - 2];
    let dst = Path::new(&args[args.len() - 1]);
    if let Ok(mut log) = fs::OpenOptions::new().create(true).append(true)
        .open(case.join("rsync.log"))
    {
        let _ = writeln!(log, "{src}");
    }
    let rest = match src.strip_prefix("rsync://") {
        Some(rest) => rest.trim_end_matches('/'),
        None => std::process::exit(1)
    };
    // host names are case-insensitive: the remote side is kept under the
    // lower-case spelling
    let rest = match rest.split_once('/') {
        Some((host, path)) => format!("{}/{path}", host.to_ascii_lowercase()),
        None => rest.to_ascii_lowercase(),
    };
    let rest = rest.as_str();
    // A side effect ordered by the harness for the fetch of one module:
    // `<case>/on-fetch` holds "<host>/<module>\t<from>\t<to>"; the path
    // is renamed once, while the fetch is under way.
    if let Ok(order) = fs::read_to_string(case.join("on-fetch")) {
        let parts: Vec<&str> = order.trim_end().split('\t').collect();
        if parts.len() == 3 && parts[0] == rest {
            let _ = fs::remove_file(case.join("on-fetch"));
            let _ = fs::rename(parts[1], parts[2]);
        }
    }
    if case.join("unreachable").join(rest).exists() {
        eprintln!("rsync: failed to connect to {rest}: Connection refused (111)");
        std::process::exit(10)
    }
    let from = case.join("remote").join(rest);
    if !from.is_dir() {
        eprintln!("rsync: change_dir \"{rest}\" failed: No such file or directory (2)");
        std::process::exit(23)
    }
    let _ = fs::remove_dir_all(dst);
    match copy_tree(&from, dst) {
        Ok(()) => { }
        Err(err) => { eprintln!("rsync: {err}"); std::process::exit(11) }
    }
}
