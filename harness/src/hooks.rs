//! The harness' handler for routinator's verification hooks.

#![allow(dead_code)]

use std::collections::{HashMap, VecDeque};
use std::path::{Path, PathBuf};
use std::sync::{Arc, Mutex, OnceLock, RwLock};
use routinator::verif::{self, Handler, HttpAnswer, LockMode, RunOutcome};

pub type HttpFn = dyn Fn(&str, Option<&[u8]>, Option<i64>) -> Option<HttpAnswer> + Send + Sync;

pub trait SchedHooks: Send + Sync {
    fn point(&self, label: &'static str);
    fn acquire(&self, lock: usize, mode: LockMode);
    fn release(&self, lock: usize, mode: LockMode);
}

#[derive(Default)]
pub struct Hooks {
    /// manifest URI -> file names in the order to process them
    pub orders: Mutex<HashMap<String, Vec<String>>>,
    /// every manifest order request seen: (uri, files as given)
    pub order_log: Mutex<Vec<(String, Vec<String>)>>,
    pub http: RwLock<Option<Arc<HttpFn>>>,
    /// cache dir -> outcomes of the next runs
    pub outcomes: Mutex<HashMap<PathBuf, VecDeque<RunOutcome>>>,
    pub runs_started: Mutex<HashMap<PathBuf, u64>>,
    /// cache dir -> (stage, outcome) of the next run reaching that stage
    pub stage_outcomes: Mutex<HashMap<PathBuf, (&'static str, RunOutcome)>>,
    pub sched: RwLock<Option<Arc<dyn SchedHooks>>>,
    pub rtr_fail: Mutex<VecDeque<bool>>,
    pub fs: RwLock<Option<Arc<dyn Fn(&'static str, &Path) + Send + Sync>>>,
}

impl Handler for Hooks {
    fn point(&self, label: &'static str) {
        let s = self.sched.read().unwrap().clone();
        if let Some(s) = s { s.point(label) }
    }

    fn acquire(&self, lock: usize, mode: LockMode) {
        let s = self.sched.read().unwrap().clone();
        if let Some(s) = s { s.acquire(lock, mode) }
    }

    fn release(&self, lock: usize, mode: LockMode) {
        let s = self.sched.read().unwrap().clone();
        if let Some(s) = s { s.release(lock, mode) }
    }

    fn fs_point(&self, kind: &'static str, path: &Path) {
        let f = self.fs.read().unwrap().clone();
        if let Some(f) = f { f(kind, path) }
    }

    fn http(
        &self, uri: &str, etag: Option<&[u8]>, last_modified: Option<i64>,
    ) -> Option<HttpAnswer> {
        let f = self.http.read().unwrap().clone();
        f.and_then(|f| f(uri, etag, last_modified))
    }

    fn manifest_order(
        &self, manifest_uri: &str, files: &[Vec<u8>]
    ) -> Option<Vec<usize>> {
        let names: Vec<String> = files.iter().map(|f| {
            String::from_utf8_lossy(f).into_owned()
        }).collect();
        self.order_log.lock().unwrap().push((manifest_uri.into(), names.clone()));
        let orders = self.orders.lock().unwrap();
        let want = orders.get(manifest_uri)?;
        let mut res = Vec::new();
        for w in want {
            res.push(names.iter().position(|n| n == w)?);
        }
        // entries not mentioned keep their relative order at the end
        for i in 0..names.len() {
            if !res.contains(&i) { res.push(i) }
        }
        Some(res)
    }

    fn run_outcome(&self, cache_dir: &Path) -> RunOutcome {
        *self.runs_started.lock().unwrap().entry(cache_dir.into()).or_insert(0) += 1;
        self.outcomes.lock().unwrap().get_mut(cache_dir)
            .and_then(|q| q.pop_front()).unwrap_or(RunOutcome::Proceed)
    }

    fn rtr_setup_fails(&self) -> bool {
        self.rtr_fail.lock().unwrap().pop_front().unwrap_or(false)
    }

    fn run_stage_outcome(&self, cache_dir: &Path, stage: &'static str) -> RunOutcome {
        let mut map = self.stage_outcomes.lock().unwrap();
        match map.get(cache_dir) {
            Some((s, o)) if *s == stage => {
                let o = *o;
                map.remove(cache_dir);
                o
            }
            _ => RunOutcome::Proceed
        }
    }
}

static HOOKS: OnceLock<Arc<Hooks>> = OnceLock::new();

/// Returns the process-wide hooks, installing them on first use.
pub fn hooks() -> Arc<Hooks> {
    HOOKS.get_or_init(|| {
        let h = Arc::new(Hooks::default());
        verif::install(h.clone());
        h
    }).clone()
}
