//! rtv — exhaustive bounded exploration of routinator (see /verif/DESIGN.md).

mod report;
mod util;
mod checks;
mod data;
mod httpd;
mod hooks;
mod rpkigen;
mod etree;
mod prom;
mod sched;
mod rrdpsrv;
mod alloc;

#[global_allocator]
static ALLOCATOR: alloc::Tracking = alloc::Tracking;

use std::path::{Path, PathBuf};
use std::process::{Command, Stdio};
use std::time::Instant;
use std::{env, fs};
use report::{Ctx, Report, Tier};

pub struct CheckDef {
    pub id: &'static str,
    /// Number of worker processes (1 = run in-process).
    pub shards: fn(Tier) -> usize,
    pub run: fn(&Ctx) -> Report,
    pub replay: Option<fn(&Ctx, &serde_json::Value) -> Report>,
}

fn usage() -> ! {
    eprintln!(
        "usage: rtv <ID> [--tier quick|thorough] [--replay FILE] \
         [--shard I/N --out FILE] | rtv --list | rtv --aux NAME ARGS.."
    );
    std::process::exit(2)
}

fn verif_dir() -> PathBuf {
    env::var_os("VERIF_DIR").map(PathBuf::from).unwrap_or_else(|| {
        PathBuf::from("/verif")
    })
}

fn main() {
    let args: Vec<String> = env::args().skip(1).collect();
    if args.is_empty() { usage() }
    if args[0] == "-h" {
        // The rsync collector probes its command with -h.
        println!("rtv (fake rsync mode: --aux fake-rsync CASEDIR ... SRC DST)");
        return
    }
    if args[0] == "--list" {
        for c in checks::all() { println!("{}", c.id) }
        return
    }
    if args[0] == "--aux" {
        std::process::exit(checks::aux(&args[1..]))
    }
    if env::var_os("RTV_LOG").is_some() {
        struct L;
        impl log::Log for L {
            fn enabled(&self, _: &log::Metadata) -> bool { true }
            fn log(&self, r: &log::Record) { eprintln!("[{}] {}", r.level(), r.args()) }
            fn flush(&self) { }
        }
        let _ = log::set_boxed_logger(Box::new(L));
        log::set_max_level(log::LevelFilter::Debug);
    }
    let id = args[0].clone();
    let mut tier = match env::var("VERIF_TIER").ok().as_deref() {
        Some("thorough") => Tier::Thorough,
        _ => Tier::Quick
    };
    let seed = env::var("VERIF_SEED").ok().and_then(|s| s.parse().ok())
        .unwrap_or(0u64);
    let mut shard = None;
    let mut out = None;
    let mut replay = None;
    let mut i = 1;
    while i < args.len() {
        match args[i].as_str() {
            "--tier" => {
                i += 1;
                tier = match args.get(i).map(|s| s.as_str()) {
                    Some("quick") => Tier::Quick,
                    Some("thorough") => Tier::Thorough,
                    _ => usage()
                }
            }
            "--shard" => {
                i += 1;
                let s = args.get(i).unwrap_or_else(|| usage());
                let (a, b) = s.split_once('/').unwrap_or_else(|| usage());
                shard = Some((a.parse().unwrap(), b.parse().unwrap()));
            }
            "--out" => { i += 1; out = args.get(i).cloned(); }
            "--replay" => { i += 1; replay = args.get(i).cloned(); }
            _ => usage()
        }
        i += 1;
    }
    let def = match checks::all().into_iter().find(|c| c.id == id) {
        Some(def) => def,
        None => { eprintln!("unknown check {id}"); std::process::exit(2) }
    };

    let scratch_root = util::scratch_root();
    let scratch = scratch_root.join(format!(
        "rtv-{}-{}-{}", id, std::process::id(),
        shard.map(|s: (usize, usize)| s.0).unwrap_or(0)
    ));
    let _ = fs::remove_dir_all(&scratch);
    fs::create_dir_all(&scratch).expect("scratch dir");
    let ctx = Ctx { id: id.clone(), tier, seed, shard, scratch: scratch.clone() };

    // Worker mode.
    if let Some(out) = out {
        let rep = (def.run)(&ctx);
        fs::write(&out, serde_json::to_vec(&rep.to_json()).unwrap())
            .expect("write shard report");
        let _ = fs::remove_dir_all(&scratch);
        return
    }

    let start = Instant::now();
    let rep = if let Some(path) = replay {
        let data = fs::read_to_string(&path).unwrap_or_else(|err| {
            eprintln!("cannot read {path}: {err}");
            std::process::exit(2)
        });
        let v: serde_json::Value = serde_json::from_str(&data).unwrap();
        match def.replay {
            Some(f) => f(&ctx, &v["replay"]),
            None => {
                eprintln!("check {id} has no replay entry point");
                std::process::exit(2)
            }
        }
    }
    else {
        let n = (def.shards)(tier);
        if n <= 1 {
            (def.run)(&ctx)
        }
        else {
            run_sharded(&ctx, n, &scratch)
        }
    };
    let wall = start.elapsed().as_secs_f64();
    let _ = fs::remove_dir_all(&scratch);
    let code = report::finish(&ctx, &rep, wall, &verif_dir());
    std::process::exit(code)
}

fn run_sharded(ctx: &Ctx, n: usize, scratch: &Path) -> Report {
    let exe = env::current_exe().expect("current exe");
    let mut children = Vec::new();
    for i in 0..n {
        let out = scratch.join(format!("shard-{i}.json"));
        let child = Command::new(&exe)
            .arg(&ctx.id)
            .arg("--tier").arg(ctx.tier.as_str())
            .arg("--shard").arg(format!("{i}/{n}"))
            .arg("--out").arg(&out)
            .env("VERIF_SEED", ctx.seed.to_string())
            .stdin(Stdio::null())
            .spawn().expect("spawn shard");
        children.push((i, out, child));
    }
    let mut rep = Report::default();
    rep.exhaustive = true;
    for (i, out, mut child) in children {
        let status = child.wait().expect("wait shard");
        if !status.success() {
            eprintln!(
                "machinery error: shard {i}/{n} of {} died: {status}", ctx.id
            );
            std::process::exit(2)
        }
        let data = fs::read_to_string(&out).expect("shard report");
        let v: serde_json::Value = serde_json::from_str(&data).unwrap();
        rep.merge(Report::from_json(&v));
    }
    rep
}
