//! A parser for the Prometheus text exposition format (version 0.0.4),
//! written from the format description; tolerant where the reference
//! parser is (spaces around commas and braces).

#[derive(Clone, Debug)]
pub struct Sample {
    pub name: String,
    pub labels: Vec<(String, String)>,
    pub value: f64,
}

fn is_name_start(c: char, colon: bool) -> bool {
    c.is_ascii_alphabetic() || c == '_' || (colon && c == ':')
}

fn is_name_char(c: char, colon: bool) -> bool {
    is_name_start(c, colon) || c.is_ascii_digit()
}

fn take_name<'a>(s: &'a str, colon: bool) -> Option<(&'a str, &'a str)> {
    let mut end = 0;
    for (i, c) in s.char_indices() {
        let ok = if i == 0 { is_name_start(c, colon) } else { is_name_char(c, colon) };
        if !ok { break }
        end = i + c.len_utf8();
    }
    if end == 0 { None } else { Some((&s[..end], &s[end..])) }
}

fn parse_value(s: &str) -> Option<f64> {
    match s {
        "NaN" => Some(f64::NAN), "+Inf" | "Inf" => Some(f64::INFINITY),
        "-Inf" => Some(f64::NEG_INFINITY),
        _ => s.parse().ok()
    }
}

pub fn parse(text: &str) -> Result<Vec<Sample>, String> {
    let mut res = Vec::new();
    if !text.is_empty() && !text.ends_with('\n') {
        return Err("last line not terminated by a line feed".into())
    }
    for (no, line) in text.split('\n').enumerate() {
        let err = |m: &str| format!("line {}: {m}: {line:?}", no + 1);
        let l = line.trim_start_matches([' ', '\t']);
        if l.is_empty() { continue }
        if let Some(rest) = l.strip_prefix('#') {
            let rest = rest.trim_start_matches([' ', '\t']);
            if let Some(r) = rest.strip_prefix("HELP") {
                if r.starts_with([' ', '\t']) {
                    let r = r.trim_start_matches([' ', '\t']);
                    take_name(r, true).ok_or_else(|| err("HELP without metric name"))?;
                }
            }
            else if let Some(r) = rest.strip_prefix("TYPE") {
                if r.starts_with([' ', '\t']) {
                    let r = r.trim_start_matches([' ', '\t']);
                    let (_, r) = take_name(r, true).ok_or_else(|| err("TYPE without metric name"))?;
                    let t = r.trim_matches([' ', '\t']);
                    if !["counter", "gauge", "histogram", "summary", "untyped"].contains(&t) {
                        return Err(err("unknown metric type"))
                    }
                }
            }
            continue
        }
        let (name, mut rest) = take_name(l, true).ok_or_else(|| err("bad metric name"))?;
        let mut labels = Vec::new();
        rest = rest.trim_start_matches([' ', '\t']);
        if let Some(r) = rest.strip_prefix('{') {
            let mut r = r.trim_start_matches([' ', '\t']);
            loop {
                if let Some(x) = r.strip_prefix('}') { rest = x; break }
                let (lname, x) = take_name(r, false).ok_or_else(|| err("bad label name"))?;
                let x = x.trim_start_matches([' ', '\t']);
                let x = x.strip_prefix('=').ok_or_else(|| err("expected '=' after label name"))?;
                let x = x.trim_start_matches([' ', '\t']);
                let x = x.strip_prefix('"').ok_or_else(|| err("expected '\"' starting label value"))?;
                let mut value = String::new();
                let mut chars = x.char_indices();
                let end;
                loop {
                    match chars.next() {
                        None => return Err(err("unterminated label value")),
                        Some((i, '"')) => { end = i + 1; break }
                        Some((_, '\\')) => match chars.next() {
                            Some((_, '\\')) => value.push('\\'),
                            Some((_, '"')) => value.push('"'),
                            Some((_, 'n')) => value.push('\n'),
                            _ => return Err(err("invalid escape in label value")),
                        },
                        Some((_, c)) => value.push(c),
                    }
                }
                labels.push((lname.to_string(), value));
                let x = x[end..].trim_start_matches([' ', '\t']);
                if let Some(y) = x.strip_prefix(',') {
                    r = y.trim_start_matches([' ', '\t']);
                }
                else if x.starts_with('}') {
                    r = x;
                }
                else {
                    return Err(err("expected ',' or '}' after label value"))
                }
            }
        }
        let mut fields = rest.split([' ', '\t']).filter(|x| !x.is_empty());
        let value = fields.next().ok_or_else(|| err("missing value"))?;
        let value = parse_value(value).ok_or_else(|| err("bad sample value"))?;
        if let Some(ts) = fields.next() {
            ts.parse::<i64>().map_err(|_| err("bad timestamp"))?;
        }
        if fields.next().is_some() { return Err(err("trailing text after sample")) }
        res.push(Sample { name: name.to_string(), labels, value });
    }
    Ok(res)
}
