//! Running the real engine over a generated repository image.

#![allow(dead_code)]

use std::fs;
use std::path::{Path, PathBuf};
use routinator::config::{Config, FilterPolicy};
use routinator::engine::Engine;
use routinator::payload::{PayloadSnapshot, ValidationReport};
use routinator::slurm::LocalExceptions;
use routinator::metrics::Metrics;
use crate::data::DataSet;
use crate::rpkigen::Image;

/// A case directory: remote/ (what the fake rsync serves), tals/, cache/.
pub struct Case {
    pub dir: PathBuf,
}

impl Case {
    pub fn new(dir: PathBuf) -> Self {
        let _ = fs::remove_dir_all(&dir);
        fs::create_dir_all(dir.join("remote")).unwrap();
        fs::create_dir_all(dir.join("tals")).unwrap();
        fs::create_dir_all(dir.join("cache")).unwrap();
        Case { dir }
    }

    pub fn remote_path(&self, uri: &str) -> PathBuf {
        let rest = uri.strip_prefix("rsync://").expect("rsync uri");
        // the authority is case-insensitive (as in the fake rsync)
        match rest.split_once('/') {
            Some((host, path)) => self.dir.join("remote").join(host.to_ascii_lowercase()).join(path),
            None => self.dir.join("remote").join(rest.to_ascii_lowercase()),
        }
    }

    /// Replaces the remote content with the image's files.
    pub fn publish(&self, image: &Image) {
        let _ = fs::remove_dir_all(self.dir.join("remote"));
        fs::create_dir_all(self.dir.join("remote")).unwrap();
        for (uri, content) in &image.files {
            let path = self.remote_path(uri);
            fs::create_dir_all(path.parent().unwrap()).unwrap();
            fs::write(&path, content).unwrap();
        }
    }

    pub fn write_tals(&self, image: &Image) {
        let _ = fs::remove_dir_all(self.dir.join("tals"));
        fs::create_dir_all(self.dir.join("tals")).unwrap();
        for (name, text) in &image.tals {
            fs::write(self.dir.join("tals").join(format!("{name}.tal")), text).unwrap();
        }
    }

    /// Marks a module as unreachable (the fake rsync exits non-zero).
    pub fn set_unreachable(&self, host: &str, module: &str, on: bool) {
        let p = self.dir.join("unreachable").join(host.to_ascii_lowercase());
        if on {
            fs::create_dir_all(&p).unwrap();
            fs::write(p.join(module), b"x").unwrap();
        }
        else {
            let _ = fs::remove_file(p.join(module));
        }
    }

    pub fn rsync_log(&self) -> Vec<String> {
        fs::read_to_string(self.dir.join("rsync.log")).unwrap_or_default()
            .lines().map(String::from).collect()
    }

    pub fn clear_rsync_log(&self) {
        let _ = fs::remove_file(self.dir.join("rsync.log"));
    }

    pub fn config(&self) -> Config {
        let mut config = Config::default_with_paths(
            self.dir.join("routinator.conf"), self.dir.join("cache")
        );
        config.no_rir_tals = true;
        config.extra_tals_dir = Some(self.dir.join("tals"));
        // The small dependency-free sibling binary (starts in ~1 ms).
        config.rsync_command = std::env::current_exe().unwrap()
            .with_file_name("fakersync").to_string_lossy().into_owned();
        config.rsync_args = Some(vec![
            self.dir.to_string_lossy().into_owned(),
        ]);
        config.disable_rrdp = true;
        config.validation_threads = 1;
        config.enable_aspa = true;
        config.enable_bgpsec = true;
        config.stale = FilterPolicy::Reject;
        config
    }
}

pub struct RunOut {
    /// A duplicate item in the snapshot, if any.
    pub duplicate: Option<String>,
    pub snapshot: PayloadSnapshot,
    /// The snapshot through its per-type iterators.
    pub data: DataSet,
    /// What the serving side hands out: the shared snapshot's combined
    /// iterator that the RTR cache reset and the JSON snapshot stream use.
    /// `Err`: that iterator yields an item twice.
    pub served: Result<DataSet, String>,
    pub metrics: Metrics,
}

impl RunOut {
    /// The served data if it equals the snapshot's content.
    pub fn served_matches(&self) -> Result<(), String> {
        match &self.served {
            Err(e) => Err(format!("the serving iterator yields a duplicate: {e}")),
            Ok(s) if *s != self.data => Err(format!(
                "the serving iterator yields {} while the snapshot holds {}", s.describe(), self.data.describe()
            )),
            Ok(_) => Ok(())
        }
    }
}

/// An ignited engine, to be used for several runs the way the server does.
pub fn engine(config: &Config, offline: bool) -> Result<Engine, String> {
    let mut engine = Engine::new(config, !offline)
        .map_err(|_| "Engine::new failed".to_string())?;
    engine.ignite().map_err(|_| "ignite failed".to_string())?;
    Ok(engine)
}

/// One validation run with the collector on (unless `offline`).
pub fn run(
    config: &Config, offline: bool, exceptions: &LocalExceptions
) -> Result<RunOut, String> {
    run_on(&engine(config, offline)?, config, exceptions)
}

/// The server's initial quick run (store only, fails retryably when
/// something is not in the store yet): `Ok` or the failure class.
pub fn run_initial(config: &Config) -> Result<(), String> {
    let engine = engine(config, false)?;
    ValidationReport::process(&engine, config, true)
        .map(|_| ()).map_err(|e| format!("run failed (fatal={})", e.is_fatal()))
}

/// One validation run, returning what the server hands to
/// `SharedHistory::update`.
pub fn run_report(config: &Config) -> Result<(ValidationReport, Metrics), String> {
    let engine = engine(config, false)?;
    ValidationReport::process(&engine, config, false)
        .map_err(|e| format!("run failed (fatal={})", e.is_fatal()))
}

/// One validation run on an existing engine.
pub fn run_on(
    engine: &Engine, config: &Config, exceptions: &LocalExceptions
) -> Result<RunOut, String> {
    let (report, mut metrics) = ValidationReport::process(engine, config, false)
        .map_err(|e| format!("run failed (fatal={})", e.is_fatal()))?;
    let snapshot = report.into_snapshot(exceptions, &mut metrics);
    let data = DataSet::from_snapshot(&snapshot);
    let duplicate = DataSet::from_payload(snapshot.payload()).err();
    let served = {
        use rpki::rtr::server::PayloadSet;
        let mut iter = std::sync::Arc::new(snapshot.clone()).arc_iter();
        let mut items = Vec::new();
        while let Some(p) = iter.next() { items.push(crate::data::to_owned(p)); }
        DataSet::from_payload(items.iter().map(|p| p.as_ref()))
    };
    Ok(RunOut { duplicate, snapshot, data, served, metrics })
}

fn copy_tree(src: &Path, dst: &Path) -> std::io::Result<()> {
    fs::create_dir_all(dst)?;
    for entry in fs::read_dir(src)? {
        let entry = entry?;
        let to = dst.join(entry.file_name());
        if entry.file_type()?.is_dir() {
            copy_tree(&entry.path(), &to)?;
        }
        else {
            fs::copy(entry.path(), &to)?;
        }
    }
    Ok(())
}

/// `rtv --aux fake-rsync <casedir> [rsync args] <src> <dst>`
pub fn fake_rsync(args: &[String]) -> i32 {
    use std::io::Write;
    if args.len() < 3 { return 1 }
    let case = Path::new(&args[0]);
    let src = &args[args.len() - 2];
    let dst = Path::new(&args[args.len() - 1]);
    if let Ok(mut log) = fs::OpenOptions::new().create(true).append(true)
        .open(case.join("rsync.log"))
    {
        let _ = writeln!(log, "{src}");
    }
    let rest = match src.strip_prefix("rsync://") {
        Some(rest) => rest.trim_end_matches('/'),
        None => return 1
    };
    if case.join("unreachable").join(rest).exists() {
        eprintln!("rsync: failed to connect to {rest}: Connection refused (111)");
        return 10
    }
    let from = case.join("remote").join(rest);
    if !from.is_dir() {
        eprintln!("rsync: change_dir \"{rest}\" failed: No such file or directory (2)");
        return 23
    }
    // -r --delete: make dst an exact copy
    let _ = fs::remove_dir_all(dst);
    match copy_tree(&from, dst) {
        Ok(()) => 0,
        Err(err) => { eprintln!("rsync: {err}"); 11 }
    }
}
