//! C03 A publication point contributes one consistent object set.
//!
//! Run 1 stores version v1 of a CA's point. Run 2 fetches version v2 whose
//! update must be abandoned because exactly one listed entry is missing or
//! mismatching; every processing order of v2's manifest entries is imposed
//! through the H-ORDER hook. The CA's payload in run 2 must be exactly
//! v1's.

use std::collections::BTreeSet;
use std::net::Ipv4Addr;
use rpki::repository::x509::Time;
use rpki::rtr::payload::Payload;
use routinator::slurm::LocalExceptions;
use serde_json::{json, Value};
use crate::data;
use crate::etree::{self, Case};
use crate::hooks;
use crate::report::{Ctx, Report};
use crate::rpkigen::{Builder, CaSpec, Fault, Gen, Image, ObjSpec, PointFault, Stale, TalSpec, TreeSpec};
use crate::util;

fn tree(version: usize, n_roas: usize, bad: Option<(usize, Fault)>) -> TreeSpec { tree_revoking(version, n_roas, bad, &[]) }

/// `revoked`: serial numbers this version's CRL revokes (certificates of
/// the stored version).
fn tree_revoking(version: usize, n_roas: usize, bad: Option<(usize, Fault)>, revoked: &[u64]) -> TreeSpec {
    let mut ta = CaSpec::new("ta0", 0, "ta0.example", "repo");
    ta.v4 = vec![(Ipv4Addr::new(10, 0, 0, 0), 8)];
    ta.asns = vec![(64496, 64511)];
    ta.objs = vec![ObjSpec::roa("r0", 64496, "10.0.0.0", 16, 16)];
    let mut ca = CaSpec::new("ca1", 1, "ca1.example", "repo");
    ca.v4 = vec![(Ipv4Addr::new(10, 1, 0, 0), 16)];
    ca.asns = vec![(64500, 64505)];
    ca.mft_number = version as u64;
    ca.extra_revoked = revoked.to_vec();
    ca.mft_this_update = -3600 + 600 * version as i64;
    for i in 0..n_roas {
        // VRPs of different versions are disjoint
        let mut o = ObjSpec::roa(
            &format!("v{version}r{i}"), 64500 + version as u32,
            &format!("10.1.{}.0", version * 16 + i), 24, 24
        );
        if let Some((b, f)) = bad { if b == i { o.fault = Some(f); } }
        ca.objs.push(o);
    }
    // One ASPA and one router certificate per version (disjoint across
    // versions like the VRPs) so that every payload type is observed.
    ca.objs.push(ObjSpec::aspa(&format!("v{version}a"), 64500 + version as u32, &[version as u32]));
    ca.objs.push(ObjSpec::router(&format!("v{version}k"), 64500 + version as u32, version % 2));
    if let Some((b, f)) = bad {
        if b == n_roas {
            ca.point_fault = Some(match f {
                Fault::Missing => PointFault::CrlMissing,
                _ => PointFault::CrlWrongHash
            });
        }
    }
    ta.children.push(ca);
    TreeSpec { tals: vec![TalSpec {
        name: "alpha".into(), ta_uri: "rsync://ta0.example/repo/ta0.cer".into(),
        ca: ta, wrong_key: false, https_uri: None,
    }]}
}

fn ca_payload(image: &Image, ca: &str) -> BTreeSet<Payload> {
    image.truth.iter().filter(|t| t.ca == ca).map(|t| t.payload.clone()).collect()
}

fn served_of(ds: &data::DataSet, universe: &BTreeSet<Payload>) -> BTreeSet<Payload> {
    // ASPAs and router keys of the CA are recognised by their AS number
    // (64501.. for the versions), whatever their exact content.
    let mine_asn = |asn: u32| (64501..=64505).contains(&asn);
    ds.origins.iter().map(|o| Payload::Origin(*o)).filter(|p| universe.contains(p))
        .chain(ds.keys.iter().filter(|k| mine_asn(k.asn.into_u32())).map(|k| Payload::RouterKey(k.clone())))
        .chain(ds.aspas.iter().filter(|(c, _)| mine_asn(c.into_u32())).map(|(c, p)| Payload::aspa(*c, p.clone())))
        .collect()
}

fn permutations(n: usize) -> Vec<Vec<usize>> {
    if n == 0 { return vec![vec![]] }
    let mut res = Vec::new();
    for p in permutations(n - 1) {
        for pos in 0..=p.len() {
            let mut q = p.clone();
            q.insert(pos, n - 1);
            res.push(q);
        }
    }
    res.sort();
    res
}

#[derive(Clone, Debug)]
pub struct CaseSpec {
    /// number of ROAs in v2 (entries = ROAs + CRL)
    pub n: usize,
    /// index of the bad entry (n = the CRL); None = v2 complete (control)
    pub bad: Option<(usize, Fault)>,
    /// processing order of v2's entries (indexes; n = CRL)
    pub order: Vec<usize>,
    /// three-version history: v1, v2 (abandoned), v3 complete
    pub third: bool,
    /// v2's ASPA and router certificate are processed after (instead of
    /// before) all other entries
    pub extras_last: bool,
    /// v2's CRL revokes the certificates of all of v1's objects (v2's own
    /// objects carry other serial numbers)
    pub revokes_v1: bool,
}

pub fn run_case(gen: &Gen, dir: std::path::PathBuf, c: &CaseSpec) -> Result<String, (String, String)> {
    let now = Time::now();
    let h = hooks::hooks();
    let v1 = Builder::at(gen, Stale::Reject, now).build(&tree(1, 2, None));
    let v1_serials: Vec<u64> = if c.revokes_v1 {
        v1.ee_serials.iter().filter(|(k, _)| k.starts_with("ca1/")).map(|(_, s)| *s).collect()
    } else { Vec::new() };
    // v2's own certificates must not collide with the revoked serials
    let mut b2 = Builder::at(gen, Stale::Reject, now);
    if c.revokes_v1 { b2.skip_serials(1000); }
    let v2 = b2.build(&tree_revoking(2, c.n, c.bad, &v1_serials));
    let case = Case::new(dir);
    case.write_tals(&v1);
    let config = case.config();
    let mft_uri = "rsync://ca1.example/repo/ca1/ca1.mft".to_string();
    h.orders.lock().unwrap().remove(&mft_uri);
    let err = |e: String| ("run-failed".to_string(), e);

    case.publish(&v1);
    let r1 = etree::run(&config, false, &LocalExceptions::empty()).map_err(err)?;
    let p1 = ca_payload(&v1, "ca1");
    let p2 = ca_payload(&v2, "ca1");
    let mut universe: BTreeSet<Payload> = p1.union(&p2).cloned().collect();
    if served_of(&r1.data, &universe) != p1 {
        return Err(("setup".into(), "run 1 did not serve v1".into()))
    }

    // run 2 with the imposed order
    let mut names: Vec<String> = c.order.iter().map(|i| {
        if *i == c.n { "ca1.crl".to_string() } else { format!("v2r{i}.roa") }
    }).collect();
    if c.extras_last {
        names.push("v2a.asa".into()); names.push("v2k.cer".into());
    }
    else {
        names.insert(0, "v2k.cer".into()); names.insert(0, "v2a.asa".into());
    }
    h.orders.lock().unwrap().insert(mft_uri.clone(), names.clone());
    h.order_log.lock().unwrap().clear();
    case.publish(&v2);
    let r2 = etree::run(&config, false, &LocalExceptions::empty()).map_err(err);
    h.orders.lock().unwrap().remove(&mft_uri);
    let r2 = r2?;
    let reached = h.order_log.lock().unwrap().iter().any(|x| x.0 == mft_uri);
    let got = served_of(&r2.data, &universe);
    let fmt = |s: &BTreeSet<Payload>| s.iter().map(data::fmt_payload).collect::<Vec<_>>();
    let want = if c.bad.is_some() { &p1 } else { &p2 };
    if &got != want {
        let leaked: Vec<_> = got.difference(want).map(data::fmt_payload).collect();
        let class = if c.bad.is_some() && !leaked.is_empty() { "mixed-object-sets" }
            else if c.bad.is_some() { "stored-set-incomplete" } else { "new-set-wrong" };
        return Err((class.into(), format!(
            "v2 entries processed in order {names:?}, bad entry {:?}: CA payload {:?}, expected {:?}",
            c.bad, fmt(&got), fmt(want)
        )))
    }
    if c.third {
        let v3 = Builder::at(gen, Stale::Reject, now).build(&tree(3, 2, None));
        let p3 = ca_payload(&v3, "ca1");
        universe.extend(p3.iter().cloned());
        case.publish(&v3);
        let r3 = etree::run(&config, false, &LocalExceptions::empty()).map_err(err)?;
        let got = served_of(&r3.data, &universe);
        if got != p3 {
            return Err(("third-version".into(), format!(
                "after the abandoned v2, complete v3 yields {:?}, expected {:?}", fmt(&got), fmt(&p3)
            )))
        }
    }
    let _ = std::fs::remove_dir_all(&case.dir);
    Ok(if !reached { "order-hook-not-reached".into() }
        else if c.bad.is_some() { "abandoned->v1".into() } else { "complete->v2".into() })
}

pub fn cases(thorough: bool) -> Vec<CaseSpec> {
    let mut res = Vec::new();
    let max_n = if thorough { 3 } else { 2 };
    for n in 1..=max_n {
        let perms = permutations(n + 1);
        for order in &perms {
            res.push(CaseSpec { n, bad: None, order: order.clone(), third: false, extras_last: false, revokes_v1: false });
            for b in 0..=n {
                for f in [Fault::Missing, Fault::HashMismatch] {
                    res.push(CaseSpec { n, bad: Some((b, f)), order: order.clone(), third: false, extras_last: false, revokes_v1: false });
                }
            }
        }
    }
    // the fetched CRL revokes what is stored: only the stored CRL may be
    // applied to the stored objects
    {
        let n = res.len();
        for i in 0..n {
            if res[i].bad.is_some() && (thorough || res[i].n == 1) {
                let mut c = res[i].clone();
                c.revokes_v1 = true;
                res.push(c);
            }
        }
    }
    if thorough {
        let n = res.len();
        for i in 0..n {
            if res[i].n <= 2 {
                let mut c = res[i].clone();
                c.extras_last = true;
                res.push(c);
            }
        }
        for order in permutations(3) {
            for b in 0..=2 {
                res.push(CaseSpec { n: 2, bad: Some((b, Fault::Missing)), order: order.clone(), third: true, extras_last: false, revokes_v1: false });
            }
        }
    }
    res
}

fn fingerprint(c: &CaseSpec, class: &str) -> String {
    // position of the bad entry in the processing order: first / middle / last
    let pos = c.bad.map(|(b, _)| {
        let p = c.order.iter().position(|x| *x == b).unwrap();
        if p == 0 { "bad-first" } else { "bad-after-good" }
    }).unwrap_or("none");
    let kind = c.bad.map(|(b, f)| format!("{}{:?}", if b == c.n { "crl" } else { "roa" }, f)).unwrap_or_default();
    format!("point:{class}:{kind}:{pos}")
}

pub fn run(ctx: &Ctx) -> Report {
    util::quiet_panics();
    let gen = Gen::load();
    let mut rep = Report::new("model_checking");
    let cases = cases(ctx.tier.thorough());
    rep.rule = "CA with stored version v1 (run 1) and fetched version v2 \
        (run 2) listing n ROAs + CRL + one ASPA + one router certificate \
        with payload disjoint from v1's (the ASPA and router certificate \
        are processed first; thorough: also last); exactly \
        one entry (every choice, incl. the CRL) missing or hash-mismatching, \
        or none (control); every one of the (n+1)! processing orders of the \
        manifest entries imposed through the order hook; thorough adds n=3 \
        and three-version histories; abandoned cases also with a v2 CRL that \
        revokes the certificates of all stored v1 objects; oracle: CA payload of run 2 == exactly \
        payload(v1) (or payload(v2) for the control); non-trivial = cases \
        with a bad entry".into();
    rep.bound = format!("{} (order, bad entry, fault) cases, n <= {}", cases.len(), if ctx.tier.thorough() { 3 } else { 2 });
    for (i, c) in cases.iter().enumerate() {
        if !ctx.mine(i as u64) { continue }
        rep.evaluations += 1;
        rep.transitions += 2 + c.third as u64;
        if c.bad.is_some() { rep.nontrivial += 1; }
        let r = util::catch(|| run_case(&gen, ctx.scratch.join(format!("c{i}")), c))
            .unwrap_or_else(|p| Err(("panic".into(), p)));
        match r {
            Ok(o) => rep.outcome(o),
            Err((class, msg)) => {
                rep.outcome(format!("VIOLATION:{class}"));
                rep.violation(fingerprint(c, &class), msg,
                    json!({"n": c.n, "bad": c.bad.map(|(b, f)| json!([b, format!("{f:?}")])), "order": c.order, "third": c.third, "extras_last": c.extras_last, "revokes_v1": c.revokes_v1}));
            }
        }
    }
    rep.states = rep.evaluations;
    rep.traces = rep.evaluations;
    rep.sample(json!({"n": 2, "bad": [2, "Missing"], "order": [0, 1, 2], "meaning": "both v2 ROAs processed, then the CRL entry is found missing"}));
    rep.assumptions.push("orders are imposed at the hook right after the \
        engine's own shuffle; the shuffle can produce every order, so every \
        imposed order is a possible schedule of the loop".into());
    rep
}

pub fn replay(ctx: &Ctx, v: &Value) -> Report {
    let gen = Gen::load();
    let mut rep = Report::new("model_checking");
    let bad = v["bad"].as_array().map(|a| {
        (a[0].as_u64().unwrap() as usize,
         if a[1].as_str() == Some("Missing") { Fault::Missing } else { Fault::HashMismatch })
    });
    let c = CaseSpec {
        n: v["n"].as_u64().unwrap() as usize, bad,
        order: v["order"].as_array().unwrap().iter().map(|x| x.as_u64().unwrap() as usize).collect(),
        third: v["third"].as_bool().unwrap_or(false),
        extras_last: v["extras_last"].as_bool().unwrap_or(false),
        revokes_v1: v["revokes_v1"].as_bool().unwrap_or(false),
    };
    let r = run_case(&gen, ctx.scratch.join("replay"), &c);
    println!("{c:?}: {r:?}");
    if let Err((class, msg)) = r { rep.violation(fingerprint(&c, &class), msg, v.clone()); }
    rep.evaluations = 1; rep.states = 1; rep.transitions = 2; rep.traces = 1;
    rep.sample(v.clone());
    rep
}
