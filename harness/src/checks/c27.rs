//! C27 Corrupt local data never crashes Routinator.
//!
//! Complete enumeration of truncations and single-byte substitutions of
//! every persisted artefact (stored publication point, store status file,
//! RRDP archive with its state record), each variant read through the real
//! entry points in worker processes (address-space cap, largest-allocation
//! tracking, hang horizon, breadcrumbs).

use std::fs;
use std::path::{Path, PathBuf};
use std::str::FromStr;
use std::sync::Arc;
use std::time::{Duration, Instant};
use routinator::collector::RrdpArchive;
use routinator::slurm::LocalExceptions;
use routinator::store::{Store, StoredPoint};
use rpki::uri;
use serde_json::{json, Value};
use crate::alloc;
use crate::checks::c25;
use crate::etree::{self, Case};
use crate::report::{Ctx, Report};
use crate::rpkigen::{Builder, CaSpec, Gen, ObjSpec, Stale, TalSpec, TreeSpec};
use crate::util;
use std::net::Ipv4Addr;

const ARTEFACTS: [&str; 3] = ["point", "status", "archive"];

fn subst_values(thorough: bool, orig: u8) -> Vec<u8> {
    let mut v = vec![0x00, 0xff, orig ^ 0x01, orig ^ 0x80];
    if thorough { v.extend([0x7f, 0x80, 0x01, orig.wrapping_add(1), orig.wrapping_sub(1), 0x10, 0xfe]); }
    v.sort(); v.dedup();
    v.retain(|x| *x != orig);
    v
}

const INDEX_START: usize = 6 + 16 + 8;
const INDEX_ENTRIES: usize = 1024 + 1;
const BODY_START: usize = INDEX_START + INDEX_ENTRIES * 8;

/// One deviation from the pristine artefact.
#[derive(Clone, Debug)]
pub enum Kind {
    Truncate(usize),
    Byte(usize, u8),
    Whole(Vec<u8>),
    /// `width` bytes at `pos` all set to `fill` (whole length and pointer
    /// fields at once, whatever their byte order)
    Window(usize, usize, u8),
    /// the 8-byte native-endian pointer field at `pos` set to `value`
    /// (another object's start, its own, the end of the file)
    Pointer(usize, u64),
}

fn u64_at(b: &[u8], p: usize) -> u64 { b.get(p..p + 8).map(|x| u64::from_ne_bytes(x.try_into().unwrap())).unwrap_or(0) }

/// Pointer fields of an archive (offset of the field, start of the tile it
/// lives in or 0 for an index entry) and the starts of all tiles reachable
/// through the index.
fn archive_pointers(b: &[u8]) -> (Vec<(usize, u64)>, Vec<u64>) {
    let mut fields = Vec::new();
    let mut tiles = Vec::new();
    if b.len() < BODY_START { return (fields, tiles) }
    for i in 0..INDEX_ENTRIES {
        let entry = INDEX_START + i * 8;
        let mut pos = u64_at(b, entry);
        if pos == 0 { continue }
        fields.push((entry, 0));
        let mut steps = 0;
        while pos != 0 && (pos as usize) + 16 <= b.len() && steps < 1000 {
            steps += 1;
            if !tiles.contains(&pos) { tiles.push(pos); }
            fields.push((pos as usize + 8, pos));
            pos = u64_at(b, pos as usize + 8);
        }
    }
    tiles.sort();
    (fields, tiles)
}

/// All variants of `base`, in a fixed order (the index is the identity of
/// a variant in replay files): truncations, single-byte substitutions, a
/// few whole-file replacements, field-wide windows, archive pointers.
pub fn variants(name: &str, base: &[u8], thorough: bool) -> Vec<Kind> {
    let n = base.len();
    let mut res: Vec<Kind> = (0..n).map(Kind::Truncate).collect();
    for pos in 0..n { for v in subst_values(thorough, base[pos]) { res.push(Kind::Byte(pos, v)); } }
    for w in [vec![], vec![0], vec![0xff], vec![0, 0], vec![0xff, 0xff], vec![0xff; 64], vec![0; 4096]] { res.push(Kind::Whole(w)); }
    let archive = name == "archive";
    for pos in 0..n {
        // the archive's bucket index is 1025 aligned pointers, mostly
        // zero: whole entries only
        let in_index = archive && (INDEX_START..BODY_START).contains(&pos);
        if in_index && (pos - INDEX_START) % 8 != 0 { continue }
        for (width, fill) in [(8usize, 0xffu8), (8, 0x00), (4, 0xff)] {
            if in_index && width != 8 { continue }
            if pos + width > n { continue }
            if base[pos..pos + width].iter().all(|b| *b == fill) { continue }
            res.push(Kind::Window(pos, width, fill));
        }
    }
    if archive {
        let (fields, tiles) = archive_pointers(base);
        for (field, own) in fields {
            let cur = u64_at(base, field);
            let mut targets: Vec<u64> = tiles.clone();
            targets.extend([0, n as u64, own]);
            targets.sort(); targets.dedup();
            for t in targets { if t != cur && !(t == 0 && own == 0 && cur == 0) { res.push(Kind::Pointer(field, t)); } }
        }
    }
    res
}

/// Applies a variant: bytes, description, first position touched.
pub fn apply(base: &[u8], k: &Kind) -> (Vec<u8>, String, Option<usize>) {
    let n = base.len();
    match k {
        Kind::Truncate(i) => (base[..*i].to_vec(), format!("truncate to {i} of {n} bytes"), None),
        Kind::Byte(pos, v) => {
            let mut b = base.to_vec();
            b[*pos] = *v;
            (b, format!("byte {pos} of {n}: {:#04x} -> {:#04x}", base[*pos], v), Some(*pos))
        }
        Kind::Whole(w) => (w.clone(), format!("whole file replaced by {} bytes of {:#04x}", w.len(), w.first().copied().unwrap_or(0)), None),
        Kind::Window(pos, width, fill) => {
            let mut b = base.to_vec();
            for x in &mut b[*pos..*pos + *width] { *x = *fill; }
            (b, format!("bytes {pos}..{} of {n} all set to {fill:#04x}", pos + width), Some(*pos))
        }
        Kind::Pointer(pos, v) => {
            let mut b = base.to_vec();
            b[*pos..*pos + 8].copy_from_slice(&v.to_ne_bytes());
            (b, format!("pointer at {pos} of {n}: {} -> {v}", u64_at(base, *pos)), Some(*pos))
        }
    }
}

fn variant(name: &str, base: &[u8], i: usize, thorough: bool) -> Option<(Vec<u8>, String, Option<usize>)> {
    variants(name, base, thorough).get(i).map(|k| apply(base, k))
}

//------------ Fixture -------------------------------------------------------

struct Fixture { dir: PathBuf, point_path: PathBuf, status_path: PathBuf, archive_path: PathBuf }

const FIX_HOST: &str = "fx.c27.example";

fn tree() -> TreeSpec {
    let mut ta = CaSpec::new("ta0", 0, FIX_HOST, "repo");
    ta.v4 = vec![(Ipv4Addr::new(10, 0, 0, 0), 8)];
    ta.asns = vec![(64496, 64511)];
    ta.objs = vec![ObjSpec::roa("r0", 64496, "10.0.0.0", 16, 16), ObjSpec::roa("r1", 64497, "10.1.0.0", 16, 24)];
    TreeSpec { tals: vec![TalSpec { name: "alpha".into(), ta_uri: format!("rsync://{FIX_HOST}/repo/ta0.cer"), ca: ta, wrong_key: false, https_uri: None }] }
}

/// The server steps behind the fixture archive; one client update after
/// each phase.
fn fixture_history() -> Vec<Vec<c25::SrvOp>> {
    use c25::SrvOp::Set;
    vec![
        vec![Set(0, Some(0))],
        vec![Set(1, Some(2))],
        vec![Set(2, Some(0))],
        vec![Set(1, None), Set(0, Some(1))],
    ]
}

/// What the server does before the update that runs over a damaged copy:
/// a publish that fits the hole exactly, a publish into a shared bucket
/// and a withdrawal from a shared chain.
fn continuation() -> Vec<c25::SrvOp> {
    use c25::SrvOp::Set;
    vec![Set(1, Some(2)), Set(3, Some(0)), Set(0, None)]
}

thread_local! {
    /// names absent from the pristine archive, one per non-empty bucket
    static PROBES: std::cell::RefCell<Vec<String>> = const { std::cell::RefCell::new(Vec::new()) };
}

/// Prepares a process for archive variants: the colliding names of the
/// fixture and one absent name per non-empty bucket.
fn init_archive(pristine: &Path) {
    use std::hash::Hasher;
    c25::resolve_colliders(pristine).expect("colliding names");
    let b = fs::read(pristine).expect("pristine archive");
    let key: [u8; 16] = b[6..22].try_into().unwrap();
    let mut probes = Vec::new();
    for i in 0..INDEX_ENTRIES - 1 {
        if u64_at(&b, INDEX_START + i * 8) == 0 { continue }
        for k in 0..200_000usize {
            let cand = format!("rsync://{}/m/absent{k}.bin", c25::HOST);
            let mut h = siphasher::sip::SipHasher24::new_with_key(&key);
            h.write(cand.as_bytes());
            if h.finish() % 1024 == i as u64 { probes.push(cand); break }
        }
    }
    PROBES.with(|p| *p.borrow_mut() = probes);
}

/// Builds the pristine artefacts under `dir` (cache with a stored point and
/// status file; an RRDP archive with three objects).
fn build_fixture(dir: &Path) -> Fixture {
    let gen = Gen::load();
    let image = Builder::new(&gen, Stale::Reject).build(&tree());
    let case = Case::new(dir.join("fixture"));
    case.write_tals(&image);
    case.publish(&image);
    let config = case.config();
    etree::run(&config, false, &LocalExceptions::empty()).expect("fixture run");
    let store = Store::new(&config).expect("store");
    let mft = uri::Rsync::from_str(&format!("rsync://{FIX_HOST}/repo/ta0/ta0.mft")).unwrap();
    let point_path = store.verif_point_path(None, &mft);
    let status_path = config.cache_dir.join("stored").join("status.bin");
    assert!(point_path.exists(), "stored point file");
    assert!(status_path.exists(), "status file");
    // RRDP archive through the real collector: a big object withdrawn
    // again (a hole inside the file), an object replaced in place, and an
    // object whose name shares the hash bucket of another one published
    // into part of the hole.
    let w = c25::Worker::new(&dir.join("fixture-rrdp"), None);
    c25::NAME_OVERRIDE.with(|n| n.borrow_mut().clear());
    let (mut server, mut truth) = c25::new_server();
    w.install(&None);
    for (i, phase) in fixture_history().iter().enumerate() {
        for op in phase { c25::apply_srv(&mut server, &mut truth, *op); }
        let o = c25::client_update(&w, &server, &truth, c25::Mode::Faithful).expect("fixture rrdp update");
        assert_eq!(o.result, "updated");
        if i == 0 { c25::resolve_colliders(&w.path).expect("colliding names"); }
    }
    {
        let bytes = fs::read(&w.path).expect("fixture archive");
        let (fields, tiles) = archive_pointers(&bytes);
        let empty_head = u64_at(&bytes, INDEX_START + (INDEX_ENTRIES - 1) * 8);
        let chained = fields.iter().filter(|(_, own)| *own != 0 && u64_at(&bytes, *own as usize + 8) != 0).count();
        if empty_head == 0 || chained == 0 || tiles.len() < 4 {
            for t in &tiles { eprintln!("  tile at {t}: size {} next {} empty {}", u64_at(&bytes, *t as usize), u64_at(&bytes, *t as usize + 8), bytes[*t as usize + 16]); }
            eprintln!("machinery error: C27 fixture archive lacks a hole or a shared chain (empty head {empty_head}, chained {chained}, tiles {})", tiles.len());
            std::process::exit(2)
        }
    }
    let archive_path = dir.join("fixture").join("archive.bin");
    fs::copy(&w.path, &archive_path).expect("copy archive");
    Fixture { dir: dir.join("fixture"), point_path, status_path, archive_path }
}

fn artefact_path(f: &Fixture, name: &str) -> PathBuf {
    match name { "point" => f.point_path.clone(), "status" => f.status_path.clone(), _ => f.archive_path.clone() }
}

//------------ Worker --------------------------------------------------------

/// Reads one variant through the real entry points. Returns an outcome
/// class or a violation.
fn exercise(
    f: &Fixture, name: &str, bytes: &[u8], rrdp: &c25::Worker, full_run: bool
) -> Result<String, (String, String)> {
    let limit = (64usize << 20) + 16 * bytes.len();
    let mut outcome = String::new();
    let check_alloc = |what: &str| -> Result<(), (String, String)> {
        let m = alloc::max();
        if m > limit {
            return Err(("wild-allocation".into(), format!("{what} asked for {m} bytes at once for a file of {} bytes", bytes.len())))
        }
        Ok(())
    };
    match name {
        "point" => {
            // an earlier run may have cleaned the directory away
            if let Some(d) = f.point_path.parent() { let _ = fs::create_dir_all(d); }
            fs::write(&f.point_path, bytes).map_err(|e| ("harness".to_string(), e.to_string()))?;
            alloc::reset();
            let r = util::catch(|| {
                match StoredPoint::load_quietly(f.point_path.clone()) {
                    None => "rejected".to_string(),
                    Some(p) => {
                        let has = p.manifest().is_some();
                        let mut n = 0; let mut bad = 0;
                        for obj in p { match obj { Ok(_) => n += 1, Err(_) => { bad += 1; break } } }
                        format!("loaded:manifest={has}:objects={n}:errors={bad}")
                    }
                }
            }).map_err(|p| ("panic".to_string(), format!("StoredPoint::load_quietly / iteration panicked: {p}")))?;
            check_alloc("reading the stored point")?;
            outcome.push_str(&r);
            if full_run {
                alloc::reset();
                let config = Case { dir: f.dir.clone() }.config();
                let r = util::catch(|| etree::run(&config, true, &LocalExceptions::empty()).map(|o| o.data.origins.len()))
                    .map_err(|p| ("panic".to_string(), format!("offline validation run panicked: {p}")))?;
                check_alloc("the offline validation run")?;
                outcome.push_str(&match r { Ok(n) => format!(":run-ok:{n}"), Err(_) => ":run-error".to_string() });
            }
        }
        "status" => {
            if let Some(d) = f.status_path.parent() { let _ = fs::create_dir_all(d); }
            fs::write(&f.status_path, bytes).map_err(|e| ("harness".to_string(), e.to_string()))?;
            alloc::reset();
            let config = Case { dir: f.dir.clone() }.config();
            let r = util::catch(|| {
                let store = Store::new(&config).map_err(|_| ())?;
                store.status().map(|s| s.is_some()).map_err(|_| ())
            }).map_err(|p| ("panic".to_string(), format!("Store::status panicked: {p}")))?;
            check_alloc("reading the status file")?;
            outcome.push_str(&format!("status:{r:?}"));
            if full_run {
                alloc::reset();
                let r = util::catch(|| etree::run(&config, true, &LocalExceptions::empty()).map(|o| o.data.origins.len()))
                    .map_err(|p| ("panic".to_string(), format!("offline validation run panicked: {p}")))?;
                check_alloc("the offline validation run")?;
                outcome.push_str(&match r { Ok(n) => format!(":run-ok:{n}"), Err(_) => ":run-error".to_string() });
            }
        }
        _ => {
            rrdp.install(&Some(bytes.to_vec()));
            alloc::reset();
            let path = rrdp.path.clone();
            let mut endless = false;
            let r = util::catch(|| {
                let v = RrdpArchive::verify(&path).is_ok();
                let mut s = format!("verify={v}");
                match RrdpArchive::open(Arc::new(path.clone())) {
                    Err(e) => s.push_str(&format!(":open-error:fatal={}", e.is_fatal())),
                    Ok(a) => {
                        s.push_str(&format!(":state={}", a.load_state().is_ok()));
                        match a.objects() {
                            Err(_) => s.push_str(":objects-error"),
                            Ok(it) => {
                                let mut n = 0; let mut bad = 0;
                                for o in it {
                                    if n > 10_000 { endless = true; break }
                                    match o { Ok(_) => n += 1, Err(_) => { bad += 1; break } }
                                }
                                s.push_str(&format!(":objects={n}:errors={bad}"))
                            }
                        }
                        for i in 0..4 {
                            let u = uri::Rsync::from_str(&c25::obj_uri(i)).unwrap();
                            let _ = a.load_object(&u);
                        }
                        // names that are not there, one per occupied bucket:
                        // the whole chain is walked
                        for p in PROBES.with(|p| p.borrow().clone()) {
                            let u = uri::Rsync::from_str(&p).unwrap();
                            let _ = a.load_object(&u);
                        }
                    }
                }
                s
            }).map_err(|p| ("panic".to_string(), format!("reading the RRDP archive panicked: {p}")))?;
            check_alloc("reading the RRDP archive")?;
            if endless {
                return Err(("endless-listing".into(), "the archive's object listing never ends (more than 10000 items from a file that held 4)".into()))
            }
            outcome.push_str(&r);
            if full_run {
                // An update over the damaged copy: must end in a correct
                // copy, a reported failure, or a reported error.
                rrdp.install(&Some(bytes.to_vec()));
                alloc::reset();
                c25::FATAL_IS_OUTCOME.with(|x| x.set(true));
                let (mut server, mut truth) = c25::new_server();
                for phase in fixture_history() { for op in phase { c25::apply_srv(&mut server, &mut truth, op); } }
                for op in continuation() { c25::apply_srv(&mut server, &mut truth, op); }
                let r = util::catch(|| c25::client_update(rrdp, &server, &truth, c25::Mode::Faithful))
                    .map_err(|p| ("panic".to_string(), format!("RRDP update over the damaged archive panicked: {p}")))?;
                check_alloc("the RRDP update")?;
                match r {
                    Ok(o) => outcome.push_str(&format!(":update={}", o.result)),
                    // Damage in a part of the archive the update did not
                    // touch surfaces as a reported error whenever that part
                    // is read (and the archive is then discarded): allowed.
                    Err((class, _)) if class == "local-copy-unreadable" || class == "object-unreadable" => outcome.push_str(":update=updated-but-damage-remains"),
                    Err((class, msg)) => return Err((format!("update-{class}"), msg)),
                }
                // The same with a server that has nothing new: the answer
                // is Not Modified and only the state record is rewritten,
                // in place and with the same length.
                rrdp.install(&Some(bytes.to_vec()));
                alloc::reset();
                let (mut server, mut truth) = c25::new_server();
                for phase in fixture_history() { for op in phase { c25::apply_srv(&mut server, &mut truth, op); } }
                let r = util::catch(|| c25::client_update(rrdp, &server, &truth, c25::Mode::Faithful))
                    .map_err(|p| ("panic".to_string(), format!("RRDP update (nothing new on the server) over the damaged archive panicked: {p}")))?;
                check_alloc("the RRDP update with nothing new")?;
                match r {
                    Ok(o) => outcome.push_str(&format!(":unchanged={}", o.result)),
                    Err((class, _)) if class == "local-copy-unreadable" || class == "object-unreadable" => outcome.push_str(":unchanged=damage-remains"),
                    // Not Modified leaves a damaged session or serial in the
                    // state record as it is; what counts is that the objects
                    // are the server's (the next change brings a new snapshot)
                    Err((class, msg)) if class == "unknown-version" => {
                        let intact = c25::read_local(&rrdp.path).ok().flatten().map(|l| {
                            let mine: std::collections::BTreeMap<String, Vec<u8>> = l.objects.into_iter().filter(|(k, _)| k.contains("/m/o")).collect();
                            mine == server.objects
                        }).unwrap_or(false);
                        if !intact { return Err((format!("update-{class}"), msg)) }
                        outcome.push_str(":unchanged=state-record-damaged-objects-intact");
                    }
                    Err((class, msg)) => return Err((format!("update-{class}"), msg)),
                }
            }
        }
    }
    Ok(outcome)
}

/// `rtv --aux c27-worker <fixture dir> <artefact> <from> <to> <thorough> <full every> <out>`
pub fn aux_worker(args: &[String]) -> i32 {
    util::quiet_panics();
    unsafe {
        let lim = libc::rlimit { rlim_cur: 8 << 30, rlim_max: 8 << 30 };
        libc::setrlimit(libc::RLIMIT_AS, &lim);
    }
    let dir = PathBuf::from(&args[0]);
    let name = args[1].as_str();
    let from: usize = args[2].parse().unwrap();
    let to: usize = args[3].parse().unwrap();
    let thorough = args[4] == "1";
    let full_every: usize = args[5].parse().unwrap();
    let out = PathBuf::from(&args[6]);
    let crumb = PathBuf::from(format!("{}.crumb", args[6]));
    // private copy of the fixture
    let mine = dir.join(format!("w-{}-{}", name, from));
    let _ = fs::remove_dir_all(&mine);
    copy_tree(&dir.join("fixture"), &mine.join("fixture"));
    let rel = |p: &Path| mine.join("fixture").join(p.strip_prefix(dir.join("fixture")).unwrap());
    let fx = read_fixture_paths(&dir);
    let f = Fixture { dir: mine.join("fixture"), point_path: rel(&fx.point_path), status_path: rel(&fx.status_path), archive_path: rel(&fx.archive_path) };
    let base = fs::read(artefact_path(&fx, name)).expect("artefact");
    let rrdp = c25::Worker::new(&mine.join("rrdp"), None);
    init_archive(&fx.archive_path);
    let all = variants(name, &base, thorough);
    let mut outcomes: std::collections::BTreeMap<String, u64> = Default::default();
    let mut violations: Vec<Value> = Vec::new();
    let mut per_class: std::collections::BTreeMap<String, usize> = Default::default();
    for i in from..to {
        let Some(kind) = all.get(i) else { break };
        let (bytes, desc, pos) = apply(&base, kind);
        let _ = fs::write(&crumb, format!("{i}"));
        // the update over the damaged copy: always where the damage sits in
        // the objects or in an occupied index entry, else every n-th
        let structural = name == "archive" && pos.map(|p| p >= BODY_START || (p >= INDEX_START && u64_at(&base, p - (p - INDEX_START) % 8) != 0)).unwrap_or(false);
        let full = full_every <= 1 || i % full_every == 0 || structural;
        match exercise(&f, name, &bytes, &rrdp, full) {
            Ok(o) => { *outcomes.entry(o).or_insert(0) += 1; }
            Err((class, msg)) if class == "harness" => { eprintln!("machinery error: {msg}"); return 2 }
            Err((class, msg)) => {
                *outcomes.entry(format!("VIOLATION:{class}")).or_insert(0) += 1;
                // a few of every class (a flood of one class must not hide another)
                let seen = per_class.entry(format!("{class}{}", region_of(name, pos))).or_insert(0usize);
                *seen += 1;
                if *seen <= 4 { violations.push(json!({"index": i, "class": class, "what": format!("{name}, {desc}: {msg}")})); }
            }
        }
    }
    let _ = fs::write(&out, serde_json::to_vec(&json!({"outcomes": outcomes, "violations": violations})).unwrap());
    let _ = fs::remove_dir_all(&mine);
    0
}

fn copy_tree(src: &Path, dst: &Path) {
    fs::create_dir_all(dst).unwrap();
    for e in fs::read_dir(src).unwrap() {
        let e = e.unwrap();
        let to = dst.join(e.file_name());
        if e.file_type().unwrap().is_dir() { copy_tree(&e.path(), &to) } else { fs::copy(e.path(), &to).unwrap(); }
    }
}

fn write_fixture_paths(dir: &Path, f: &Fixture) {
    fs::write(dir.join("fixture.json"), serde_json::to_vec(&json!({
        "point": f.point_path, "status": f.status_path, "archive": f.archive_path
    })).unwrap()).unwrap();
}

fn read_fixture_paths(dir: &Path) -> Fixture {
    let v: Value = serde_json::from_slice(&fs::read(dir.join("fixture.json")).unwrap()).unwrap();
    Fixture { dir: dir.join("fixture"), point_path: v["point"].as_str().unwrap().into(),
        status_path: v["status"].as_str().unwrap().into(), archive_path: v["archive"].as_str().unwrap().into() }
}

//------------ Driver --------------------------------------------------------

pub fn run(ctx: &Ctx) -> Report {
    util::quiet_panics();
    let mut rep = Report::new("exploration");
    let thorough = ctx.tier.thorough();
    let dir = ctx.scratch.clone();
    let f = build_fixture(&dir);
    write_fixture_paths(&dir, &f);
    rep.rule = "artefacts: a stored publication point file (manifest, CRL, \
        two ROAs) and the store status file produced by a real validation \
        run, and an RRDP archive (state record, objects published, replaced \
        and withdrawn over two real updates); variants: every truncation \
        length, every single-byte substitution with 4 values (thorough 11) \
        per position, a few whole-file replacements, every 8-byte window \
        set to all-ones / all-zeros and every 4-byte window set to \
        all-ones (whole length and pointer fields at once; in the \
        archive's bucket index whole entries only), and in the archive \
        every pointer field (occupied index entries, every chain link) \
        set to every other object's start, its own object, 0 and the end \
        of the file (cycles, cross-links, self-links); the archive fixture \
        holds a hole left by a withdrawn three-page object, an object \
        replaced in place and two objects sharing a hash bucket; each variant is \
        read through StoredPoint::load_quietly + iteration, Store::status, \
        RrdpArchive::verify / open / load_state / objects / load_object \
        (present names and one absent name per occupied bucket), \
        and (every variant in thorough; in quick every 4th, and every \
        variant that touches the archive's objects or an occupied index \
        entry) a full offline validation run resp. a real RRDP update over \
        it (three deltas: a publish fitting the hole exactly, a publish \
        into a shared bucket, a withdrawal from a shared chain) and one \
        against an unchanged server (Not Modified: the state record is \
        rewritten in place); worker processes \
        with an 8 GiB address-space cap, per-thread largest-allocation \
        tracking and a hang horizon; oracle: no panic, no abort, no hang, \
        no single allocation above 64 MiB + 16 x file size, an update \
        reported successful over a damaged archive yields the server's \
        content; non-trivial = variants that the reader did not reject \
        outright".into();
    let exe = std::env::current_exe().unwrap();
    let full_every = if thorough { 1 } else { 4 };
    let workers_per = 5;
    let mut total = 0usize;
    for name in ARTEFACTS {
        let base = fs::read(artefact_path(&f, name)).expect("artefact");
        let n = variants(name, &base, thorough).len();
        total += n;
        rep.extra.insert(format!("{name}_bytes"), json!(base.len()));
        rep.extra.insert(format!("{name}_variants"), json!(n));
        // ranges still to do: (from, to)
        let per = n.div_ceil(workers_per);
        let mut pending: Vec<(usize, usize)> = (0..workers_per).map(|w| (w * per, ((w + 1) * per).min(n))).filter(|r| r.0 < r.1).collect();
        let mut round = 0;
        while !pending.is_empty() {
            round += 1;
            if round > 400 { rep.capped = Some(format!("{name}: more than 400 worker restarts")); break }
            let mut children = Vec::new();
            for (from, to) in pending.drain(..) {
                let out = dir.join(format!("out-{name}-{from}.json"));
                let _ = fs::remove_file(&out);
                let _ = fs::remove_file(format!("{}.crumb", out.display()));
                let child = std::process::Command::new(&exe)
                    .arg("--aux").arg("c27-worker").arg(&dir).arg(name)
                    .arg(from.to_string()).arg(to.to_string()).arg(if thorough { "1" } else { "0" })
                    .arg(full_every.to_string()).arg(&out)
                    .spawn().expect("spawn worker");
                children.push((child, from, to, out, Instant::now(), 0usize, Instant::now()));
            }
            // wait, watching the breadcrumbs for hangs
            let mut next: Vec<(usize, usize)> = Vec::new();
            while !children.is_empty() {
                std::thread::sleep(Duration::from_millis(50));
                let mut still = Vec::new();
                for (mut child, from, to, out, started, mut last_crumb, mut last_change) in children.drain(..) {
                    let crumb_path = format!("{}.crumb", out.display());
                    let crumb: Option<usize> = fs::read_to_string(&crumb_path).ok().and_then(|s| s.trim().parse().ok());
                    if let Some(c) = crumb { if c != last_crumb { last_crumb = c; last_change = Instant::now(); } }
                    match child.try_wait().unwrap() {
                        Some(st) if st.success() => {
                            let v: Value = serde_json::from_slice(&fs::read(&out).unwrap_or_default()).unwrap_or(json!({}));
                            if let Some(o) = v["outcomes"].as_object() {
                                for (k, n) in o {
                                    let n = n.as_u64().unwrap_or(0);
                                    rep.evaluations += n;
                                    if !(k.starts_with("rejected") || k.starts_with("status:Err") || k.starts_with("verify=false:open-error")) { rep.nontrivial += n }
                                    *rep.outcomes.entry(format!("{name}:{}", shorten(k))).or_insert(0) += n;
                                }
                            }
                            for x in v["violations"].as_array().cloned().unwrap_or_default() {
                                let class = x["class"].as_str().unwrap_or("").to_string();
                                let class = format!("{class}{}", region(name, &base, x["index"].as_u64().unwrap_or(0) as usize, thorough));
                                rep.violation(format!("corrupt:{name}:{class}"), x["what"].as_str().unwrap_or("").to_string(),
                                    json!({"artefact": name, "index": x["index"], "thorough": thorough}));
                            }
                        }
                        Some(st) => {
                            if st.code() == Some(2) { eprintln!("machinery error: C27 worker reported a harness failure"); std::process::exit(2) }
                            // died: the variant in the breadcrumb killed it
                            let Some(c) = crumb else { eprintln!("machinery error: C27 worker died without breadcrumb: {st}"); std::process::exit(2) };
                            let desc = variant(name, &base, c, thorough).map(|x| x.1).unwrap_or_default();
                            rep.evaluations += 1;
                            *rep.outcomes.entry(format!("{name}:VIOLATION:crash")).or_insert(0) += 1;
                            rep.violation(format!("corrupt:{name}:crash"), format!("{name}, {desc}: the process died ({st}) reading this variant (abort, e.g. on an allocation beyond the 8 GiB address-space cap, or a crash)"),
                                json!({"artefact": name, "index": c, "thorough": thorough}));
                            // the part before the crash is lost with the worker's report: redo it, and go on after it
                            if from < c { next.push((from, c)); }
                            if c + 1 < to { next.push((c + 1, to)); }
                        }
                        None => {
                            if last_change.elapsed() > Duration::from_secs(20) {
                                let _ = child.kill(); let _ = child.wait();
                                let c = last_crumb;
                                let desc = variant(name, &base, c, thorough).map(|x| x.1).unwrap_or_default();
                                rep.evaluations += 1;
                                *rep.outcomes.entry(format!("{name}:VIOLATION:hang")).or_insert(0) += 1;
                                rep.violation(format!("corrupt:{name}:hang"), format!("{name}, {desc}: no progress for 20 s reading this variant"),
                                    json!({"artefact": name, "index": c, "thorough": thorough}));
                                if from < c { next.push((from, c)); }
                                if c + 1 < to { next.push((c + 1, to)); }
                            }
                            else { still.push((child, from, to, out, started, last_crumb, last_change)); }
                        }
                    }
                }
                children = still;
            }
            pending = next;
            // do not loop forever on a flood of crashes
            if rep.violations.len() >= 150 { rep.capped = Some("more than 150 violations, remaining ranges skipped".into()); break }
        }
    }
    rep.bound = format!("{total} variants over {} artefacts (complete truncation, single-byte, field-window and archive-pointer enumeration)", ARTEFACTS.len());
    rep.sample(json!({"artefact": "point", "index": 7, "meaning": "stored point truncated to 7 bytes"}));
    rep.assumptions.push("single-deviation corruption (one truncation or one substituted byte) plus a few whole-file replacements; allocation tracking is per thread of the harness (worker threads of the validation run included via their own high-water marks only when they run on the calling thread)".into());
    rep
}

/// The part of the file a substitution variant touches (archives only):
/// part of the finding's identity.
fn region(name: &str, base: &[u8], idx: usize, thorough: bool) -> String {
    region_of(name, variant(name, base, idx, thorough).and_then(|x| x.2))
}

fn region_of(name: &str, pos: Option<usize>) -> String {
    if name != "archive" { return String::new() }
    match pos {
        None => String::new(),
        Some(pos) if pos < INDEX_START => ":header".into(),
        Some(pos) if pos < BODY_START => ":bucket-index".into(),
        Some(_) => ":objects".into(),
    }
}

fn shorten(k: &str) -> String {
    // collapse counts so that the outcome table stays small
    let mut s = String::new();
    for part in k.split(':') {
        if !s.is_empty() { s.push(':') }
        if let Some((a, b)) = part.split_once('=') {
            if b.parse::<u64>().is_ok() { s.push_str(&format!("{a}=n")); continue }
        }
        if part.parse::<u64>().is_ok() { s.push('n'); continue }
        s.push_str(part);
    }
    s
}

pub fn replay(ctx: &Ctx, v: &Value) -> Report {
    util::quiet_panics();
    let mut rep = Report::new("exploration");
    let dir = ctx.scratch.clone();
    let f = build_fixture(&dir);
    let name = v["artefact"].as_str().unwrap_or("point").to_string();
    let thorough = v["thorough"].as_bool().unwrap_or(false);
    let idx = v["index"].as_u64().unwrap_or(0) as usize;
    let base = fs::read(artefact_path(&f, &name)).expect("artefact");
    let rrdp = c25::Worker::new(&dir.join("rrdp"), None);
    init_archive(&f.archive_path);
    // {"window": [pos, width, fill]} / {"pointer": [pos, value]} name a variant directly
    let direct = if let Some(w) = v["window"].as_array() {
        Some(apply(&base, &Kind::Window(w[0].as_u64().unwrap() as usize, w[1].as_u64().unwrap() as usize, w[2].as_u64().unwrap() as u8)))
    } else if let Some(w) = v["pointer"].as_array() {
        Some(apply(&base, &Kind::Pointer(w[0].as_u64().unwrap() as usize, w[1].as_u64().unwrap())))
    } else { None };
    if let Some((bytes, desc, _)) = direct.or_else(|| variant(&name, &base, idx, thorough)) {
        println!("{name}: {desc}");
        match exercise(&f, &name, &bytes, &rrdp, true) {
            Ok(o) => println!("outcome {o}"),
            Err((class, msg)) => rep.violation(format!("corrupt:{name}:{class}"), msg, v.clone()),
        }
    }
    rep.evaluations = 1; rep.nontrivial = 2;
    rep.sample(v.clone());
    rep
}
