//! C09 Served data set is the documented composition of validated payload.

use std::collections::{BTreeMap, BTreeSet};
use std::net::Ipv4Addr;
use rpki::resources::Asn;
use rpki::rtr::payload::{Payload, RouteOrigin};
use rpki::rtr::pdu::ProviderAsns;
use routinator::config::FilterPolicy;
use routinator::slurm::LocalExceptions;
use serde_json::{json, Value};
use crate::data;
use crate::etree::{self, Case};
use crate::report::{Ctx, Report};
use crate::rpkigen::{Builder, CaSpec, Gen, Image, ObjKind, ObjSpec, PointFault, Stale, TalSpec, TreeSpec};
use crate::util;

const BIG_A: u32 = 70000;   // customer whose union has MAX_COUNT + 1 providers
const BIG_B: u32 = 70001;   // customer whose union has exactly MAX_COUNT

fn tree() -> TreeSpec {
    let mut ta = CaSpec::new("ta0", 0, "ta0.example", "repo");
    ta.v4 = vec![(Ipv4Addr::new(0, 0, 0, 0), 0)];
    ta.v6 = vec![("::".parse().unwrap(), 0)];
    ta.asns = vec![(0, u32::MAX)];
    let max = ProviderAsns::MAX_COUNT as u32;
    let half = max / 2;
    ta.objs = vec![
        ObjSpec::roa("dup1", 64496, "10.0.0.0", 16, 16),
        ObjSpec::roa("dup2", 64496, "10.0.0.0", 16, 16),       // same VRP again
        ObjSpec::roa("sameprefix", 64497, "10.0.0.0", 16, 16),  // same prefix, other AS
        ObjSpec::roa("v4at", 64496, "10.1.0.0", 24, 24),
        ObjSpec::roa("v4over", 64496, "10.1.0.0", 25, 25),
        ObjSpec::roa("v4maxonly", 64496, "10.2.0.0", 24, 32),   // length at limit, max-length beyond
        ObjSpec::roa("v6at", 64496, "2001:db8:1::", 48, 48),
        ObjSpec::roa("v6over", 64496, "2001:db8:2::", 49, 64),
        ObjSpec::roa("unsafe", 64496, "10.9.1.0", 24, 24),      // inside the rejected CA's resources below
        ObjSpec::roa("unsafecover", 64496, "10.8.0.0", 15, 15), // covers them (and 10.8/16)
        ObjSpec::aspa("aspa1", 64500, &[1, 2]),
        ObjSpec::aspa("aspa2", 64500, &[2, 3]),                 // same customer
        ObjSpec::aspa("bigA1", BIG_A, &(1..=half + 1).collect::<Vec<_>>()),
        ObjSpec::aspa("bigA2", BIG_A, &(half + 1..=max + 1).collect::<Vec<_>>()),
        ObjSpec::aspa("bigB1", BIG_B, &(1..=half).collect::<Vec<_>>()),
        ObjSpec::aspa("bigB2", BIG_B, &(half..=max).collect::<Vec<_>>()),
        ObjSpec::router("rk", 64496, 0),
        // one router certificate for three AS numbers
        ObjSpec { name: "rkm".into(), kind: ObjKind::RouterMulti(vec![64520, 64521, 64522], 1), fault: None, not_after: None },
    ];
    let mut rej = CaSpec::new("rej", 1, "rej.example", "repo");
    rej.v4 = vec![(Ipv4Addr::new(10, 9, 0, 0), 16)];
    rej.asns = vec![(64510, 64510)];
    rej.point_fault = Some(PointFault::NoManifest);
    ta.children.push(rej);
    let mut tb = CaSpec::new("tb0", 3, "tb0.example", "repo");
    tb.v4 = vec![(Ipv4Addr::new(0, 0, 0, 0), 0)];
    tb.asns = vec![(0, u32::MAX)];
    tb.objs = vec![
        ObjSpec::roa("dupacross", 64496, "10.0.0.0", 16, 16),   // same VRP under another TAL
        ObjSpec::roa("onlyb", 64498, "10.3.0.0", 16, 16),
        ObjSpec::aspa("aspa3", 64500, &[9]),                    // same customer across TALs
        ObjSpec::router("rk2", 64496, 0),                       // same key again
        // overlaps the other TAL's certificate in one number
        ObjSpec { name: "rkm2".into(), kind: ObjKind::RouterMulti(vec![64522, 64523], 1), fault: None, not_after: None },
    ];
    TreeSpec { tals: vec![
        TalSpec { name: "alpha".into(), ta_uri: "rsync://ta0.example/repo/ta0.cer".into(), ca: ta, wrong_key: false, https_uri: None },
        TalSpec { name: "beta".into(), ta_uri: "rsync://tb0.example/repo/tb0.cer".into(), ca: tb, wrong_key: false, https_uri: None },
    ]}
}

#[derive(Clone, Copy, Debug, Eq, PartialEq)]
pub enum Slurm { None, PrefixFilter, AsnFilter, DupAssertion, NewAssertion, FilterAndAssertion, KeyFilterAsn, KeyFilterSkiAsn, KeyFilterSki }
const SLURMS: [Slurm; 9] = [Slurm::None, Slurm::PrefixFilter, Slurm::AsnFilter, Slurm::DupAssertion, Slurm::NewAssertion, Slurm::FilterAndAssertion,
    Slurm::KeyFilterAsn, Slurm::KeyFilterSkiAsn, Slurm::KeyFilterSki];

/// The AS numbers the key filters name: the lowest and the middle one of
/// the three-number router certificate.
const KEY_FILTER_ASN: u32 = 64520;
const KEY_FILTER_SKI_ASN: u32 = 64521;

/// The key identifier (SLURM spelling) of the router key published for `asn`.
fn ski_of(image: &Image, asn: u32) -> (rpki::crypto::KeyIdentifier, String) {
    use base64::Engine;
    for t in &image.truth {
        if let Payload::RouterKey(k) = &t.payload {
            if k.asn == Asn::from_u32(asn) {
                return (k.key_identifier, base64::engine::general_purpose::URL_SAFE_NO_PAD.encode(k.key_identifier.as_slice()))
            }
        }
    }
    panic!("no router key for AS{asn}")
}

#[derive(Clone, Debug)]
pub struct Opt { pub v4: Option<u8>, pub v6: Option<u8>, pub unsafe_vrps: FilterPolicy, pub bgpsec: bool, pub aspa: bool, pub slurm: Slurm }

fn slurm_json(s: Slurm, image: &Image) -> String {
    let kf = match s {
        Slurm::KeyFilterAsn => format!(r#"{{"asn": {KEY_FILTER_ASN}}}"#),
        Slurm::KeyFilterSkiAsn => format!(r#"{{"SKI": "{}", "asn": {KEY_FILTER_SKI_ASN}}}"#, ski_of(image, KEY_FILTER_SKI_ASN).1),
        Slurm::KeyFilterSki => format!(r#"{{"SKI": "{}"}}"#, ski_of(image, 64496).1),
        _ => String::new()
    };
    let (pf, pa, ba) = match s {
        Slurm::None | Slurm::KeyFilterAsn | Slurm::KeyFilterSkiAsn | Slurm::KeyFilterSki => ("", "", ""),
        Slurm::PrefixFilter => (r#"{"prefix": "10.3.0.0/16", "asn": 64498}"#, "", ""),
        Slurm::AsnFilter => (r#"{"asn": 64497}"#, "", ""),
        Slurm::DupAssertion => ("", r#"{"asn": 64496, "prefix": "10.0.0.0/16", "maxPrefixLength": 16}"#, ""),
        Slurm::NewAssertion => ("", r#"{"asn": 65550, "prefix": "203.0.113.0/30", "maxPrefixLength": 32}"#,
            r#"{"asn": 65551, "SKI": "AQIDBAUGBwgJCgsMDQ4PEBESExQ", "routerPublicKey": "a2V5Ynl0ZXM"}"#),
        Slurm::FilterAndAssertion => (r#"{"prefix": "10.3.0.0/16"}"#, r#"{"asn": 64498, "prefix": "10.3.0.0/16", "maxPrefixLength": 16}"#, ""),
    };
    format!(r#"{{"slurmVersion": 1, "validationOutputFilters": {{"prefixFilters": [{pf}], "bgpsecFilters": [{kf}]}},
        "locallyAddedAssertions": {{"prefixAssertions": [{pa}], "bgpsecAssertions": [{ba}]}}}}"#)
}

pub fn options() -> Vec<Opt> {
    let mut res = Vec::new();
    for v4 in [None, Some(24u8)] { for v6 in [None, Some(48u8)] {
        for unsafe_vrps in [FilterPolicy::Reject, FilterPolicy::Warn, FilterPolicy::Accept] {
            for bgpsec in [true, false] { for aspa in [true, false] { for slurm in SLURMS {
                res.push(Opt { v4, v6, unsafe_vrps, bgpsec, aspa, slurm });
            }}}
        }
    }}
    res
}

/// The reference: the statement's set algebra over what was published.
type KeyTriple = (u32, Vec<u8>, Vec<u8>);

fn expected(image: &Image, o: &Opt) -> (BTreeSet<RouteOrigin>, BTreeSet<KeyTriple>, BTreeMap<u32, BTreeSet<u32>>) {
    let mut origins = BTreeSet::new();
    let mut keys = BTreeSet::new();
    let mut aspas: BTreeMap<u32, BTreeSet<u32>> = BTreeMap::new();
    for t in &image.truth {
        match &t.payload {
            Payload::Origin(or) => {
                let len = or.prefix.prefix_len();
                let limit = if or.is_v4() { o.v4 } else { o.v6 };
                if limit.map(|l| len > l).unwrap_or(false) { continue }
                if t.obj.starts_with("unsafe") && matches!(o.unsafe_vrps, FilterPolicy::Reject) { continue }
                let drop = match o.slurm {
                    Slurm::PrefixFilter => *or == data::v4(10, 3, 0, 0, 16, 16, 64498),
                    Slurm::AsnFilter => or.asn == Asn::from_u32(64497),
                    Slurm::FilterAndAssertion => *or == data::v4(10, 3, 0, 0, 16, 16, 64498),
                    _ => false
                };
                if drop { continue }
                origins.insert(*or);
            }
            Payload::RouterKey(k) => if o.bgpsec {
                let drop = match o.slurm {
                    Slurm::KeyFilterAsn => k.asn == Asn::from_u32(KEY_FILTER_ASN),
                    Slurm::KeyFilterSkiAsn => k.asn == Asn::from_u32(KEY_FILTER_SKI_ASN) && k.key_identifier == ski_of(image, KEY_FILTER_SKI_ASN).0,
                    Slurm::KeyFilterSki => k.key_identifier == ski_of(image, 64496).0,
                    _ => false
                };
                if !drop { keys.insert((k.asn.into_u32(), k.key_identifier.as_slice().to_vec(), k.key_info.as_slice().to_vec())); }
            },
            Payload::Aspa(a) => if o.aspa {
                aspas.entry(a.customer.into_u32()).or_default().extend(a.providers.iter().map(|x| x.into_u32()));
            },
        }
    }
    match o.slurm {
        Slurm::DupAssertion => { origins.insert(data::v4(10, 0, 0, 0, 16, 16, 64496)); }
        Slurm::NewAssertion => {
            origins.insert(data::v4(203, 0, 113, 0, 30, 32, 65550));
            keys.insert((65551, (1..=20u8).collect(), b"keybytes".to_vec()));
        }
        Slurm::FilterAndAssertion => { origins.insert(data::v4(10, 3, 0, 0, 16, 16, 64498)); }
        _ => { }
    }
    aspas.retain(|_, p| p.len() <= ProviderAsns::MAX_COUNT);
    (origins, keys, aspas)
}

pub fn run_case(image: &Image, dir: std::path::PathBuf, o: &Opt) -> Result<String, (String, String)> {
    let case = Case::new(dir);
    case.publish(image);
    case.write_tals(image);
    let mut config = case.config();
    config.limit_v4_len = o.v4;
    config.limit_v6_len = o.v6;
    config.unsafe_vrps = o.unsafe_vrps;
    config.enable_bgpsec = o.bgpsec;
    config.enable_aspa = o.aspa;
    let exc = LocalExceptions::from_json(&slurm_json(o.slurm, image), true)
        .map_err(|e| ("slurm".to_string(), e.to_string()))?;
    let out = etree::run(&config, false, &exc).map_err(|e| ("run-failed".to_string(), e))?;
    if let Some(d) = out.duplicate {
        return Err(("duplicate-item".into(), format!("{o:?}: {d}")))
    }
    // what is handed to routers is the snapshot's content, each item once
    out.served_matches().map_err(|e| ("served-differs-from-snapshot".to_string(), format!("{o:?}: {e}")))?;
    let (eo, ek, ea) = expected(image, o);
    if out.data.origins != eo {
        let extra: Vec<String> = out.data.origins.difference(&eo).map(data::fmt_origin).collect();
        let missing: Vec<String> = eo.difference(&out.data.origins).map(data::fmt_origin).collect();
        let class = if !extra.is_empty() { "origin-should-be-filtered" } else { "origin-missing" };
        return Err((class.into(), format!("{o:?}: extra origins {extra:?}, missing {missing:?}")))
    }
    let gk: BTreeSet<KeyTriple> = out.data.keys.iter().map(|k| {
        (k.asn.into_u32(), k.key_identifier.as_slice().to_vec(), k.key_info.as_slice().to_vec())
    }).collect();
    if gk != ek || out.data.keys.len() != ek.len() {
        let fmt = |s: &BTreeSet<KeyTriple>| s.iter().map(|k| format!("AS{}/{:02x}{:02x}", k.0, k.1[0], k.1[1])).collect::<Vec<_>>();
        return Err(("router-keys".into(), format!("{o:?}: router keys served {:?}, expected {:?}", fmt(&gk), fmt(&ek))))
    }
    let ga: BTreeMap<u32, BTreeSet<u32>> = out.data.aspas.iter().map(|(c, p)| {
        (c.into_u32(), p.iter().map(|x| x.into_u32()).collect())
    }).collect();
    if ga != ea {
        let detail: Vec<String> = ga.iter().map(|(c, p)| format!("{c}:{}", p.len())).collect();
        let want: Vec<String> = ea.iter().map(|(c, p)| format!("{c}:{}", p.len())).collect();
        let class = if ga.contains_key(&BIG_A) { "oversized-aspa-served" }
            else if ea.contains_key(&BIG_B) && !ga.contains_key(&BIG_B) { "max-size-aspa-dropped" } else { "aspa-merge" };
        return Err((class.into(), format!("{o:?}: ASPAs (customer:providers) {detail:?}, expected {want:?}")))
    }
    let _ = std::fs::remove_dir_all(&case.dir);
    Ok(format!("origins={} keys={} aspas={}", eo.len(), ek.len(), ea.len()))
}

pub fn run(ctx: &Ctx) -> Report {
    util::quiet_panics();
    let gen = Gen::load();
    let mut rep = Report::new("exploration");
    let image = Builder::new(&gen, Stale::Reject).build(&tree());
    let opts = options();
    let opts: Vec<Opt> = if ctx.tier.thorough() { opts } else {
        // quick: every single deviation from the default plus every slurm x unsafe x limit pair
        opts.into_iter().filter(|o| {
            (o.bgpsec && o.aspa) || (o.slurm == Slurm::None && o.v4.is_none() && o.v6.is_none())
        }).collect()
    };
    let _ = ObjKind::Aspa(0, vec![]);
    rep.rule = "one rich tree: the same VRP in two ROAs and under two TALs, \
        same prefix with another AS, IPv4 /24 and /25 and IPv6 /48 and /49 \
        around the limits (incl. a /24 with max-length 32), a VRP \
        overlapping a rejected CA, three ASPAs for one customer across two \
        TALs, a customer whose provider union is MAX_COUNT+1 and one with \
        exactly MAX_COUNT, the same router key twice; x option product \
        {limit-v4 none/24} x {limit-v6 none/48} x unsafe-vrps x bgpsec x \
        aspa x SLURM {none, prefix filter, asn filter, assertion \
        duplicating a VRP, new origin+key assertions, filter matching its \
        own assertion}; oracle: the statement's set algebra over the \
        published items; every item exactly once; non-trivial = all".into();
    rep.bound = format!("{} option combinations{}", opts.len(), if ctx.tier.thorough() { " (full product)" } else { "" });
    let threads = std::env::var("ETREE_THREADS").ok().and_then(|s| s.parse().ok()).unwrap_or(8);
    let res = util::par_map(opts.len() as u64, threads, |i| {
        util::catch(|| run_case(&image, ctx.scratch.join(format!("c{i}")), &opts[i as usize]))
            .unwrap_or_else(|p| Err(("panic".into(), p)))
    });
    for (i, r) in res.into_iter().enumerate() {
        rep.evaluations += 1; rep.nontrivial += 1;
        match r {
            Ok(o) => rep.outcome(o),
            Err((class, msg)) => {
                rep.outcome(format!("VIOLATION:{class}"));
                rep.violation(format!("compose:{class}"), msg, json!({"opt": format!("{:?}", opts[i])}));
            }
        }
    }
    rep.sample(json!({"opt": "limit-v4=24 limit-v6=48 unsafe=reject bgpsec aspa slurm=FilterAndAssertion"}));
    rep
}

pub fn replay(ctx: &Ctx, v: &Value) -> Report {
    let gen = Gen::load();
    let mut rep = Report::new("exploration");
    let image = Builder::new(&gen, Stale::Reject).build(&tree());
    let want = v["opt"].as_str().unwrap();
    for o in options() {
        if format!("{o:?}") == want {
            let r = run_case(&image, ctx.scratch.join("replay"), &o);
            println!("{o:?}: {r:?}");
            if let Err((class, msg)) = r { rep.violation(format!("compose:{class}"), msg, v.clone()); }
        }
    }
    rep.evaluations = 1; rep.nontrivial = 2;
    rep.sample(v.clone());
    rep
}
