//! C12 Merged deltas equal the direct delta.
//!
//! Exhaustive: all sequences of data sets up to a length, per payload type
//! and over a combined universe; the left fold of `merge` over consecutive
//! `construct`s is compared with the direct `construct(first, last)`.

use rpki::rtr::payload::{Action, Payload};
use routinator::payload::{PayloadDelta, PayloadSnapshot};
use serde_json::{json, Value};
use crate::data::{self, DataSet};
use crate::report::{Ctx, Report};
use crate::util;
use super::c11::delta_actions;

pub fn universes() -> Vec<(&'static str, Vec<DataSet>)> {
    let o = data::origin_universe();
    let k = data::key_universe();
    let combined = {
        // 3 origin sets x 2 key sets x 4 ASPA states of one customer
        let mut res = Vec::new();
        for os in [vec![], vec![0usize], vec![0, 1]] {
            for ks in [vec![], vec![0usize]] {
                for a in data::aspa_choices(10) {
                    let mut ds = DataSet::default();
                    for i in &os { ds.origins.insert(o[*i]); }
                    for i in &ks { ds.keys.insert(k[*i].clone()); }
                    if let Some(a) = a {
                        ds.aspas.insert(a.customer, a.providers);
                    }
                    res.push(ds);
                }
            }
        }
        res
    };
    vec![
        ("origins", data::all_sets(&o, &[], &[])),
        ("router-keys", data::all_sets(&[], &k, &[])),
        ("aspas", data::all_sets(&[], &[], &[10, 20])),
        ("combined", combined),
    ]
}

struct Space<'a> {
    sets: &'a [DataSet],
    /// deltas[i][j] = construct(i, j)
    deltas: Vec<Vec<Option<PayloadDelta>>>,
    /// direct[i][j] = actions of construct(i, j) (empty when None)
    direct: Vec<Vec<Vec<(Payload, Action)>>>,
}

#[derive(Default)]
struct Acc {
    sequences: u64,
    nontrivial: u64,
    merges: u64,
    viol: Vec<(Vec<usize>, String, String)>,
    cancel: u64,
}

fn check_merged(
    sp: &Space, seq: &[usize], merged: Option<&PayloadDelta>, acc: &mut Acc
) {
    let first = seq[0];
    let last = *seq.last().unwrap();
    let got = merged.map(delta_actions).unwrap_or_default();
    let want = &sp.direct[first][last];
    if &got != want {
        acc.viol.push((seq.to_vec(), "actions".into(), format!(
            "merged {:?} != direct {:?}",
            data::fmt_actions(&got), data::fmt_actions(want)
        )));
        return
    }
    if let Some(m) = merged {
        let ann = got.iter().filter(|x| x.1.is_announce()).count();
        if m.announce_len() != ann || m.withdraw_len() != got.len() - ann {
            acc.viol.push((seq.to_vec(), "counts".into(), format!(
                "merged announce_len/withdraw_len {}/{} but actions {}/{}",
                m.announce_len(), m.withdraw_len(), ann, got.len() - ann
            )));
            return
        }
        if m.is_empty() != got.is_empty() {
            acc.viol.push((seq.to_vec(), "is-empty".into(),
                "is_empty() disagrees with action list".into()));
            return
        }
        // A client applying the merged delta ends with the last data set.
        let mut applied = sp.sets[first].clone();
        match applied.apply(&got) {
            Err(err) => acc.viol.push((seq.to_vec(), "apply".into(), err)),
            Ok(()) => if applied != sp.sets[last] {
                acc.viol.push((seq.to_vec(), "apply-result".into(), format!(
                    "first + merged = {} but last = {}",
                    applied.describe(), sp.sets[last].describe()
                )))
            }
        }
    }
}

fn dfs(
    sp: &Space, seq: &mut Vec<usize>, merged: Option<PayloadDelta>,
    changes: usize, max_len: usize, acc: &mut Acc
) {
    if seq.len() >= 2 {
        acc.sequences += 1;
        // non-trivial: at least two real deltas were merged
        if changes >= 2 {
            acc.nontrivial += 1;
            if sp.direct[seq[0]][*seq.last().unwrap()].is_empty() {
                acc.cancel += 1;
            }
        }
        check_merged(sp, seq, merged.as_ref(), acc);
        if acc.viol.len() > 50 { return }
    }
    if seq.len() == max_len { return }
    let cur = *seq.last().unwrap();
    for next in 0..sp.sets.len() {
        let (m, ch) = match (&merged, &sp.deltas[cur][next]) {
            (m, None) => (m.clone(), changes),
            (None, Some(d)) => (Some(d.clone()), changes + 1),
            (Some(m), Some(d)) => {
                acc.merges += 1;
                match util::catch(|| m.merge(d)) {
                    Ok(x) => (Some(x), changes + 1),
                    Err(err) => {
                        seq.push(next);
                        acc.viol.push((seq.clone(), "panic".into(),
                            format!("merge panicked: {err}")));
                        seq.pop();
                        continue
                    }
                }
            }
        };
        seq.push(next);
        dfs(sp, seq, m, ch, max_len, acc);
        seq.pop();
    }
}

fn build_space(sets: &[DataSet]) -> Space<'_> {
    let snaps: Vec<PayloadSnapshot> = sets.iter().map(|s| s.snapshot()).collect();
    let mut deltas = Vec::new();
    let mut direct = Vec::new();
    for i in 0..sets.len() {
        let mut row = Vec::new();
        let mut drow = Vec::new();
        for j in 0..sets.len() {
            let d = PayloadDelta::construct(&snaps[i], &snaps[j], 0.into());
            drow.push(d.as_ref().map(delta_actions).unwrap_or_default());
            row.push(d);
        }
        deltas.push(row);
        direct.push(drow);
    }
    Space { sets, deltas, direct }
}

fn max_len(name: &str, thorough: bool) -> usize {
    // number of data sets in a sequence (deltas = len - 1)
    match (name, thorough) {
        ("origins", false) => 5, ("origins", true) => 7,
        ("router-keys", false) => 6, ("router-keys", true) => 9,
        ("aspas", false) => 5, ("aspas", true) => 6,
        ("combined", false) => 4, ("combined", true) => 5,
        _ => 4
    }
}

pub fn run(ctx: &Ctx) -> Report {
    util::quiet_panics();
    let mut rep = Report::new("model_checking");
    rep.rule = "every sequence s0..sn of data sets (per payload type and \
        over a combined 24-set universe, consecutive repeats included = \
        no-change runs); fold merge over consecutive construct() results \
        and compare actions (same order), counts and client result with \
        direct construct(s0,sn); non-trivial = at least two non-empty \
        deltas merged".into();
    let mut bounds = Vec::new();
    for (name, sets) in universes() {
        let sp = build_space(&sets);
        let ml = max_len(name, ctx.tier.thorough());
        bounds.push(format!("{name}: {} sets, length<={ml}", sets.len()));
        // parallel over the first two elements
        let n = sets.len();
        let accs = util::par_map((n * n) as u64, util::cores(), |idx| {
            let (a, b) = (idx as usize / n, idx as usize % n);
            let mut acc = Acc::default();
            let mut seq = vec![a, b];
            let (m, ch) = match &sp.deltas[a][b] {
                None => (None, 0), Some(d) => (Some(d.clone()), 1)
            };
            dfs(&sp, &mut seq, m, ch, ml, &mut acc);
            acc
        });
        let mut cancel = 0;
        for acc in accs {
            rep.evaluations += acc.sequences;
            rep.nontrivial += acc.nontrivial;
            rep.transitions += acc.merges;
            cancel += acc.cancel;
            for (seq, class, msg) in acc.viol {
                rep.violation(
                    format!("merge:{name}:{class}"),
                    format!("{}: {}", seq.iter().map(|i| sets[*i].describe())
                        .collect::<Vec<_>>().join(" -> "), msg),
                    json!({"universe": name, "seq": seq})
                );
            }
        }
        rep.states += n as u64;
        rep.extra.insert(format!("cancelling_sequences_{name}"), json!(cancel));
        rep.outcome(format!("{name}:explored"));
    }
    rep.traces = rep.evaluations;
    rep.bound = bounds.join("; ");
    // samples
    let us = universes();
    let (name, sets) = &us[2];
    let sp = build_space(sets);
    for seq in [vec![0usize, 1, 2, 0], vec![5, 9, 5, 3], vec![15, 0, 15]] {
        let mut m: Option<PayloadDelta> = None;
        for w in seq.windows(2) {
            if let Some(d) = &sp.deltas[w[0]][w[1]] {
                m = Some(match m { None => d.clone(), Some(m) => m.merge(d) });
            }
        }
        rep.sample(json!({
            "universe": name,
            "sequence": seq.iter().map(|i| sets[*i].describe()).collect::<Vec<_>>(),
            "merged": m.as_ref().map(|m| data::fmt_actions(&delta_actions(m))),
            "direct": data::fmt_actions(&sp.direct[seq[0]][*seq.last().unwrap()]),
        }));
    }
    rep.assumptions.push("the three per-type deltas are merged field-wise \
        independently (checked by the combined universe)".into());
    rep
}

pub fn replay(_ctx: &Ctx, v: &Value) -> Report {
    let mut rep = Report::new("model_checking");
    let name = v["universe"].as_str().unwrap();
    let seq: Vec<usize> = v["seq"].as_array().unwrap().iter().map(|x| {
        x.as_u64().unwrap() as usize
    }).collect();
    let us = universes();
    let (_, sets) = us.iter().find(|u| u.0 == name).unwrap();
    let sp = build_space(sets);
    let mut m: Option<PayloadDelta> = None;
    for w in seq.windows(2) {
        println!("{} -> {}: {:?}", sets[w[0]].describe(), sets[w[1]].describe(),
            sp.deltas[w[0]][w[1]].as_ref().map(|d| data::fmt_actions(&delta_actions(d))));
        if let Some(d) = &sp.deltas[w[0]][w[1]] {
            m = Some(match m { None => d.clone(), Some(m) => m.merge(d) });
        }
    }
    println!("merged: {:?}", m.as_ref().map(|m| data::fmt_actions(&delta_actions(m))));
    println!("direct: {:?}", data::fmt_actions(&sp.direct[seq[0]][*seq.last().unwrap()]));
    let mut acc = Acc::default();
    check_merged(&sp, &seq, m.as_ref(), &mut acc);
    for (seq, class, msg) in acc.viol {
        rep.violation(format!("merge:{name}:{class}"), msg, json!({"universe": name, "seq": seq}));
    }
    rep.evaluations = 1; rep.states = 1; rep.transitions = 1; rep.traces = 1;
    rep.sample(v.clone());
    rep
}
