//! C35 Printed configuration reads back identically.
//!
//! Every command line option with its edge values: all single deviations
//! from the default and all pairs of deviations. Path: the real clap
//! parsing (`Config::config_args` + `server_args`, `from_arg_matches` with
//! a base config file so `$HOME` is never consulted) -> `Display` -> file
//! -> `from_arg_matches(-c file)`; the two configurations must be equal.

use std::fs;
use std::path::{Path, PathBuf};
use clap::Command;
use routinator::config::Config;
use serde_json::{json, Value};
use crate::report::{Ctx, Report};
use crate::util;

/// An option: (name, is server option, alternatives); an alternative is the
/// list of arguments to add.
struct Opt { name: &'static str, server: bool, alts: Vec<Vec<String>> }

fn a(items: &[&str]) -> Vec<String> { items.iter().map(|s| s.to_string()).collect() }

fn num_alts(flag: &str, values: &[&str]) -> Vec<Vec<String>> {
    values.iter().map(|v| a(&[flag, v])).collect()
}

const U64: [&str; 8] = ["0", "1", "59", "65535", "65536", "4294967296", "9223372036854775807", "18446744073709551615"];
const USIZE: [&str; 7] = ["0", "1", "7", "65535", "65536", "4294967296", "18446744073709551615"];

fn options() -> Vec<Opt> {
    let mut res = Vec::new();
    let mut g = |name: &'static str, alts: Vec<Vec<String>>| res.push(Opt { name, server: false, alts });
    g("repository-dir", vec![a(&["-r", "/abs/cache"]), a(&["-r", "rel/cache"])]);
    g("no-rir-tals", vec![a(&["--no-rir-tals"])]);
    g("tal", vec![a(&["--tal", "ripe"]), a(&["--tal", "ripe", "--tal", "arin"]), a(&["--tal", "nlnetlabs-testbed"])]);
    g("extra-tals-dir", vec![a(&["--extra-tals-dir", "/abs/tals"]), a(&["--extra-tals-dir", "rel/tals"])]);
    g("exceptions", vec![a(&["-x", "/abs/x.json"]), a(&["-x", "rel.json", "--exceptions", "/abs/y.json"])]);
    g("strict", vec![a(&["--strict"])]);
    g("stale", vec![a(&["--stale", "reject"]), a(&["--stale", "warn"]), a(&["--stale", "accept"])]);
    g("unsafe-vrps", vec![a(&["--unsafe-vrps", "reject"]), a(&["--unsafe-vrps", "warn"]), a(&["--unsafe-vrps", "accept"])]);
    g("unknown-objects", vec![a(&["--unknown-objects", "reject"]), a(&["--unknown-objects", "warn"]), a(&["--unknown-objects", "accept"])]);
    g("limit-v4-len", num_alts("--limit-v4-len", &["0", "24", "32"]));
    g("limit-v6-len", num_alts("--limit-v6-len", &["0", "48", "128"]));
    g("allow-dubious-hosts", vec![a(&["--allow-dubious-hosts"])]);
    g("fresh", vec![a(&["--fresh"])]);
    g("disable-rsync", vec![a(&["--disable-rsync"])]);
    g("rsync-command", vec![a(&["--rsync-command", "/usr/local/bin/rsync"]), a(&["--rsync-command", "my rsync"])]);
    g("rsync-timeout", num_alts("--rsync-timeout", &U64));
    g("disable-rrdp", vec![a(&["--disable-rrdp"])]);
    g("rrdp-max-delta-count", num_alts("--rrdp-max-delta-count", &USIZE));
    g("rrdp-max-delta-list-len", num_alts("--rrdp-max-delta-list-len", &USIZE));
    g("rrdp-fallback", vec![a(&["--rrdp-fallback", "never"]), a(&["--rrdp-fallback", "stale"]), a(&["--rrdp-fallback", "new"])]);
    g("rrdp-fallback-time", num_alts("--rrdp-fallback-time", &U64));
    g("rrdp-timeout", num_alts("--rrdp-timeout", &U64));
    g("rrdp-read-timeout", num_alts("--rrdp-read-timeout", &U64));
    g("rrdp-connect-timeout", num_alts("--rrdp-connect-timeout", &U64));
    g("rrdp-tcp-keepalive", num_alts("--rrdp-tcp-keepalive", &U64));
    g("rrdp-local-addr", vec![a(&["--rrdp-local-addr", "192.0.2.1"]), a(&["--rrdp-local-addr", "2001:db8::1"])]);
    g("rrdp-root-cert", vec![a(&["--rrdp-root-cert", "/abs/ca.pem"]), a(&["--rrdp-root-cert", "rel.pem", "--rrdp-root-cert", "/abs/b.pem"])]);
    g("rrdp-proxy", vec![a(&["--rrdp-proxy", "http://proxy.example:8080"]), a(&["--rrdp-proxy", "http://a.example", "--rrdp-proxy", "socks5://b.example:1080"])]);
    g("max-object-size", num_alts("--max-object-size", &U64));
    g("max-ca-depth", num_alts("--max-ca-depth", &USIZE));
    g("enable-bgpsec", vec![a(&["--enable-bgpsec"])]);
    g("enable-aspa", vec![a(&["--enable-aspa"])]);
    g("dirty", vec![a(&["--dirty-repository"])]);
    g("validation-threads", num_alts("--validation-threads", &USIZE));
    g("verbose", vec![a(&["-v"]), a(&["-vv"]), a(&["-vvv"]), a(&["-q"]), a(&["-qq"])]);
    g("syslog", vec![a(&["--syslog"]), a(&["--syslog", "--syslog-facility", "auth"]), a(&["--syslog-facility", "local3"])]);
    g("logfile", vec![a(&["--logfile", "/abs/log"]), a(&["--logfile", "rel.log"]), a(&["--logfile", "-"])]);
    g("log-repository-issues", vec![a(&["--log-repository-issues"])]);
    let mut s = |name: &'static str, alts: Vec<Vec<String>>| res.push(Opt { name, server: true, alts });
    s("refresh", num_alts("--refresh", &U64));
    s("min-refresh", num_alts("--min-refresh", &U64));
    s("retry", num_alts("--retry", &U64));
    s("expire", num_alts("--expire", &U64));
    s("history", num_alts("--history", &USIZE));
    s("rtr", vec![a(&["--rtr", "127.0.0.1:3323"]), a(&["--rtr", "127.0.0.1:3323", "--rtr", "[::1]:3323"])]);
    s("rtr-tls", vec![a(&["--rtr-tls", "127.0.0.1:3324"])]);
    s("http", vec![a(&["--http", "127.0.0.1:8323"]), a(&["--http", "[::]:80", "--http", "0.0.0.0:80"])]);
    s("http-tls", vec![a(&["--http-tls", "127.0.0.1:8443"])]);
    s("systemd-listen", vec![a(&["--systemd-listen"])]);
    s("rtr-tcp-keepalive", num_alts("--rtr-tcp-keepalive", &U64));
    s("rtr-client-metrics", vec![a(&["--rtr-client-metrics"])]);
    s("rtr-tls-key", vec![a(&["--rtr-tls-key", "/abs/key.pem"]), a(&["--rtr-tls-key", "rel-key.pem"])]);
    s("rtr-tls-cert", vec![a(&["--rtr-tls-cert", "/abs/cert.pem"])]);
    s("http-tls-key", vec![a(&["--http-tls-key", "/abs/hkey.pem"])]);
    s("http-tls-cert", vec![a(&["--http-tls-cert", "rel-hcert.pem"])]);
    s("pid-file", vec![a(&["--pid-file", "/run/routinator.pid"]), a(&["--pid-file", "rel.pid"])]);
    s("working-dir", vec![a(&["--working-dir", "/var/lib/routinator"])]);
    s("chroot", vec![a(&["--chroot", "/var/lib/routinator"])]);
    s("user", vec![a(&["--user", "routinator"])]);
    s("group", vec![a(&["--group", "routinator"])]);
    res
}

fn command() -> Command {
    Config::config_args(Command::new("routinator"))
        .subcommand(Config::server_args(Command::new("server")))
}

/// Runs one case: global args + server args. `Ok(None)`: the command line
/// was rejected (outside the property).
fn run_case(dir: &Path, global: &[String], server: &[String]) -> Result<Option<String>, (String, String)> {
    let base = dir.join("base.conf");
    let mut args: Vec<String> = vec!["routinator".into(), "-c".into(), base.display().to_string()];
    args.extend(global.iter().cloned());
    args.push("server".into());
    args.extend(server.iter().cloned());
    let matches = match command().try_get_matches_from(&args) {
        Ok(m) => m,
        Err(_) => return Ok(None),
    };
    let cur = dir.join("cur");
    let mut config = match Config::from_arg_matches(&matches, &cur) {
        Ok(c) => c,
        Err(_) => return Ok(None),
    };
    if let Some(sub) = matches.subcommand_matches("server") {
        if config.apply_server_arg_matches(sub, &cur).is_err() { return Ok(None) }
    }
    let printed = config.to_string();
    let out = dir.join("printed.conf");
    fs::write(&out, &printed).map_err(|e| ("harness".to_string(), e.to_string()))?;
    let args2 = vec!["routinator".to_string(), "-c".into(), out.display().to_string()];
    let matches2 = command().try_get_matches_from(&args2).map_err(|e| ("harness".to_string(), e.to_string()))?;
    let desc = format!("{} server {}", global.join(" "), server.join(" "));
    let mut config2 = match Config::from_arg_matches(&matches2, &cur) {
        Ok(c) => c,
        Err(_) => return Err(("printed-config-rejected".into(), format!(
            "options [{desc}] are accepted on the command line but the printed configuration is rejected as a config file"
        ))),
    };
    // The location of the file itself is not configuration content; the
    // `fresh` flag is documented as command-line only.
    config2.config_file = config.config_file.clone();
    config.fresh = false;
    config2.fresh = false;
    if config != config2 {
        let a = format!("{config:?}");
        let b = format!("{config2:?}");
        // locate the differing fields roughly
        let fa: Vec<&str> = a.split(", ").collect();
        let fb: Vec<&str> = b.split(", ").collect();
        let diff: Vec<String> = fa.iter().zip(fb.iter()).filter(|(x, y)| x != y).take(4)
            .map(|(x, y)| format!("{x} -> {y}")).collect();
        return Err(("read-back-differs".into(), format!(
            "options [{desc}]: the printed configuration reads back differently: {}", diff.join("; ")
        )))
    }
    Ok(Some("identical".into()))
}

fn fingerprint(class: &str, names: &[&str], values: &[String]) -> String {
    // Root causes shared by many options get one fingerprint each: numbers
    // above i64::MAX (not representable in TOML) and, for the two options
    // the file reader limits to 65535, numbers above that.
    let nums: Vec<u128> = values.iter().filter_map(|v| v.parse::<u128>().ok()).collect();
    if nums.iter().any(|n| *n > i64::MAX as u128) && class == "read-back-differs" {
        return format!("config:{class}:number-above-i64-max")
    }
    let small = names.iter().any(|n| *n == "history" || *n == "validation-threads");
    if small && nums.iter().any(|n| *n > 65535) && class == "printed-config-rejected" {
        let n: Vec<&str> = names.iter().copied().filter(|n| *n == "history" || *n == "validation-threads").collect();
        return format!("config:{class}:{}:above-65535", n.join("+"))
    }
    format!("config:{class}:{}", names.join("+"))
}

pub fn run(ctx: &Ctx) -> Report {
    util::quiet_panics();
    let mut rep = Report::new("exploration");
    let opts = options();
    let dir = ctx.scratch.clone();
    fs::create_dir_all(dir.join("cur")).unwrap();
    fs::write(dir.join("base.conf"), "repository-dir = \"/base/cache\"\n").unwrap();
    rep.rule = format!("{} command line options (all global and server \
        options) with their edge values (numbers: 0, 1, small, 65535, \
        65536, 2^32, i64::MAX, u64::MAX; lists with one and two entries; \
        relative and absolute paths; every enum value); the default, every \
        single deviation, and every pair of deviations (quick: pairs \
        restricted to the first alternative of each option); real clap \
        parsing with a base config file, Display, file, real reading; \
        oracle: command lines that are accepted must print a file that is \
        accepted and yields an equal Config (ignoring the file's own \
        location and the command-line-only fresh flag); non-trivial = \
        accepted cases with at least one deviation", opts.len());
    // cases: (option indexes, alternative indexes)
    let mut cases: Vec<Vec<(usize, usize)>> = vec![vec![]];
    for (i, o) in opts.iter().enumerate() {
        for j in 0..o.alts.len() { cases.push(vec![(i, j)]) }
    }
    for i in 0..opts.len() {
        for k in (i + 1)..opts.len() {
            let (ni, nk) = if ctx.tier.thorough() { (opts[i].alts.len(), opts[k].alts.len()) } else { (1, 1) };
            for j in 0..ni { for l in 0..nk { cases.push(vec![(i, j), (k, l)]) } }
        }
    }
    rep.bound = format!("{} cases (default + singles + pairs)", cases.len());
    let mut known_single: std::collections::BTreeSet<String> = std::collections::BTreeSet::new();
    for case in &cases {
        let mut global = Vec::new();
        let mut server = Vec::new();
        let mut names = Vec::new();
        let mut values = Vec::new();
        for (i, j) in case {
            let o = &opts[*i];
            names.push(o.name);
            values.extend(o.alts[*j].iter().cloned());
            if o.server { server.extend(o.alts[*j].iter().cloned()) } else { global.extend(o.alts[*j].iter().cloned()) }
        }
        rep.evaluations += 1;
        match util::catch(|| run_case(&dir, &global, &server)).unwrap_or_else(|p| Err(("panic".into(), p))) {
            Ok(None) => rep.outcome("rejected-on-command-line"),
            Ok(Some(o)) => { if !case.is_empty() { rep.nontrivial += 1 } rep.outcome(o) }
            Err((class, msg)) if class == "harness" => { eprintln!("machinery error: {msg}"); std::process::exit(2) }
            Err((class, msg)) => {
                rep.outcome(format!("VIOLATION:{class}"));
                // A pair that fails only because one of its members fails
                // alone is the same finding.
                if case.len() == 1 {
                    known_single.insert(format!("{}:{}", class, names[0]));
                    rep.violation(fingerprint(&class, &names, &values), msg,
                        json!({"global": global, "server": server}));
                }
                else {
                    let inherited = names.iter().any(|n| known_single.contains(&format!("{class}:{n}")));
                    if !inherited {
                        rep.violation(fingerprint(&class, &names, &values), msg,
                            json!({"global": global, "server": server}));
                    }
                }
            }
        }
    }
    rep.sample(json!({"global": ["--stale", "warn"], "server": ["--history", "65536"]}));
    rep.assumptions.push("value domains are edge values per option type, not all values; the base config file only sets repository-dir".into());
    rep
}

pub fn replay(ctx: &Ctx, v: &Value) -> Report {
    let mut rep = Report::new("exploration");
    let dir: PathBuf = ctx.scratch.clone();
    fs::create_dir_all(dir.join("cur")).unwrap();
    fs::write(dir.join("base.conf"), "repository-dir = \"/base/cache\"\n").unwrap();
    let get = |k: &str| -> Vec<String> { v[k].as_array().map(|a| a.iter().filter_map(|x| x.as_str().map(String::from)).collect()).unwrap_or_default() };
    let (g, s) = (get("global"), get("server"));
    let r = run_case(&dir, &g, &s);
    println!("{g:?} server {s:?}: {r:?}");
    if let Err((class, msg)) = r { rep.violation(format!("config:{class}"), msg, v.clone()) }
    rep.evaluations = 1; rep.nontrivial = 2;
    rep.sample(v.clone());
    rep
}
