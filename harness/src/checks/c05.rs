//! C05 Fetched manifests never roll back stored data; C04 Store holds only
//! complete, verified publication points. Both explore histories of
//! versions of one CA's publication point served to consecutive runs.

use std::collections::BTreeSet;
use std::net::Ipv4Addr;
use std::path::{Path, PathBuf};
use rpki::repository::x509::Time;
use rpki::rtr::payload::Payload;
use routinator::config::FilterPolicy;
use routinator::slurm::LocalExceptions;
use routinator::store::StoredPoint;
use serde_json::{json, Value};
use crate::data;
use crate::etree::{self, Case};
use crate::report::{Ctx, Report};
use crate::rpkigen::{Builder, CaSpec, Fault, Gen, Image, ObjSpec, PointFault, Stale, TalSpec, TreeSpec};
use crate::util;

pub const MFT_URI: &str = "rsync://ca1.example/repo/ca1/ca1.mft";

pub fn stored_path(cache: &Path) -> PathBuf {
    cache.join("stored/rsync/rsync/ca1.example/repo/ca1/ca1.mft")
}

/// A tree whose CA `ca1` publishes the version identified by `tag`:
/// manifest number `num`, thisUpdate offset `this_update`, one ROA whose
/// VRP encodes the tag, plus a second constant ROA.
pub fn tree(
    tag: u8, num: u64, this_update: i64,
    obj_fault: Option<Fault>, point_fault: Option<PointFault>,
) -> TreeSpec { tree_at(tag, num, 0, this_update, obj_fault, point_fault) }

pub fn tree_at(
    tag: u8, num: u64, base: u8, this_update: i64,
    obj_fault: Option<Fault>, point_fault: Option<PointFault>,
) -> TreeSpec {
    let mut ta = CaSpec::new("ta0", 0, "ta0.example", "repo");
    ta.v4 = vec![(Ipv4Addr::new(10, 0, 0, 0), 8)];
    ta.asns = vec![(64496, 64511)];
    ta.objs = vec![ObjSpec::roa("r0", 64496, "10.0.0.0", 16, 16)];
    let mut ca = CaSpec::new("ca1", 1, "ca1.example", "repo");
    ca.v4 = vec![(Ipv4Addr::new(10, 1, 0, 0), 16)];
    ca.asns = vec![(64500, 64505)];
    ca.mft_number = num;
    ca.mft_number_base = base;
    ca.mft_this_update = this_update;
    ca.point_fault = point_fault;
    let mut marker = ObjSpec::roa("marker", 64500, &format!("10.1.{tag}.0"), 24, 24);
    marker.fault = obj_fault;
    ca.objs.push(marker);
    ca.objs.push(ObjSpec::roa("const", 64501, "10.1.255.0", 24, 24));
    ta.children.push(ca);
    TreeSpec { tals: vec![TalSpec {
        name: "alpha".into(), ta_uri: "rsync://ta0.example/repo/ta0.cer".into(),
        ca: ta, wrong_key: false, https_uri: None,
    }]}
}

pub fn marker_of(ds: &data::DataSet) -> BTreeSet<u8> {
    ds.origins.iter().filter_map(|o| {
        match o.prefix.addr() {
            std::net::IpAddr::V4(a) if a.octets()[0] == 10 && a.octets()[1] == 1 && a.octets()[2] != 255 => Some(a.octets()[2]),
            _ => None
        }
    }).collect()
}

pub fn has_const(ds: &data::DataSet) -> bool {
    ds.origins.contains(&data::v4(10, 1, 255, 0, 24, 24, 64501))
}

//------------ C05 -----------------------------------------------------------

/// Version alphabet: (number, time index) in {1,2,3}^2; tag = 16*num + time.
fn c05_versions() -> Vec<(u64, i64, u8)> {
    let mut res = Vec::new();
    for num in 1..=3u64 { for ti in 1..=3i64 {
        res.push((num, -7200 + 600 * ti, (16 * num + ti as u64) as u8));
    }}
    res
}

fn c05_case(gen: &Gen, dir: PathBuf, seq: &[usize], base: u8) -> Result<String, (String, String)> {
    let now = Time::now();
    let versions = c05_versions();
    let case = Case::new(dir);
    let config = case.config();
    // reference: stored (num, time, tag)
    let mut stored: Option<(u64, i64, u8)> = None;
    let mut obs = Vec::new();
    for (step, vi) in seq.iter().enumerate() {
        let v = versions[*vi];
        let image = Builder::at(gen, Stale::Reject, now).build(&tree_at(v.2, v.0, base, v.1, None, None));
        if step == 0 { case.write_tals(&image); }
        case.publish(&image);
        let out = etree::run(&config, false, &LocalExceptions::empty())
            .map_err(|e| ("run-failed".to_string(), e))?;
        stored = match stored {
            None => Some(v),
            Some(s) if v.0 > s.0 && v.1 > s.1 => Some(v),
            Some(s) => Some(s),
        };
        let want = stored.unwrap();
        let got = marker_of(&out.data);
        let hist: Vec<String> = seq[..=step].iter().map(|i| format!("(#{}{}, t{})", ["", "2^64-2+", "2^136+"][base as usize], versions[*i].0, (versions[*i].1 + 7200) / 600)).collect();
        if got != [want.2].into_iter().collect() {
            let class = if got.iter().any(|t| {
                let num = (*t / 16) as u64; let ti = (*t % 16) as i64;
                num < want.0 || -7200 + 600 * ti < want.1
            }) { "rolled-back" } else { "wrong-version" };
            return Err((class.into(), format!(
                "history {hist:?}: payload carries version tags {got:?}, reference store holds (#{}, t{})",
                want.0, (want.1 + 7200) / 600
            )))
        }
        // stored manifest number never decreases and matches
        let sp = StoredPoint::load_quietly(stored_path(&config.cache_dir));
        let num = sp.as_ref().and_then(|p| p.manifest()).map(|m| m.manifest_number);
        if num != Some(crate::rpkigen::big_number(want.0, base)) {
            return Err(("stored-number".into(), format!(
                "history {hist:?}: stored manifest number {num:?}, expected {}", want.0
            )))
        }
        obs.push(want.2);
    }
    let _ = std::fs::remove_dir_all(&case.dir);
    let replaced = obs.windows(2).filter(|w| w[0] != w[1]).count();
    Ok(format!("replacements={replaced}"))
}

fn seqs(n: usize, max_len: usize) -> Vec<Vec<usize>> {
    let mut res = Vec::new();
    let mut cur: Vec<Vec<usize>> = vec![vec![]];
    for _ in 0..max_len {
        let mut next = Vec::new();
        for s in &cur { for i in 0..n { let mut t = s.clone(); t.push(i); next.push(t); } }
        res.extend(next.iter().cloned());
        cur = next;
    }
    res
}

pub fn run_c05(ctx: &Ctx) -> Report {
    util::quiet_panics();
    let gen = Gen::load();
    let mut rep = Report::new("model_checking");
    let max_len = if ctx.tier.thorough() { 3 } else { 2 };
    // only maximal-length sequences: every prefix is checked on the way
    let all: Vec<Vec<usize>> = seqs(9, max_len).into_iter().filter(|s| s.len() == max_len).collect();
    rep.rule = "versions = all (manifestNumber, thisUpdate) in {1,2,3} x \
        {t1<t2<t3}, each validly signed and complete with a VRP encoding \
        the version - and the same with all numbers moved up by 2^64-2 \
        (straddling the 64-bit boundary) and by 2^136 (18-octet numbers); every sequence of versions served to consecutive runs \
        of the real engine (identical replays included); after every run \
        the CA's payload and the stored manifest number must be those of \
        the reference store (replace iff number strictly greater and \
        thisUpdate strictly later); non-trivial = sequences in which at \
        least one later version must be refused".into();
    rep.bound = format!("all 9^{max_len} sequences x 3 number ranges, every prefix checked");
    let threads = std::env::var("ETREE_THREADS").ok().and_then(|s| s.parse().ok()).unwrap_or(8);
    let n_seq = all.len();
    // every sequence with the numbers as they are, moved up so that they
    // straddle 2^64, and moved up to 18 octets
    let all: Vec<Vec<usize>> = (0..3).flat_map(|_| all.iter().cloned()).collect();
    let res = util::par_map(all.len() as u64, threads, |i| {
        let seq = &all[i as usize];
        util::catch(|| c05_case(&gen, ctx.scratch.join(format!("c{i}")), seq, (i as usize / n_seq) as u8))
            .unwrap_or_else(|p| Err(("panic".into(), p)))
    });
    let versions = c05_versions();
    for (i, r) in res.into_iter().enumerate() {
        rep.evaluations += 1;
        rep.transitions += all[i].len() as u64;
        let refusals = {
            let mut st: Option<(u64, i64)> = None; let mut n = 0;
            for vi in &all[i] { let v = versions[*vi];
                st = match st { None => Some((v.0, v.1)), Some(s) if v.0 > s.0 && v.1 > s.1 => Some((v.0, v.1)), Some(s) => { if (v.0, v.1) != s { n += 1; } Some(s) } };
            }
            n
        };
        if refusals > 0 { rep.nontrivial += 1; }
        match r {
            Ok(o) => rep.outcome(o),
            Err((class, msg)) => {
                rep.outcome(format!("VIOLATION:{class}"));
                rep.violation(format!("rollback:{class}"), msg, json!({"seq": all[i], "base": i / n_seq}));
            }
        }
    }
    rep.states = rep.evaluations;
    rep.traces = rep.evaluations;
    rep.sample(json!({"seq": [4, 1, 8], "meaning": "(#2,t2) then (#1,t2) [refused: lower number] then (#3,t3) [accepted]"}));
    rep
}

pub fn replay_c05(ctx: &Ctx, v: &Value) -> Report {
    let gen = Gen::load();
    let mut rep = Report::new("model_checking");
    let seq: Vec<usize> = v["seq"].as_array().unwrap().iter().map(|x| x.as_u64().unwrap() as usize).collect();
    let r = c05_case(&gen, ctx.scratch.join("replay"), &seq, v["base"].as_u64().unwrap_or(0) as u8);
    println!("{seq:?}: {r:?}");
    if let Err((class, msg)) = r { rep.violation(format!("rollback:{class}"), msg, v.clone()); }
    rep.evaluations = 1; rep.states = 1; rep.transitions = seq.len() as u64; rep.traces = 1;
    rep.sample(v.clone());
    rep
}

//------------ C04 -----------------------------------------------------------

#[derive(Clone, Copy, Debug, Eq, PartialEq)]
pub enum Ev {
    Good, Same, MissingFile, WrongHash, MftBadSig, MftExpiredEe,
    StaleReject, StaleWarn, StaleAccept, Premature, CrlMissing, CrlBadSig,
    CrlWrongHash, Unreachable, NotListedExtra, MftEeRevoked,
}

pub const EVENTS: [Ev; 16] = [
    Ev::Good, Ev::Same, Ev::MissingFile, Ev::WrongHash, Ev::MftBadSig,
    Ev::MftExpiredEe, Ev::StaleReject, Ev::StaleWarn, Ev::StaleAccept,
    Ev::Premature, Ev::CrlMissing, Ev::CrlBadSig, Ev::CrlWrongHash,
    Ev::Unreachable, Ev::NotListedExtra, Ev::MftEeRevoked,
];

struct Version { image: Image, tag: u8 }

fn c04_case(gen: &Gen, dir: PathBuf, seq: &[Ev]) -> Result<String, (String, String)> {
    let now = Time::now();
    let case = Case::new(dir);
    let mut config = case.config();
    let mut reference: Option<Version> = None;
    let mut last_published: Option<(Image, bool, bool, u8)> = None;
    let mut replaced = 0;
    for (step, ev) in seq.iter().enumerate() {
        let tag = (step + 1) as u8;
        let num = (step + 1) as u64;
        let tu = -7200 + 600 * (step as i64 + 1);
        let hist = format!("{:?}", &seq[..=step]);
        config.stale = FilterPolicy::Reject;
        case.set_unreachable("ca1.example", "repo", false);
        let mut tag = tag;
        let mut same_stale = false;
        let (image, good) = match ev {
            Ev::Same => match last_published.clone() {
                // The same bytes again: as good as they intrinsically are
                // (a stale version stays subject to the reject policy of
                // this run, so it is not good now).
                Some((img, intrinsic, stale, t)) => { tag = t; same_stale = stale; (img, intrinsic && !stale) }
                None => (Builder::at(gen, Stale::Reject, now).build(&tree(tag, num, tu, None, None)), true),
            },
            Ev::Good => (Builder::at(gen, Stale::Reject, now).build(&tree(tag, num, tu, None, None)), true),
            Ev::NotListedExtra => {
                // a complete version plus a stray unlisted ROA in the directory
                let mut spec = tree(tag, num, tu, None, None);
                let mut extra = ObjSpec::roa("stray", 64502, "10.1.254.0", 24, 24);
                extra.fault = Some(Fault::NotListed);
                spec.tals[0].ca.children[0].objs.push(extra);
                (Builder::at(gen, Stale::Reject, now).build(&spec), true)
            }
            Ev::MissingFile => (Builder::at(gen, Stale::Reject, now).build(&tree(tag, num, tu, Some(Fault::Missing), None)), false),
            Ev::WrongHash => (Builder::at(gen, Stale::Reject, now).build(&tree(tag, num, tu, Some(Fault::HashMismatch), None)), false),
            Ev::MftBadSig => (Builder::at(gen, Stale::Reject, now).build(&tree(tag, num, tu, None, Some(PointFault::MftBadSig))), false),
            Ev::MftExpiredEe => (Builder::at(gen, Stale::Reject, now).build(&tree(tag, num, tu, None, Some(PointFault::MftExpiredEe))), false),
            Ev::StaleReject => (Builder::at(gen, Stale::Reject, now).build(&tree(tag, num, tu, None, Some(PointFault::MftStale))), false),
            Ev::StaleWarn => { config.stale = FilterPolicy::Warn;
                (Builder::at(gen, Stale::Warn, now).build(&tree(tag, num, tu, None, Some(PointFault::MftStale))), true) }
            Ev::StaleAccept => { config.stale = FilterPolicy::Accept;
                (Builder::at(gen, Stale::Accept, now).build(&tree(tag, num, tu, None, Some(PointFault::MftStale))), true) }
            Ev::Premature => (Builder::at(gen, Stale::Reject, now).build(&tree(tag, num, tu, None, Some(PointFault::MftPremature))), false),
            Ev::CrlMissing => (Builder::at(gen, Stale::Reject, now).build(&tree(tag, num, tu, None, Some(PointFault::CrlMissing))), false),
            Ev::CrlBadSig => (Builder::at(gen, Stale::Reject, now).build(&tree(tag, num, tu, None, Some(PointFault::CrlBadSig))), false),
            Ev::CrlWrongHash => (Builder::at(gen, Stale::Reject, now).build(&tree(tag, num, tu, None, Some(PointFault::CrlWrongHash))), false),
            Ev::MftEeRevoked => (Builder::at(gen, Stale::Reject, now).build(&tree(tag, num, tu, None, Some(PointFault::MftEeRevoked))), false),
            Ev::Unreachable => {
                case.set_unreachable("ca1.example", "repo", true);
                (Builder::at(gen, Stale::Reject, now).build(&tree(tag, num, tu, None, None)), false)
            }
        };
        // MftStale versions carry thisUpdate two days back: they are only
        // "newer" than nothing. Keep the reference rule exact:
        let stale_ev = matches!(ev, Ev::StaleWarn | Ev::StaleAccept);
        if step == 0 { case.write_tals(&image); }
        case.publish(&image);
        let intrinsic = good || matches!(ev, Ev::Unreachable);
        if !matches!(ev, Ev::Same) || last_published.is_none() {
            last_published = Some((image.clone(), intrinsic, stale_ev || matches!(ev, Ev::StaleReject), tag));
        }
        let _ = same_stale;
        etree::run(&config, false, &LocalExceptions::empty())
            .map_err(|e| ("run-failed".to_string(), format!("history {hist}: {e}")))?;
        if good {
            // stale versions have an old thisUpdate and cannot displace a stored one
            if !(stale_ev && reference.is_some())
                && reference.as_ref().map(|r| r.tag) != Some(tag)
            {
                reference = Some(Version { image, tag });
                replaced += 1;
            }
        }
        // --- read back the stored point
        let sp = StoredPoint::load_quietly(stored_path(&config.cache_dir));
        match (&reference, sp) {
            (None, None) => { }
            (None, Some(p)) => if p.manifest().is_some() {
                return Err(("stored-without-valid-version".into(), format!(
                    "history {hist}: a publication point was stored although no version was ever valid and complete"
                )))
            },
            (Some(_), None) => return Err(("stored-lost".into(), format!(
                "history {hist}: stored point unreadable or gone"
            ))),
            (Some(v), Some(mut p)) => {
                let info = v.image.cas.iter().find(|c| c.name == "ca1").unwrap();
                let m = match p.manifest() {
                    Some(m) => m.clone(),
                    None => return Err(("stored-lost".into(), format!("history {hist}: stored manifest gone")))
                };
                if m.manifest.as_ref() != &info.manifest[..] {
                    return Err(("stored-manifest-differs".into(), format!(
                        "history {hist}: stored manifest is not the one of reference version {}", v.tag
                    )))
                }
                if m.crl.as_ref() != &info.crl[..] {
                    return Err(("stored-crl-differs".into(), format!("history {hist}: stored CRL differs from version {}", v.tag)))
                }
                let mut objs = std::collections::BTreeMap::new();
                for o in &mut p {
                    let o = o.map_err(|e| ("stored-unreadable".to_string(), format!("history {hist}: {}", std::io::Error::from(e))))?;
                    objs.insert(o.uri.to_string(), o.content.to_vec());
                }
                let want: std::collections::BTreeMap<String, Vec<u8>> = info.listed.iter()
                    .map(|(n, c)| (format!("{}{}", info.repo_uri, n), c.clone())).collect();
                if objs != want {
                    return Err(("stored-objects-differ".into(), format!(
                        "history {hist}: stored objects {:?} != files listed on the stored manifest {:?}",
                        objs.keys().collect::<Vec<_>>(), want.keys().collect::<Vec<_>>()
                    )))
                }
            }
        }
    }
    // --- the stored data is usable: an offline run yields that version
    config.stale = FilterPolicy::Accept;
    let out = etree::run(&config, true, &LocalExceptions::empty())
        .map_err(|e| ("offline-run-failed".to_string(), format!("history {seq:?}: {e}")))?;
    let got = marker_of(&out.data);
    let want: BTreeSet<u8> = reference.iter().map(|v| v.tag).collect();
    if got != want || has_const(&out.data) != reference.is_some() {
        return Err(("offline-payload".into(), format!(
            "history {seq:?}: offline run serves version tags {got:?}, reference store holds {want:?}"
        )))
    }
    let _ = std::fs::remove_dir_all(&case.dir);
    Ok(format!("stored-versions={replaced}"))
}

pub fn run_c04(ctx: &Ctx) -> Report {
    util::quiet_panics();
    let gen = Gen::load();
    let mut rep = Report::new("fault_enumeration");
    let max_len = if ctx.tier.thorough() { 3 } else { 2 };
    let idx = seqs(EVENTS.len(), max_len).into_iter().filter(|s| s.len() == max_len).collect::<Vec<_>>();
    rep.rule = "every history of per-run events over {good next version, \
        same version again, listed file missing, listed file with wrong \
        hash, manifest bad signature, manifest EE expired, stale manifest \
        under reject / warn / accept, premature manifest, CRL missing, CRL \
        bad signature, CRL wrong hash, module unreachable, complete version \
        plus an unlisted stray file}; after every run the stored point is \
        read back with StoredPoint::load_quietly and must equal, byte for \
        byte (manifest, CRL, exactly the listed files), the last version \
        that was valid, complete and newer; a final offline run must serve \
        that version; non-trivial = histories containing a failing event".into();
    rep.bound = format!("all {}^{max_len} histories, stored point checked after every run", EVENTS.len());
    let threads = std::env::var("ETREE_THREADS").ok().and_then(|s| s.parse().ok()).unwrap_or(8);
    let res = util::par_map(idx.len() as u64, threads, |i| {
        let seq: Vec<Ev> = idx[i as usize].iter().map(|k| EVENTS[*k]).collect();
        util::catch(|| c04_case(&gen, ctx.scratch.join(format!("c{i}")), &seq))
            .unwrap_or_else(|p| Err(("panic".into(), p)))
    });
    for (i, r) in res.into_iter().enumerate() {
        rep.evaluations += 1;
        let seq: Vec<Ev> = idx[i].iter().map(|k| EVENTS[*k]).collect();
        if seq.iter().any(|e| !matches!(e, Ev::Good | Ev::Same | Ev::NotListedExtra)) { rep.nontrivial += 1; }
        match r {
            Ok(o) => rep.outcome(o),
            Err((class, msg)) => {
                rep.outcome(format!("VIOLATION:{class}"));
                let fails: Vec<String> = seq.iter().map(|e| format!("{e:?}")).collect();
                rep.violation(format!("store:{class}:{}", fails.join(">")), msg, json!({"seq": idx[i]}));
            }
        }
    }
    rep.sample(json!({"history": ["Good", "WrongHash", "Unreachable"], "expect": "stored == version 1 after every run"}));
    rep.assumptions.push("store content read back through the public StoredPoint API at the rsync-repository path".into());
    rep
}

pub fn replay_c04(ctx: &Ctx, v: &Value) -> Report {
    let gen = Gen::load();
    let mut rep = Report::new("fault_enumeration");
    let seq: Vec<Ev> = v["seq"].as_array().unwrap().iter().map(|x| EVENTS[x.as_u64().unwrap() as usize]).collect();
    let r = c04_case(&gen, ctx.scratch.join("replay"), &seq);
    println!("{seq:?}: {r:?}");
    if let Err((class, msg)) = r { rep.violation(format!("store:{class}"), msg, v.clone()); }
    rep.evaluations = 1; rep.nontrivial = 2;
    rep.sample(v.clone());
    rep
}
