//! C11 Deltas describe exactly the change between two data sets.
//!
//! Exhaustive: all ordered pairs of all data sets over a small universe.

use std::sync::Arc;
use rpki::rtr::payload::{Action, Payload};
use rpki::rtr::server::PayloadDiff;
use rpki::rtr::Serial;
use routinator::payload::{PayloadDelta, PayloadSnapshot};
use serde_json::{json, Value};
use crate::data::{self, DataSet};
use crate::report::{Ctx, Report};
use crate::util;

pub fn universe() -> Vec<DataSet> {
    data::all_sets(&data::origin_universe(), &data::key_universe(), &[10, 20])
}

pub fn delta_actions(delta: &PayloadDelta) -> Vec<(Payload, Action)> {
    delta.actions().map(|(p, a)| (data::to_owned(p), a)).collect()
}

/// Checks one pair; returns `Err((fingerprint-class, message))`.
pub fn check_pair(
    old: &DataSet, old_snap: &PayloadSnapshot,
    new: &DataSet, new_snap: &PayloadSnapshot,
    serial: u32,
) -> Result<bool, (String, String)> {
    let delta = util::catch(|| {
        PayloadDelta::construct(old_snap, new_snap, Serial::from(serial))
    }).map_err(|e| ("panic".to_string(), format!("construct panicked: {e}")))?;
    let delta = match delta {
        None => {
            if old != new {
                return Err((
                    "none-for-different".into(),
                    "construct returned None for different data sets".into()
                ))
            }
            return Ok(false)
        }
        Some(delta) => delta
    };
    if old == new {
        return Err((
            "some-for-equal".into(),
            format!(
                "construct returned a non-empty delta for equal sets: {:?}",
                data::fmt_actions(&delta_actions(&delta))
            )
        ))
    }
    if delta.serial() != Serial::from(serial).add(1) {
        return Err(("serial".into(), format!(
            "delta serial {} != old serial {} + 1", delta.serial(), serial
        )))
    }
    let actions = delta_actions(&delta);
    // counts
    let ann = actions.iter().filter(|x| x.1.is_announce()).count();
    let wd = actions.len() - ann;
    if ann != delta.announce_len() || wd != delta.withdraw_len() {
        return Err(("counts".into(), format!(
            "announce_len/withdraw_len {}/{} but listed actions {}/{}: {:?}",
            delta.announce_len(), delta.withdraw_len(), ann, wd,
            data::fmt_actions(&actions)
        )))
    }
    // announces only absent-or-changed, withdraws only present-and-gone
    for (p, a) in &actions {
        let ok = match (p, a) {
            (Payload::Origin(o), Action::Announce) => {
                !old.origins.contains(o) && new.origins.contains(o)
            }
            (Payload::Origin(o), Action::Withdraw) => {
                old.origins.contains(o) && !new.origins.contains(o)
            }
            (Payload::RouterKey(k), Action::Announce) => {
                !old.keys.contains(k) && new.keys.contains(k)
            }
            (Payload::RouterKey(k), Action::Withdraw) => {
                old.keys.contains(k) && !new.keys.contains(k)
            }
            (Payload::Aspa(x), Action::Announce) => {
                old.aspas.get(&x.customer) != Some(&x.providers)
                && new.aspas.get(&x.customer) == Some(&x.providers)
            }
            (Payload::Aspa(x), Action::Withdraw) => {
                old.aspas.contains_key(&x.customer)
                && !new.aspas.contains_key(&x.customer)
            }
        };
        if !ok {
            return Err(("wrong-action".into(), format!(
                "action {:?} not justified by old/new",
                data::fmt_actions(&[(p.clone(), *a)])
            )))
        }
    }
    // apply
    let mut applied = old.clone();
    if let Err(err) = applied.apply(&actions) {
        return Err(("apply".into(), format!(
            "actions {:?} cannot be applied to old: {err}",
            data::fmt_actions(&actions)
        )))
    }
    if &applied != new {
        return Err(("apply-result".into(), format!(
            "old + delta {:?} = {} but new = {}",
            data::fmt_actions(&actions), applied.describe(), new.describe()
        )))
    }
    // The RTR-facing iterator yields the same list.
    let mut it = Arc::new(delta).arc_iter();
    let mut via_iter = Vec::new();
    while let Some((p, a)) = it.next() {
        via_iter.push((data::to_owned(p), a));
    }
    if via_iter != actions {
        return Err(("arc-iter".into(), format!(
            "arc_iter yields {:?}, actions() yields {:?}",
            data::fmt_actions(&via_iter), data::fmt_actions(&actions)
        )))
    }
    // per-type ordering (each type sorted, ASPA by customer)
    let sorted = actions.windows(2).all(|w| {
        match (&w[0].0, &w[1].0) {
            (Payload::Origin(a), Payload::Origin(b)) => a < b,
            (Payload::RouterKey(a), Payload::RouterKey(b)) => a < b,
            (Payload::Aspa(a), Payload::Aspa(b)) => a.customer < b.customer,
            (Payload::Origin(_), _) => true,
            (Payload::RouterKey(_), Payload::Aspa(_)) => true,
            _ => false,
        }
    });
    if !sorted {
        return Err(("order".into(), format!(
            "actions not sorted: {:?}", data::fmt_actions(&actions)
        )))
    }
    Ok(true)
}

pub fn run(_ctx: &Ctx) -> Report {
    util::quiet_panics();
    let sets = universe();
    let snaps: Vec<PayloadSnapshot> = sets.iter().map(|s| s.snapshot()).collect();
    let mut rep = Report::new("model_checking");
    rep.rule = "all ordered pairs (old,new) of all data sets over 3 origins \
        x 2 router keys x 2 ASPA customers with provider set in \
        {absent,{1},{2},{1,2}}; non-trivial = old != new; serial base \
        rotates over {0, 7, 2^32-1}".into();
    rep.bound = format!("{} data sets, all pairs", sets.len());
    let n = sets.len() as u64;
    let results = util::par_map(n, util::cores(), |i| {
        let i = i as usize;
        let mut nontrivial = 0u64;
        let mut viol = Vec::new();
        let mut kinds = std::collections::BTreeMap::new();
        for j in 0..sets.len() {
            let serial = match (i + j) % 3 { 0 => 0, 1 => 7, _ => u32::MAX };
            match check_pair(&sets[i], &snaps[i], &sets[j], &snaps[j], serial) {
                Ok(true) => {
                    nontrivial += 1;
                    *kinds.entry("delta").or_insert(0u64) += 1;
                }
                Ok(false) => { *kinds.entry("none").or_insert(0u64) += 1; }
                Err((class, msg)) => viol.push((i, j, serial, class, msg)),
            }
        }
        (nontrivial, viol, kinds)
    });
    for (nontrivial, viol, kinds) in results {
        rep.nontrivial += nontrivial;
        for (k, v) in kinds {
            *rep.outcomes.entry(k.into()).or_insert(0) += v;
        }
        for (i, j, serial, class, msg) in viol {
            rep.violation(
                format!("construct:{class}"),
                format!("{} -> {}: {}", sets[i].describe(), sets[j].describe(), msg),
                json!({"old": i, "new": j, "serial": serial})
            );
        }
    }
    rep.evaluations = n * n;
    rep.states = n;
    rep.transitions = n * n;
    rep.traces = n * n;
    for (i, j) in [(0usize, 1usize), (5, 300), (511, 17)] {
        let d = PayloadDelta::construct(&snaps[i], &snaps[j], 0.into());
        rep.sample(json!({
            "old": sets[i].describe(), "new": sets[j].describe(),
            "delta": d.map(|d| data::fmt_actions(&delta_actions(&d))),
        }));
    }
    rep.assumptions.push(
        "data sets are built with the public PayloadSnapshot::new from \
         duplicate-free inputs (the server's own snapshots are \
         duplicate-free by construction; C09 checks that)".into()
    );
    rep
}

pub fn replay(_ctx: &Ctx, v: &Value) -> Report {
    let sets = universe();
    let (i, j) = (v["old"].as_u64().unwrap() as usize, v["new"].as_u64().unwrap() as usize);
    let serial = v["serial"].as_u64().unwrap() as u32;
    let mut rep = Report::new("model_checking");
    rep.evaluations = 1; rep.states = 2; rep.transitions = 1; rep.traces = 1;
    let (so, sn) = (sets[i].snapshot(), sets[j].snapshot());
    println!("old = {}", sets[i].describe());
    println!("new = {}", sets[j].describe());
    let d = PayloadDelta::construct(&so, &sn, serial.into());
    println!("delta = {:?}", d.as_ref().map(|d| data::fmt_actions(&delta_actions(d))));
    if let Err((class, msg)) = check_pair(&sets[i], &so, &sets[j], &sn, serial) {
        rep.violation(format!("construct:{class}"), msg, v.clone());
    }
    rep.sample(v.clone());
    rep
}
