//! C15, C16, C17: the served history under concurrent updates and queries.
//!
//! E-SCHED: thread U runs the server loop's real update sequence
//! (`Server::process_once` via the cfg-only wrapper: mark start, real
//! engine run, `history.update`, `mark_update_done`, notify) for a list of
//! data sets (installed hook-free as SLURM assertions over a TAL-less
//! engine); other threads issue RTR (`PayloadSource`) and HTTP (real
//! dispatcher) requests. All interleavings of the history lock
//! operations and explicit points up to a preemption bound.

use std::cell::RefCell;
use std::collections::{BTreeMap, BTreeSet};
use std::future::Future;
use std::path::PathBuf;
use std::pin::Pin;
use std::sync::atomic::{AtomicBool, AtomicU64, Ordering};
use std::sync::{Arc, Mutex};
use std::task::{Context, Poll, Wake, Waker};
use routinator::config::Config;
use routinator::engine::Engine;
use routinator::http::verif::{handle, Answer};
use routinator::operation::Server;
use routinator::payload::SharedHistory;
use rpki::rtr::payload::{Action, Payload};
use rpki::rtr::server::{PayloadDiff, PayloadSet, PayloadSource};
use rpki::rtr::State;
use serde_json::{json, Value};
use crate::data::{self, DataSet};
use crate::etree::Case;
use crate::httpd::Httpd;
use crate::report::{Ctx, Report};
use crate::sched::{self, Config as SchedConfig, Execution, Sched, Verdict};
use crate::util;

//------------ Environment ---------------------------------------------------

pub struct Env { pub config: Config, pub engine: &'static Engine }

static ENV_SEQ: AtomicU64 = AtomicU64::new(0);

thread_local! {
    static ENV: RefCell<Option<Env>> = const { RefCell::new(None) };
}

fn make_env(scratch: &PathBuf) -> Env {
    let n = ENV_SEQ.fetch_add(1, Ordering::SeqCst);
    let case = Case::new(scratch.join(format!("h{n}")));
    let mut config = case.config();
    config.history_size = 4;
    let mut engine = Engine::new(&config, false).expect("engine");
    engine.ignite().expect("ignite");
    Env { config, engine: Box::leak(Box::new(engine)) }
}

pub fn with_env<R>(scratch: &PathBuf, f: impl FnOnce(&Env) -> R) -> R {
    ENV.with(|e| {
        let mut e = e.borrow_mut();
        if e.is_none() { *e = Some(make_env(scratch)) }
        f(e.as_ref().unwrap())
    })
}

/// The data sets: pairwise different, different sizes; set 4 is set 0 plus
/// a router key (a change of router keys only).
pub fn sets() -> Vec<DataSet> {
    let o = data::origin_universe();
    let mk = |idx: &[usize]| {
        let mut ds = DataSet::default();
        for i in idx { ds.origins.insert(o[*i]); }
        ds
    };
    let mut with_key = mk(&[0]);
    with_key.keys.insert(data::key_universe()[0].clone());
    vec![mk(&[0]), mk(&[0, 1]), mk(&[2]), mk(&[0, 1, 2]), with_key]
}

fn fmt_key(k: &rpki::rtr::payload::RouterKey) -> String { format!("key|{}|{}", k.asn, k.key_identifier) }

pub fn fmt_set(ds: &DataSet) -> BTreeSet<String> {
    ds.origins.iter().map(|o| format!(
        "{}|{}/{}|{}", o.asn, o.prefix.addr(), o.prefix.prefix_len(), o.prefix.resolved_max_len()
    )).chain(ds.keys.iter().map(fmt_key)).collect()
}

/// Items of a JSON list (route origins and router keys in the forms the
/// payload and the delta documents use).
fn json_items(v: &Value) -> Option<BTreeSet<String>> {
    let mut res = BTreeSet::new();
    for item in v.as_array()? {
        if let Some(prefix) = item["prefix"].as_str() {
            res.insert(format!("{}|{}|{}", item["asn"].as_str()?, prefix, item["maxLength"]));
        }
        else {
            let ski = item["SKI"].as_str().or(item["keyIdentifier"].as_str())?;
            res.insert(format!("key|{}|{}", item["asn"].as_str()?, ski));
        }
    }
    Some(res)
}

/// All items of a `/json` document.
fn json_doc_items(b: &Value) -> Option<BTreeSet<String>> {
    let mut res = json_items(&b["roas"])?;
    if !b["routerKeys"].is_null() { res.extend(json_items(&b["routerKeys"])?); }
    Some(res)
}

/// What U does: for each entry install that data set (index into `sets`).
fn updater(
    env_config: Config, engine: &'static Engine, history: SharedHistory,
    mut notify: rpki::rtr::server::NotifySender, seq: Vec<usize>, first_initial: bool,
    done: Arc<AtomicBool>, errors: Arc<Mutex<Vec<String>>>,
) -> impl FnOnce() + Send + 'static {
    move || {
        let sets = sets();
        for (i, idx) in seq.iter().enumerate() {
            let exc = data::exceptions_for(&sets[*idx]);
            if Server::verif_process_once(
                &env_config, engine, &history, &mut notify, &exc, first_initial && i == 0
            ).is_err() {
                errors.lock().unwrap().push("harness: validation run failed".into());
            }
        }
        done.store(true, Ordering::SeqCst);
    }
}

/// serial -> data set for an update sequence starting from nothing.
fn serial_map(initial: &[usize], seq: &[usize]) -> BTreeMap<u32, BTreeSet<String>> {
    let sets = sets();
    let mut res = BTreeMap::new();
    let mut cur: Option<usize> = None;
    let mut serial = 0u32;
    for idx in initial.iter().chain(seq.iter()) {
        match cur {
            None => { res.insert(0, fmt_set(&sets[*idx])); }
            Some(c) if c != *idx => { serial += 1; res.insert(serial, fmt_set(&sets[*idx])); }
            _ => { }
        }
        cur = Some(*idx);
    }
    res
}

fn install_initial(env: &Env, history: &SharedHistory, notify: &rpki::rtr::server::NotifySender, initial: &[usize]) {
    let sets = sets();
    let mut notify = notify.clone();
    for (i, idx) in initial.iter().enumerate() {
        let exc = data::exceptions_for(&sets[*idx]);
        Server::verif_process_once(&env.config, env.engine, history, &mut notify, &exc, i == 0)
            .expect("initial run");
    }
}

//------------ C15 -----------------------------------------------------------

#[derive(Clone, Debug)]
struct Sc15 { name: &'static str, initial: Vec<usize>, seq: Vec<usize>,
    /// history-size of this scenario (None: 4)
    keep: Option<usize> }

fn scenarios15(thorough: bool) -> Vec<Sc15> {
    let mut res = vec![
        Sc15 { name: "first-update", initial: vec![], seq: vec![0, 1], keep: None },
        Sc15 { name: "change", initial: vec![0], seq: vec![1], keep: None },
        Sc15 { name: "change-change", initial: vec![0], seq: vec![1, 2], keep: None },
        Sc15 { name: "change:router-key-only", initial: vec![0], seq: vec![4], keep: None },
        Sc15 { name: "change:history-size-0", initial: vec![0], seq: vec![1], keep: Some(0) },
    ];
    if thorough {
        res.push(Sc15 { name: "change-change:history-size-0", initial: vec![0], seq: vec![1, 2], keep: Some(0) });
        res.push(Sc15 { name: "change:history-size-1", initial: vec![0, 1], seq: vec![2], keep: Some(1) });
        res.push(Sc15 { name: "same-change", initial: vec![0, 1], seq: vec![1, 3], keep: None });
        res.push(Sc15 { name: "three", initial: vec![0], seq: vec![1, 2, 3], keep: None });
    }
    res
}

pub fn collect_set(mut set: impl PayloadSet) -> Result<BTreeSet<String>, String> {
    let mut items = Vec::new();
    while let Some(p) = set.next() { items.push(data::to_owned(p)); }
    let mut ds = DataSet::default();
    for p in items {
        match p {
            Payload::Origin(o) => { if !ds.origins.insert(o) { return Err("duplicate item in full set".into()) } }
            Payload::RouterKey(k) => { if !ds.keys.insert(k) { return Err("duplicate item in full set".into()) } }
            _ => return Err("unexpected payload type".into()),
        }
    }
    Ok(fmt_set(&ds))
}

fn apply_actions(base: &BTreeSet<String>, actions: &[(Payload, Action)]) -> Result<BTreeSet<String>, String> {
    let mut res = base.clone();
    for (p, a) in actions {
        let mut one = DataSet::default();
        match p {
            Payload::Origin(o) => { one.origins.insert(*o); }
            Payload::RouterKey(k) => { one.keys.insert(k.clone()); }
            _ => return Err("unexpected payload type".into()),
        }
        let s = fmt_set(&one).into_iter().next().unwrap();
        match a {
            Action::Announce => if !res.insert(s.clone()) { return Err(format!("announce of present {s}")) },
            Action::Withdraw => if !res.remove(&s) { return Err(format!("withdraw of absent {s}")) },
        }
    }
    Ok(res)
}

fn body15(sched: &Arc<Sched>, sc: &Sc15, scratch: &PathBuf) -> (Execution, Verdict) {
    with_env(scratch, |env| {
        let mut config = env.config.clone();
        if let Some(keep) = sc.keep { config.history_size = keep; }
        let env = &Env { config, engine: env.engine };
        let history = SharedHistory::from_config(&env.config);
        let httpd = Arc::new(Httpd::new(&env.config, history.clone()));
        install_initial(env, &history, &httpd.notify, &sc.initial);
        let map = Arc::new(serial_map(&sc.initial, &sc.seq));
        let errors: Arc<Mutex<Vec<String>>> = Arc::new(Mutex::new(Vec::new()));
        let done = Arc::new(AtomicBool::new(false));
        let seen: Arc<Mutex<BTreeSet<String>>> = Arc::new(Mutex::new(BTreeSet::new()));
        sched.spawn("U", updater(
            env.config.clone(), env.engine, history.clone(), httpd.notify.clone(),
            sc.seq.clone(), sc.initial.is_empty(), done.clone(), errors.clone()
        ));
        // RTR client
        {
            let history = history.clone();
            let map = map.clone();
            let errors = errors.clone();
            let seen = seen.clone();
            sched.spawn("R", move || {
                let err = |e: String| errors.lock().unwrap().push(e);
                let mut last: Option<State> = None;
                for round in 0..2 {
                    if !history.ready() {
                        seen.lock().unwrap().insert("rtr:not-ready".into());
                        continue
                    }
                    let n = history.notify();
                    if !map.contains_key(&u32::from(n.serial())) {
                        err(format!("rtr-notify: notify announces serial {} which was never issued", n.serial()));
                    }
                    // reset query
                    let (state, set) = history.full();
                    match (map.get(&u32::from(state.serial())), collect_set(set)) {
                        (Some(want), Ok(got)) => {
                            if *want != got {
                                err(format!("rtr-full-mismatch: reset answer carries serial {} with data {:?}, data of that serial is {:?}", state.serial(), got, want));
                            }
                            seen.lock().unwrap().insert(format!("rtr:full@{}", state.serial()));
                        }
                        (None, _) => err(format!("rtr-full-unknown-serial: serial {} was never issued", state.serial())),
                        (_, Err(e)) => err(format!("rtr-full-bad: {e}")),
                    }
                    // serial query from what we saw before
                    if let Some(prev) = last {
                        if let Some((new, mut diff)) = history.diff(prev) {
                            let mut actions = Vec::new();
                            while let Some((p, a)) = diff.next() { actions.push((data::to_owned(p), a)); }
                            match (map.get(&u32::from(prev.serial())), map.get(&u32::from(new.serial()))) {
                                (Some(from), Some(to)) => match apply_actions(from, &actions) {
                                    Ok(got) if got == *to => { seen.lock().unwrap().insert(format!("rtr:diff{}->{}", prev.serial(), new.serial())); }
                                    Ok(got) => err(format!("rtr-diff-mismatch: diff {}->{} yields {:?}, data of serial {} is {:?}", prev.serial(), new.serial(), got, new.serial(), to)),
                                    Err(e) => err(format!("rtr-diff-mismatch: diff {}->{} not applicable: {e}", prev.serial(), new.serial())),
                                },
                                _ => err(format!("rtr-diff-unknown-serial: {}->{}", prev.serial(), new.serial())),
                            }
                        }
                    }
                    last = Some(state);
                    let _ = round;
                }
            });
        }
        // HTTP client
        {
            let httpd = httpd.clone();
            let map = map.clone();
            let errors = errors.clone();
            let seen = seen.clone();
            let session0 = history.read().session();
            sched.spawn("H", move || {
                let err = |e: String| errors.lock().unwrap().push(e);
                let mut last: Option<(String, u32)> = None;
                for _round in 0..2 {
                    let a = httpd.get("/json", &[]);
                    if !httpd.history.ready() && a.status != 503 {
                        err(format!("served-before-first-validation: /json answered {} before the first validation completed", a.status));
                    }
                    match a.status {
                        503 => { seen.lock().unwrap().insert("http:503".into()); }
                        200 => {
                            let etag = a.header("etag").unwrap_or("").trim_matches('"').to_string();
                            let serial: Option<u32> = etag.rsplit('-').next().and_then(|s| s.parse().ok());
                            let body: Option<Value> = serde_json::from_slice(&a.body).ok();
                            match (serial.and_then(|s| map.get(&s)), body.as_ref().and_then(|b| json_doc_items(b))) {
                                (Some(want), Some(got)) => {
                                    if *want != got {
                                        err(format!("http-etag-body-mismatch: /json with ETag serial {} carries {:?}, data of that serial is {:?}", serial.unwrap(), got, want));
                                    }
                                    seen.lock().unwrap().insert(format!("http:json@{}", serial.unwrap()));
                                }
                                (None, _) => err(format!("http-unknown-serial: ETag {etag:?}")),
                                (_, None) => err("http-bad-json: /json body does not parse".into()),
                            }
                        }
                        other => err(format!("http-status: /json answered {other}")),
                    }
                    // delta from the last seen version; a client that has
                    // seen nothing yet presents the session the (ungated)
                    // notify endpoint hands out, with serial 0
                    let uri = match last.as_ref() {
                        Some((session, serial)) => format!("/json-delta?session={session}&serial={serial}"),
                        None => format!("/json-delta?session={session0}&serial=0"),
                    };
                    let a = httpd.get(&uri, &[]);
                    // Readiness is monotonic: not ready after the answer
                    // means not ready while it was produced.
                    let ready_after = httpd.history.ready();
                    if !ready_after && a.status != 503 {
                        err(format!("served-before-first-validation: {uri} answered {} before the first validation completed", a.status));
                    }
                    match a.status {
                        503 => { seen.lock().unwrap().insert("http:delta503".into()); }
                        200 => {
                            let Ok(v) = serde_json::from_slice::<Value>(&a.body) else {
                                err("http-bad-json: /json-delta body does not parse".into()); continue
                            };
                            let to = v["serial"].as_u64().map(|s| s as u32);
                            let session = v["session"].as_str().unwrap_or("").to_string();
                            let ann = json_items(&v["announced"]).unwrap_or_default();
                            let wd = json_items(&v["withdrawn"]).unwrap_or_default();
                            let Some(want) = to.and_then(|s| map.get(&s)) else {
                                err(format!("http-unknown-serial: /json-delta serial {:?}", v["serial"])); continue
                            };
                            if v["reset"].as_bool() == Some(true) {
                                if ann != *want {
                                    err(format!("http-reset-mismatch: reset to serial {} carries {:?}, data of that serial is {:?}", to.unwrap(), ann, want));
                                }
                                seen.lock().unwrap().insert(format!("http:reset@{}", to.unwrap()));
                            }
                            else {
                                let from = v["fromSerial"].as_u64().map(|s| s as u32);
                                match from.and_then(|s| map.get(&s)) {
                                    Some(base) => {
                                        let mut got = base.clone();
                                        for w in &wd { got.remove(w); }
                                        for x in &ann { got.insert(x.clone()); }
                                        if got != *want {
                                            err(format!("http-delta-mismatch: delta {}->{} yields {:?}, data of serial {} is {:?}", from.unwrap(), to.unwrap(), got, to.unwrap(), want));
                                        }
                                        seen.lock().unwrap().insert(format!("http:delta{}->{}", from.unwrap(), to.unwrap()));
                                    }
                                    None => err(format!("http-unknown-serial: fromSerial {:?}", v["fromSerial"])),
                                }
                            }
                            last = Some((session, to.unwrap()));
                        }
                        other => err(format!("http-status: /json-delta answered {other}")),
                    }
                }
            });
        }
        let exec = sched.run();
        finish(exec, &errors, "serial-data", || {
            let s = seen.lock().unwrap();
            s.iter().cloned().collect::<Vec<_>>().join(",")
        })
    })
}

fn finish(
    exec: Execution, errors: &Arc<Mutex<Vec<String>>>, prefix: &str,
    outcome: impl FnOnce() -> String
) -> (Execution, Verdict) {
    let mut errs = errors.lock().unwrap().clone();
    if let Some(a) = exec.abort.as_ref() { errs.push(a.clone()) }
    for p in &exec.panics { errs.push(format!("panic: {p}")) }
    let violation = errs.first().map(|e| {
        let class = e.split(':').next().unwrap_or("other").to_string();
        (format!("{prefix}:{class}"), errs.join("; "))
    });
    let outcome = if violation.is_some() { "VIOLATION".to_string() } else { outcome() };
    (exec, Verdict { outcome, violation })
}

//------------ C16 -----------------------------------------------------------

#[derive(Clone, Debug)]
struct Sc16 { name: &'static str, initial: Vec<usize>, seq: Vec<usize>, use_etag: bool, use_date: bool }

fn scenarios16(thorough: bool) -> Vec<Sc16> {
    let mut res = Vec::new();
    for (name, use_etag, use_date) in [("etag", true, false), ("date", false, true), ("both", true, true)] {
        res.push(Sc16 { name: match name { "etag" => "change:etag", "date" => "change:date", _ => "change:both" },
            initial: vec![0], seq: vec![1], use_etag, use_date });
        res.push(Sc16 { name: match name { "etag" => "same-change:etag", "date" => "same-change:date", _ => "same-change:both" },
            initial: vec![0], seq: vec![0, 1], use_etag, use_date });
    }
    res.push(Sc16 { name: "router-key-only-change:etag", initial: vec![0], seq: vec![4], use_etag: true, use_date: false });
    res.push(Sc16 { name: "router-key-only-change:both", initial: vec![0], seq: vec![4], use_etag: true, use_date: true });
    if thorough {
        res.push(Sc16 { name: "change-change:both", initial: vec![0], seq: vec![1, 2], use_etag: true, use_date: true });
        res.push(Sc16 { name: "change-change:date", initial: vec![0], seq: vec![1, 2], use_etag: false, use_date: true });
    }
    res
}

fn body16(sched: &Arc<Sched>, sc: &Sc16, scratch: &PathBuf) -> (Execution, Verdict) {
    with_env(scratch, |env| {
        let history = SharedHistory::from_config(&env.config);
        let httpd = Arc::new(Httpd::new(&env.config, history.clone()));
        install_initial(env, &history, &httpd.notify, &sc.initial);
        let map = Arc::new(serial_map(&sc.initial, &sc.seq));
        let errors: Arc<Mutex<Vec<String>>> = Arc::new(Mutex::new(Vec::new()));
        let done = Arc::new(AtomicBool::new(false));
        let seen: Arc<Mutex<BTreeSet<String>>> = Arc::new(Mutex::new(BTreeSet::new()));
        // The validators the server issued for the version served now.
        let first = httpd.get("/json", &[]);
        let etag0 = first.header("etag").unwrap_or("").to_string();
        let date0 = first.header("last-modified").unwrap_or("").to_string();
        if first.status != 200 || etag0.is_empty() || date0.is_empty() {
            errors.lock().unwrap().push(format!("harness: initial GET answered {} without validators", first.status));
        }
        sched.spawn("U", updater(
            env.config.clone(), env.engine, history.clone(), httpd.notify.clone(),
            sc.seq.clone(), false, done.clone(), errors.clone()
        ));
        {
            let httpd = httpd.clone();
            let map = map.clone();
            let errors = errors.clone();
            let seen = seen.clone();
            let (use_etag, use_date) = (sc.use_etag, sc.use_date);
            let (etag0, date0) = (etag0.clone(), date0.clone());
            sched.spawn("H", move || {
                let err = |e: String| errors.lock().unwrap().push(e);
                // The client holds the version the validators were issued
                // for; after a 200 it holds what that response carried.
                let mut etag = etag0.clone();
                let mut date = date0.clone();
                let mut held: u32 = 0;
                for _round in 0..3 {
                    let mut headers: Vec<(&str, &str)> = Vec::new();
                    if use_etag { headers.push(("If-None-Match", etag.as_str())) }
                    if use_date { headers.push(("If-Modified-Since", date.as_str())) }
                    let a = httpd.get("/json", &headers);
                    let now_etag = a.header("etag").unwrap_or("").to_string();
                    let now_serial: Option<u32> = now_etag.trim_matches('"').rsplit('-').next().and_then(|s| s.parse().ok());
                    match a.status {
                        304 => {
                            // The 304 names the version being served.
                            match now_serial {
                                Some(s) if s == held => { seen.lock().unwrap().insert(format!("304@{s}")); }
                                Some(s) => err(format!(
                                    "stale-304: 304 Not Modified for validators of serial {held} (If-None-Match: {}, If-Modified-Since: {}) while serial {s} is being served",
                                    if use_etag { etag.as_str() } else { "-" }, if use_date { date.as_str() } else { "-" }
                                )),
                                None => err("http-304-without-etag: 304 without ETag".into()),
                            }
                        }
                        200 => {
                            let body: Option<Value> = serde_json::from_slice(&a.body).ok();
                            match (now_serial.and_then(|s| map.get(&s)), body.as_ref().and_then(|b| json_doc_items(b))) {
                                (Some(want), Some(got)) => {
                                    if *want != got {
                                        err(format!("http-etag-body-mismatch: ETag serial {} with data {:?}, expected {:?}", now_serial.unwrap(), got, want));
                                    }
                                    seen.lock().unwrap().insert(format!("200@{}", now_serial.unwrap()));
                                    held = now_serial.unwrap();
                                    etag = now_etag.clone();
                                    date = a.header("last-modified").unwrap_or("").to_string();
                                }
                                _ => err(format!("http-bad-200: ETag {now_etag:?} unknown or body unparsable")),
                            }
                        }
                        other => err(format!("http-status: {other}")),
                    }
                }
            });
        }
        let exec = sched.run();
        // After everything: old validators must yield the new data.
        if exec.abort.is_none() {
            let last = *map.keys().last().unwrap();
            if last != 0 {
                let mut headers: Vec<(&str, &str)> = Vec::new();
                if sc.use_etag { headers.push(("If-None-Match", etag0.as_str())) }
                if sc.use_date { headers.push(("If-Modified-Since", date0.as_str())) }
                let a = httpd.get("/json", &headers);
                if a.status != 200 {
                    errors.lock().unwrap().push(format!(
                        "stale-304-final: after the data changed to serial {last} the validators of serial 0 got status {}", a.status
                    ));
                }
            }
        }
        finish(exec, &errors, "conditional", || {
            let s = seen.lock().unwrap();
            s.iter().cloned().collect::<Vec<_>>().join(",")
        })
    })
}

//------------ C17 -----------------------------------------------------------

#[derive(Clone, Debug)]
struct Sc17 { name: &'static str, initial: Vec<usize>, seq: Vec<usize>, must_return: bool, session_offset: i64, serial: u32 }

fn scenarios17(_thorough: bool) -> Vec<Sc17> {
    let sc = |name, initial: &[usize], seq: &[usize], must_return, session_offset, serial| Sc17 {
        name, initial: initial.to_vec(), seq: seq.to_vec(), must_return, session_offset, serial
    };
    vec![
        sc("change", &[0], &[1], true, 0, 0),
        sc("withdraw-only", &[1], &[0], true, 0, 0),
        sc("replace", &[0], &[2], true, 0, 0),
        sc("same-change", &[0], &[0, 1], true, 0, 0),
        sc("change-change", &[0], &[1, 2], true, 0, 0),
        sc("no-change", &[0], &[0], false, 0, 0),
        // the served version is already serial 1 when (session, 0) arrives
        sc("already-stale", &[0, 1], &[1], true, 0, 0),
        // right serial, but a session this instance never had
        sc("foreign-session", &[0, 1], &[1], true, -3600, 1),
        sc("future-serial", &[0], &[0], true, 0, 7),
    ]
}

struct FlagWaker(AtomicBool);
impl Wake for FlagWaker {
    fn wake(self: Arc<Self>) { self.0.store(true, Ordering::SeqCst) }
}

fn body17(sched: &Arc<Sched>, sc: &Sc17, scratch: &PathBuf) -> (Execution, Verdict) {
    with_env(scratch, |env| {
        let history = SharedHistory::from_config(&env.config);
        let httpd = Arc::new(Httpd::new(&env.config, history.clone()));
        install_initial(env, &history, &httpd.notify, &sc.initial);
        let (session, _) = history.read().session_and_serial();
        let session = (session as i64 + sc.session_offset) as u64;
        let serial = sc.serial;
        let errors: Arc<Mutex<Vec<String>>> = Arc::new(Mutex::new(Vec::new()));
        let done = Arc::new(AtomicBool::new(false));
        let result: Arc<Mutex<Option<String>>> = Arc::new(Mutex::new(None));
        sched.spawn("U", updater(
            env.config.clone(), env.engine, history.clone(), httpd.notify.clone(),
            sc.seq.clone(), false, done.clone(), errors.clone()
        ));
        {
            let httpd = httpd.clone();
            let done = done.clone();
            let result = result.clone();
            let errors = errors.clone();
            sched.spawn("N", move || {
                let uri = format!("/json-delta/notify?session={session}&serial={serial}");
                let flag = Arc::new(FlagWaker(AtomicBool::new(false)));
                let waker = Waker::from(flag.clone());
                let mut fut: Pin<Box<dyn Future<Output = Answer> + '_>> =
                    Box::pin(handle(&httpd.state, "GET", &uri, &[]));
                let mut polls = 0;
                loop {
                    polls += 1;
                    let mut cx = Context::from_waker(&waker);
                    match fut.as_mut().poll(&mut cx) {
                        Poll::Ready(a) => {
                            if a.status != 200 {
                                errors.lock().unwrap().push(format!("http-status: notify answered {}", a.status));
                            }
                            *result.lock().unwrap() = Some(format!("ready-after-{polls}-polls"));
                            return
                        }
                        Poll::Pending => {
                            if done.load(Ordering::SeqCst) && !flag.0.load(Ordering::SeqCst) {
                                // Updates are over and nobody woke us.
                                *result.lock().unwrap() = Some("pending-at-end".into());
                                return
                            }
                            flag.0.store(false, Ordering::SeqCst);
                            let f = flag.clone();
                            let d = done.clone();
                            // Sleep until woken or until the updater is done
                            // (then poll one last time).
                            sched::block_until("notify.wait", move || {
                                f.0.load(Ordering::SeqCst) || d.load(Ordering::SeqCst)
                            });
                            if done.load(Ordering::SeqCst) && !flag.0.load(Ordering::SeqCst) {
                                let mut cx = Context::from_waker(&waker);
                                match fut.as_mut().poll(&mut cx) {
                                    Poll::Ready(_) => *result.lock().unwrap() = Some(format!("ready-after-{}-polls", polls + 1)),
                                    Poll::Pending => *result.lock().unwrap() = Some("pending-at-end".into()),
                                }
                                return
                            }
                        }
                    }
                }
            });
        }
        let exec = sched.run();
        let res = result.lock().unwrap().clone().unwrap_or_else(|| "no-result".into());
        if exec.abort.is_none() {
            let pending = res == "pending-at-end";
            if sc.must_return && pending {
                errors.lock().unwrap().push(format!(
                    "lost-notification: the served version differs from the presented one (session {session}, serial {serial}) but the notify request is still waiting after all updates finished"
                ));
            }
            if !sc.must_return && !pending {
                errors.lock().unwrap().push("spurious-return: the presented version is still current but the notify request returned".into());
            }
        }
        finish(exec, &errors, "notify", || res.clone())
    })
}

//------------ Runners -------------------------------------------------------

struct Harness<'a> {
    name: String,
    /// The bound that is always completed (the quick tier's).
    sure: usize,
    /// The bound of this tier; beyond `sure` it runs under an execution cap.
    bound: usize,
    body: Box<dyn Fn(&Arc<Sched>) -> (Execution, Verdict) + Sync + 'a>,
}

/// Executions per scenario at a bound beyond the one that is always completed.
const DEEP_CAP: u64 = 150_000;

fn drive(ctx: &Ctx, rep: &mut Report, prop: &str, harnesses: Vec<Harness>) {
    let mut samples = Vec::new();
    for (idx, h) in harnesses.iter().enumerate() {
        if !ctx.mine(idx as u64) { continue }
        let passes: Vec<(usize, u64)> = if h.bound > h.sure { vec![(h.sure, 3_000_000), (h.bound, DEEP_CAP)] } else { vec![(h.bound, 3_000_000)] };
        for (bound, max_execs) in passes {
        let cfg = SchedConfig { bound, max_steps: 5000, max_execs, workers: 4 };
        let stats = sched::explore(&cfg, |s| (h.body)(s));
        rep.transitions += stats.steps;
        rep.traces += stats.executions;
        rep.evaluations += stats.executions;
        rep.nontrivial += stats.by_preemptions.iter().filter(|(k, _)| **k > 0).map(|(_, v)| *v).sum::<u64>();
        for (k, v) in &stats.outcomes { *rep.outcomes.entry(format!("{}:{k}", h.name)).or_insert(0) += v; }
        rep.states += stats.outcomes.len() as u64;
        rep.extra.insert(format!("executions_bound{bound}_{}", h.name), json!(stats.executions));
        rep.extra.insert(format!("max_points_{}", h.name), json!(stats.max_points));
        if stats.capped.is_some() {
            let list = rep.extra.entry("capped_scenarios".to_string()).or_insert(json!([]));
            list.as_array_mut().unwrap().push(json!(format!("{} at bound {bound}", h.name)));
            rep.capped = Some(format!("execution cap {max_execs} per scenario reached at the deeper bound (see capped_scenarios); bound {} completed for every scenario", h.sure));
        }
        if let Some(m) = stats.machinery {
            eprintln!("machinery error: {m}");
            std::process::exit(2)
        }
        if let Some(s) = stats.sample { if samples.len() < 3 { samples.push(json!({"scenario": h.name, "schedule": s})) } }
        let mut seen = BTreeSet::new();
        for f in &stats.found {
            if !seen.insert(f.fingerprint.clone()) { continue }
            if let Err(e) = sched::confirm(f, cfg.max_steps, |s| (h.body)(s)) {
                eprintln!("machinery error: {prop} violation does not replay deterministically: {e}");
                std::process::exit(2)
            }
            rep.violation(f.fingerprint.clone(), format!(
                "scenario {}, {} preemptions: {}; schedule {:?}", h.name, f.preemptions, f.message, f.labels
            ), sched::found_json(&h.name, bound, f));
        }
        }
    }
    for s in samples { rep.sample(s) }
}

pub fn run_c15(ctx: &Ctx) -> Report {
    util::quiet_panics();
    let mut rep = Report::new("model_checking");
    let bound = if ctx.tier.thorough() { 4 } else { 3 };
    rep.rule = "thread U runs the server loop's real update sequence \
        (process_once: mark start, engine run, history.update, \
        mark_update_done, notify) for a list of data sets; thread R issues \
        RTR source calls (ready, notify, reset query, serial query from the \
        last seen state) twice; thread H issues GET /json and \
        /json-delta?session&serial through the real dispatcher twice; all \
        interleavings of the history lock operations (and the point \
        between the read and write phase of update) within the preemption \
        bound; oracle: every (session, serial) in a response comes with \
        exactly the data set / change set of that serial (harness map \
        serial -> data), nothing but 503 / not-ready before the first \
        update".into();
    let scratch = ctx.scratch.clone();
    let hs = scenarios15(ctx.tier.thorough()).into_iter().map(|sc| {
        let scratch = scratch.clone();
        Harness { name: sc.name.to_string(), sure: 3, bound, body: Box::new(move |s| body15(s, &sc, &scratch)) }
    }).collect();
    drive(ctx, &mut rep, "C15", hs);
    rep.bound = if bound > 3 { format!("preemption bound 3: all schedules executed; preemption bound {bound}: all schedules of a scenario unless it has more than {DEEP_CAP}, then the first {DEEP_CAP} (such scenarios are listed under capped_scenarios)") } else { format!("preemption bound {bound}; all schedules within the bound executed") };
    rep.assumptions.push("data sets are route origins installed as SLURM assertions over a TAL-less offline engine (the update path is the real one); scheduling points at every acquire of the history lock and the hook points; the engine's own worker threads run uncontrolled".into());
    rep
}

pub fn run_c16(ctx: &Ctx) -> Report {
    util::quiet_panics();
    let mut rep = Report::new("model_checking");
    let bound = if ctx.tier.thorough() { 6 } else { 4 };
    rep.rule = "the client first obtains the validators (ETag, \
        Last-Modified) the server issues for version 0; thread U then runs \
        the real update sequence for [change], [no-change, change] \
        (thorough: [change, change]); thread H sends three conditional GET \
        /json carrying the validators of the version it holds (ETag only, \
        date only, both) at every point of that sequence, including \
        between history.update and mark_update_done; oracle: a 304 names \
        (ETag) the version the client holds; after the change the old \
        validators get 200 with the new data".into();
    let scratch = ctx.scratch.clone();
    let hs = scenarios16(ctx.tier.thorough()).into_iter().map(|sc| {
        let scratch = scratch.clone();
        Harness { name: sc.name.to_string(), sure: 4, bound, body: Box::new(move |s| body16(s, &sc, &scratch)) }
    }).collect();
    drive(ctx, &mut rep, "C16", hs);
    rep.bound = if bound > 4 { format!("preemption bound 4: all schedules executed; preemption bound {bound}: all schedules of a scenario unless it has more than {DEEP_CAP}, then the first {DEEP_CAP} (such scenarios are listed under capped_scenarios)") } else { format!("preemption bound {bound}; all schedules within the bound executed") };
    rep.assumptions.push("only validators the server itself issued are replayed, so real clocks are harmless; scheduling points as for C15".into());
    rep
}

pub fn run_c17(ctx: &Ctx) -> Report {
    util::quiet_panics();
    let mut rep = Report::new("model_checking");
    let bound = if ctx.tier.thorough() { 8 } else { 4 };
    rep.rule = "thread N polls the real /json-delta/notify handler future \
        (through the dispatcher) for (session, serial 0) with a flag waker \
        and sleeps (modelled blocking wait) until woken or until the \
        updater is done, then polls a last time; thread U runs the real \
        update sequence incl. the notification; scheduling point between \
        the handler's version check and its subscription; scenarios: \
        announce-only change, withdraw-only change, replacement, \
        no-change+change, two changes (must return), no change (must keep \
        waiting), request already stale on arrival, request with a \
        foreign session and the current serial, request with a future \
        serial (must return at once); all interleavings within the bound".into();
    let scratch = ctx.scratch.clone();
    let hs = scenarios17(ctx.tier.thorough()).into_iter().map(|sc| {
        let scratch = scratch.clone();
        Harness { name: sc.name.to_string(), sure: 4, bound, body: Box::new(move |s| body17(s, &sc, &scratch)) }
    }).collect();
    drive(ctx, &mut rep, "C17", hs);
    rep.bound = if bound > 4 { format!("preemption bound 4: all schedules executed; preemption bound {bound}: all schedules of a scenario unless it has more than {DEEP_CAP}, then the first {DEEP_CAP} (such scenarios are listed under capped_scenarios)") } else { format!("preemption bound {bound}; all schedules within the bound executed") };
    rep.assumptions.push("tokio's broadcast channel is used as is (its internal locking is not a scheduling point; the channel operations are atomic steps of the running thread)".into());
    rep
}

fn replay_generic(
    ctx: &Ctx, v: &Value, find: impl Fn(&str, PathBuf) -> Option<Box<dyn Fn(&Arc<Sched>) -> (Execution, Verdict)>>
) -> Report {
    util::quiet_panics();
    let mut rep = Report::new("model_checking");
    let name = v["harness"].as_str().unwrap_or("");
    let Some(body) = find(name, ctx.scratch.clone()) else {
        eprintln!("unknown scenario {name}"); std::process::exit(2)
    };
    let choices: Vec<usize> = v["choices"].as_array().map(|a| a.iter().map(|x| x.as_u64().unwrap() as usize).collect()).unwrap_or_default();
    let (exec, verdict) = sched::replay(&choices, 5000, |s| body(s));
    for l in exec.labels() { println!("  {l}") }
    println!("abort: {:?}", exec.abort);
    rep.states = 1; rep.transitions = exec.points.len() as u64; rep.traces = 1; rep.evaluations = 1;
    if let Some((fp, msg)) = verdict.violation { rep.violation(fp, msg, v.clone()) }
    rep.sample(v.clone());
    rep
}

pub fn replay_c15(ctx: &Ctx, v: &Value) -> Report {
    replay_generic(ctx, v, |name, scratch| {
        scenarios15(true).into_iter().find(|s| s.name == name).map(|sc| {
            Box::new(move |s: &Arc<Sched>| body15(s, &sc, &scratch)) as Box<dyn Fn(&Arc<Sched>) -> (Execution, Verdict)>
        })
    })
}

pub fn replay_c16(ctx: &Ctx, v: &Value) -> Report {
    replay_generic(ctx, v, |name, scratch| {
        scenarios16(true).into_iter().find(|s| s.name == name).map(|sc| {
            Box::new(move |s: &Arc<Sched>| body16(s, &sc, &scratch)) as Box<dyn Fn(&Arc<Sched>) -> (Execution, Verdict)>
        })
    })
}

pub fn replay_c17(ctx: &Ctx, v: &Value) -> Report {
    replay_generic(ctx, v, |name, scratch| {
        scenarios17(true).into_iter().find(|s| s.name == name).map(|sc| {
            Box::new(move |s: &Arc<Sched>| body17(s, &sc, &scratch)) as Box<dyn Fn(&Arc<Sched>) -> (Execution, Verdict)>
        })
    })
}
