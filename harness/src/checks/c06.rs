//! C06 Stale and premature manifests/CRLs follow the configured policy.

use std::collections::BTreeSet;
use rpki::rtr::payload::Payload;
use routinator::config::FilterPolicy;
use routinator::slurm::LocalExceptions;
use serde_json::{json, Value};
use crate::data;
use crate::etree::{self, Case};
use crate::report::{Ctx, Report};
use crate::rpkigen::{self, Builder, Gen, PointFault, Stale, Truth};
use crate::util;

const CAS: [&str; 3] = ["ta0", "ca1", "gc2"];
const FAULTS: [PointFault; 3] = [PointFault::MftStale, PointFault::CrlStale, PointFault::MftPremature];
const POLICIES: [Stale; 3] = [Stale::Reject, Stale::Warn, Stale::Accept];

#[derive(Clone, Debug)]
pub struct CaseSpec { subset: u8, fault: PointFault, policy: Stale, stored_path: bool,
    /// 0: policy field set directly; 1: read from a configuration file; 2: given on the command line
    source: u8 }

fn policy(p: Stale) -> FilterPolicy {
    match p { Stale::Reject => FilterPolicy::Reject, Stale::Warn => FilterPolicy::Warn, Stale::Accept => FilterPolicy::Accept }
}

fn payload_set(ds: &data::DataSet) -> BTreeSet<Payload> {
    let mut res = BTreeSet::new();
    for o in &ds.origins { res.insert(Payload::Origin(*o)); }
    for k in &ds.keys { res.insert(Payload::RouterKey(k.clone())); }
    for (c, p) in &ds.aspas { res.insert(Payload::aspa(*c, p.clone())); }
    res
}

pub fn cases() -> Vec<CaseSpec> {
    let mut res = Vec::new();
    for subset in 1..8u8 { for fault in FAULTS { for policy in POLICIES { for stored_path in [false, true] {
        if fault == PointFault::MftPremature && stored_path { continue }
        res.push(CaseSpec { subset, fault, policy, stored_path, source: 0 });
    }}}}
    for fault in FAULTS { for policy in POLICIES { for source in [1, 2] {
        res.push(CaseSpec { subset: 2, fault, policy, stored_path: false, source });
    }}}
    res
}

pub fn run_case(gen: &Gen, dir: std::path::PathBuf, c: &CaseSpec) -> Result<String, (String, String)> {
    let mut spec = rpkigen::base_tree();
    for (i, name) in CAS.iter().enumerate() {
        if c.subset & (1 << i) != 0 {
            spec.tals[0].ca.find_mut(name).unwrap().point_fault = Some(c.fault);
        }
    }
    let image = Builder::new(gen, c.policy).build(&spec);
    let case = Case::new(dir);
    case.publish(&image);
    case.write_tals(&image);
    let mut config = case.config();
    let err = |e: String| ("run-failed".to_string(), e);
    let wanted = match c.source { 0 => policy(c.policy), s => policy_via(&case.dir.join("policy"), c.policy, s == 1)? };
    let out = if c.stored_path {
        // run 1 under accept puts the stale versions into the store
        config.stale = FilterPolicy::Accept;
        etree::run(&config, false, &LocalExceptions::empty()).map_err(err)?;
        config.stale = wanted;
        etree::run(&config, true, &LocalExceptions::empty()).map_err(err)?
    } else {
        config.stale = wanted;
        etree::run(&config, false, &LocalExceptions::empty()).map_err(err)?
    };
    let served = payload_set(&out.data);
    let faulted: Vec<&str> = CAS.iter().enumerate().filter(|(i, _)| c.subset & (1 << i) != 0).map(|x| *x.1).collect();
    for t in &image.truth {
        match t.truth {
            Truth::MustNot if served.contains(&t.payload) => {
                let class = if c.fault == PointFault::MftPremature { "premature-accepted" } else { "stale-served-under-reject" };
                return Err((class.into(), format!(
                    "{:?} on {faulted:?}, policy {:?}, {} path: {} of {} is served",
                    c.fault, c.policy, if c.stored_path { "stored" } else { "fetch" },
                    data::fmt_payload(&t.payload), t.ca
                )))
            }
            Truth::Must if !served.contains(&t.payload) => {
                let class = if faulted.contains(&t.ca.as_str()) || c.policy != Stale::Reject { "stale-dropped-under-warn-or-accept" } else { "unrelated-ca-dropped" };
                return Err((class.into(), format!(
                    "{:?} on {faulted:?}, policy {:?}{}, {} path: {} of {} is not served",
                    c.fault, c.policy, ["", " (from the configuration file)", " (from the command line)"][c.source as usize], if c.stored_path { "stored" } else { "fetch" },
                    data::fmt_payload(&t.payload), t.ca
                )))
            }
            _ => { }
        }
    }
    let _ = std::fs::remove_dir_all(&case.dir);
    Ok(format!("served={}", served.len()))
}

/// Real ageing: a manifest or CRL of `ca1` whose nextUpdate passes between
/// two runs - on a fresh engine per run (one-shot commands) or on one
/// engine used for both (the server) - with the publication unchanged
/// (stored path) or replaced by a newer version with the same nextUpdate
/// (fetch path), or replaced by a newer version that is fresh but lists a
/// file that is not there, so that its update is abandoned and the stored,
/// by now stale version is what there is.
#[derive(Clone, Debug)]
pub struct Ageing { pol: Stale, reuse_engine: bool, crl: bool,
    /// 0: unchanged; 1: newer version, same nextUpdate; 2: newer, fresh, one listed file missing
    republish: u8 }

const AGE: i64 = 8;

fn ageing_cases() -> Vec<Ageing> {
    let mut res = Vec::new();
    for pol in POLICIES { for reuse_engine in [false, true] { for crl in [false, true] { for republish in [0u8, 1, 2] {
        res.push(Ageing { pol, reuse_engine, crl, republish });
    }}}}
    res
}

fn ageing_case(gen: &Gen, dir: std::path::PathBuf, c: &Ageing) -> Result<String, (String, String)> {
    let now = rpki::repository::x509::Time::now();
    let started = std::time::Instant::now();
    let tree = |number: u64| {
        let mut spec = rpkigen::base_tree();
        let ca = spec.tals[0].ca.find_mut("ca1").unwrap();
        if c.crl { ca.crl_next_update = AGE } else { ca.mft_next_update = AGE }
        ca.mft_number = number;
        ca.mft_this_update += 60 * (number as i64 - 1);
        spec
    };
    let image = Builder::at(gen, Stale::Accept, now).build(&tree(1));
    let image2 = Builder::at(gen, Stale::Accept, now).build(&tree(2));
    let image3 = {
        let mut spec = rpkigen::base_tree();
        let ca = spec.tals[0].ca.find_mut("ca1").unwrap();
        ca.mft_number = 2;
        ca.mft_this_update += 60;
        ca.objs[0].fault = Some(rpkigen::Fault::Missing);
        Builder::at(gen, Stale::Accept, now).build(&spec)
    };
    let case = Case::new(dir);
    case.publish(&image);
    case.write_tals(&image);
    let mut config = case.config();
    config.stale = policy(c.pol);
    let err = |e: String| ("run-failed".to_string(), e);
    let engine = etree::engine(&config, false).map_err(err)?;
    let r1 = etree::run_on(&engine, &config, &LocalExceptions::empty()).map_err(err)?;
    let all: BTreeSet<Payload> = image.truth.iter().map(|t| t.payload.clone()).collect();
    if payload_set(&r1.data) != all {
        return Err(("harness".into(), "fresh manifest not fully served".into()))
    }
    std::thread::sleep(std::time::Duration::from_secs(AGE as u64 + 1).saturating_sub(started.elapsed()));
    match c.republish { 1 => case.publish(&image2), 2 => case.publish(&image3), _ => { } }
    let r2 = if c.reuse_engine { etree::run_on(&engine, &config, &LocalExceptions::empty()) }
        else { etree::run(&config, false, &LocalExceptions::empty()) }.map_err(err)?;
    let served = payload_set(&r2.data);
    let sub: BTreeSet<Payload> = image.truth.iter().filter(|t| t.ca == "ca1" || t.ca == "gc2").map(|t| t.payload.clone()).collect();
    let want: BTreeSet<Payload> = if c.pol == Stale::Reject { all.difference(&sub).cloned().collect() } else { all.clone() };
    if served != want {
        let class = if served.len() > want.len() { "stale-served-under-reject" } else { "stale-dropped-under-warn-or-accept" };
        return Err((class.into(), format!(
            "{} of ca1 aged past nextUpdate between two runs ({}, {}) under {:?}: served {} items, expected {}",
            if c.crl { "CRL" } else { "manifest" }, if c.reuse_engine { "same engine" } else { "fresh engine" },
            ["publication unchanged", "newer version published", "newer, fresh version published whose update is abandoned for a missing file"][c.republish as usize], c.pol, served.len(), want.len()
        )))
    }
    let _ = std::fs::remove_dir_all(&case.dir);
    Ok(format!("aged:{:?}", c.pol))
}

/// Where the policy comes from: the configuration file or the command line
/// (real parsing), instead of the field being set directly.
fn policy_via(dir: &std::path::Path, pol: Stale, from_file: bool) -> Result<FilterPolicy, (String, String)> {
    use clap::Command;
    use routinator::config::Config;
    let word = match pol { Stale::Reject => "reject", Stale::Warn => "warn", Stale::Accept => "accept" };
    std::fs::create_dir_all(dir).map_err(|e| ("harness".to_string(), e.to_string()))?;
    let file = dir.join("policy.conf");
    let mut base = crate::data::mem_config();
    if from_file { base.stale = policy(pol); }
    std::fs::write(&file, base.to_string()).map_err(|e| ("harness".to_string(), e.to_string()))?;
    let mut args = vec!["routinator".to_string(), "-c".into(), file.display().to_string()];
    if !from_file { args.extend(["--stale".to_string(), word.to_string()]); }
    let matches = Config::config_args(Command::new("routinator")).try_get_matches_from(&args)
        .map_err(|e| ("harness".to_string(), e.to_string()))?;
    let config = Config::from_arg_matches(&matches, dir).map_err(|_| ("harness".to_string(), "configuration rejected".to_string()))?;
    Ok(config.stale)
}

pub fn run(ctx: &Ctx) -> Report {
    util::quiet_panics();
    let gen = Gen::load();
    let mut rep = Report::new("exploration");
    let cases = cases();
    rep.rule = "base tree TA->CA->grandchild (+ second TAL); every non-empty \
        subset of the three CAs gets {stale manifest, stale CRL, premature \
        manifest}; x policy {reject, warn, accept} x path {fetch from an \
        empty cache; stored: run 1 under accept stores it, run 2 offline \
        under the policy}; oracle: reject => the CA and all descendants \
        contribute nothing and everything else is served; warn/accept => \
        everything served; premature never accepted; for one CA also \
        with the policy read from a configuration file and from the \
        command line (real parsing) instead of being set directly; plus \
        real ageing: ca1's manifest / CRL passes its nextUpdate (8 s) \
        between two runs, on a fresh engine per run and on one engine \
        used for both (as the server does), with the publication \
        unchanged, replaced by a newer version of the same age, or \
        replaced by a newer fresh version that lists a missing file (its \
        update is abandoned; the stored, stale version is what there \
        is), under each policy; \
        non-trivial = all (every case carries a fault)".into();
    rep.bound = format!("{} cases", cases.len());
    let threads = std::env::var("ETREE_THREADS").ok().and_then(|s| s.parse().ok()).unwrap_or(8);
    let res = util::par_map(cases.len() as u64, threads, |i| {
        util::catch(|| run_case(&gen, ctx.scratch.join(format!("c{i}")), &cases[i as usize]))
            .unwrap_or_else(|p| Err(("panic".into(), p)))
    });
    for (i, r) in res.into_iter().enumerate() {
        rep.evaluations += 1; rep.nontrivial += 1;
        let c = &cases[i];
        match r {
            Ok(o) => rep.outcome(o),
            Err((class, msg)) => {
                rep.outcome(format!("VIOLATION:{class}"));
                rep.violation(format!("policy:{class}:{:?}:{:?}:{}", c.fault, c.policy, if c.stored_path { "stored" } else { "fetch" }),
                    msg, json!({"subset": c.subset, "fault": format!("{:?}", c.fault), "policy": format!("{:?}", c.policy), "stored": c.stored_path, "source": c.source}));
            }
        }
    }
    let ageing = ageing_cases();
    let res = util::par_map(ageing.len() as u64, ageing.len(), |i| {
        util::catch(|| ageing_case(&gen, ctx.scratch.join(format!("age-{i}")), &ageing[i as usize])).unwrap_or_else(|p| Err(("panic".into(), p)))
    });
    for (i, r) in res.into_iter().enumerate() {
        let c = &ageing[i];
        rep.evaluations += 1; rep.nontrivial += 1;
        match r {
            Ok(o) => rep.outcome(o),
            Err((class, msg)) if class == "harness" => { eprintln!("machinery error: {msg}"); std::process::exit(2) }
            Err((class, msg)) => {
                rep.outcome(format!("VIOLATION:{class}"));
                rep.violation(format!("policy:{class}:ageing:{:?}:{}", c.pol, if c.reuse_engine { "same-engine" } else { "fresh-engine" }), msg,
                    json!({"ageing": i}));
            }
        }
    }
    rep.sample(json!({"subset": ["ca1"], "fault": "CrlStale", "policy": "Reject", "path": "stored", "expect": "ca1 and gc2 contribute nothing, ta0 and the second TAL unchanged"}));
    rep
}

pub fn replay(ctx: &Ctx, v: &Value) -> Report {
    let gen = Gen::load();
    let mut rep = Report::new("exploration");
    rep.evaluations = 1; rep.nontrivial = 2;
    if let Some(i) = v.get("ageing").and_then(|x| x.as_u64()) {
        let c = ageing_cases()[i as usize].clone();
        let r = ageing_case(&gen, ctx.scratch.join("replay"), &c);
        println!("{c:?}: {r:?}");
        if let Err((class, msg)) = r { rep.violation(format!("policy:{class}:ageing"), msg, v.clone()); }
        rep.sample(v.clone());
        return rep
    }
    let c = cases().into_iter().find(|c| {
        c.subset as u64 == v["subset"].as_u64().unwrap()
        && format!("{:?}", c.fault) == v["fault"].as_str().unwrap()
        && format!("{:?}", c.policy) == v["policy"].as_str().unwrap()
        && c.stored_path == v["stored"].as_bool().unwrap()
        && c.source as u64 == v["source"].as_u64().unwrap_or(0)
    }).expect("case");
    let r = run_case(&gen, ctx.scratch.join("replay"), &c);
    println!("{c:?}: {r:?}");
    if let Err((class, msg)) = r { rep.violation(format!("policy:{class}"), msg, v.clone()); }
    rep.sample(v.clone());
    rep
}
