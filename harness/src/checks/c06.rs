//! C06 Stale and premature manifests/CRLs follow the configured policy.

use std::collections::BTreeSet;
use rpki::rtr::payload::Payload;
use routinator::config::FilterPolicy;
use routinator::slurm::LocalExceptions;
use serde_json::{json, Value};
use crate::data;
use crate::etree::{self, Case};
use crate::report::{Ctx, Report};
use crate::rpkigen::{self, Builder, Gen, PointFault, Stale, Truth};
use crate::util;

const CAS: [&str; 3] = ["ta0", "ca1", "gc2"];
const FAULTS: [PointFault; 3] = [PointFault::MftStale, PointFault::CrlStale, PointFault::MftPremature];
const POLICIES: [Stale; 3] = [Stale::Reject, Stale::Warn, Stale::Accept];

#[derive(Clone, Debug)]
pub struct CaseSpec { subset: u8, fault: PointFault, policy: Stale, stored_path: bool }

fn policy(p: Stale) -> FilterPolicy {
    match p { Stale::Reject => FilterPolicy::Reject, Stale::Warn => FilterPolicy::Warn, Stale::Accept => FilterPolicy::Accept }
}

fn payload_set(ds: &data::DataSet) -> BTreeSet<Payload> {
    let mut res = BTreeSet::new();
    for o in &ds.origins { res.insert(Payload::Origin(*o)); }
    for k in &ds.keys { res.insert(Payload::RouterKey(k.clone())); }
    for (c, p) in &ds.aspas { res.insert(Payload::aspa(*c, p.clone())); }
    res
}

pub fn cases() -> Vec<CaseSpec> {
    let mut res = Vec::new();
    for subset in 1..8u8 { for fault in FAULTS { for policy in POLICIES { for stored_path in [false, true] {
        if fault == PointFault::MftPremature && stored_path { continue }
        res.push(CaseSpec { subset, fault, policy, stored_path });
    }}}}
    res
}

pub fn run_case(gen: &Gen, dir: std::path::PathBuf, c: &CaseSpec) -> Result<String, (String, String)> {
    let mut spec = rpkigen::base_tree();
    for (i, name) in CAS.iter().enumerate() {
        if c.subset & (1 << i) != 0 {
            spec.tals[0].ca.find_mut(name).unwrap().point_fault = Some(c.fault);
        }
    }
    let image = Builder::new(gen, c.policy).build(&spec);
    let case = Case::new(dir);
    case.publish(&image);
    case.write_tals(&image);
    let mut config = case.config();
    let err = |e: String| ("run-failed".to_string(), e);
    let out = if c.stored_path {
        // run 1 under accept puts the stale versions into the store
        config.stale = FilterPolicy::Accept;
        etree::run(&config, false, &LocalExceptions::empty()).map_err(err)?;
        config.stale = policy(c.policy);
        etree::run(&config, true, &LocalExceptions::empty()).map_err(err)?
    } else {
        config.stale = policy(c.policy);
        etree::run(&config, false, &LocalExceptions::empty()).map_err(err)?
    };
    let served = payload_set(&out.data);
    let faulted: Vec<&str> = CAS.iter().enumerate().filter(|(i, _)| c.subset & (1 << i) != 0).map(|x| *x.1).collect();
    for t in &image.truth {
        match t.truth {
            Truth::MustNot if served.contains(&t.payload) => {
                let class = if c.fault == PointFault::MftPremature { "premature-accepted" } else { "stale-served-under-reject" };
                return Err((class.into(), format!(
                    "{:?} on {faulted:?}, policy {:?}, {} path: {} of {} is served",
                    c.fault, c.policy, if c.stored_path { "stored" } else { "fetch" },
                    data::fmt_payload(&t.payload), t.ca
                )))
            }
            Truth::Must if !served.contains(&t.payload) => {
                let class = if faulted.contains(&t.ca.as_str()) || c.policy != Stale::Reject { "stale-dropped-under-warn-or-accept" } else { "unrelated-ca-dropped" };
                return Err((class.into(), format!(
                    "{:?} on {faulted:?}, policy {:?}, {} path: {} of {} is not served",
                    c.fault, c.policy, if c.stored_path { "stored" } else { "fetch" },
                    data::fmt_payload(&t.payload), t.ca
                )))
            }
            _ => { }
        }
    }
    let _ = std::fs::remove_dir_all(&case.dir);
    Ok(format!("served={}", served.len()))
}

/// Real ageing: a manifest that becomes stale between two runs.
fn ageing_case(gen: &Gen, dir: std::path::PathBuf, pol: Stale) -> Result<String, (String, String)> {
    let mut spec = rpkigen::base_tree();
    spec.tals[0].ca.find_mut("ca1").unwrap().mft_next_update = 3;
    let image = Builder::new(gen, Stale::Accept).build(&spec);
    let case = Case::new(dir);
    case.publish(&image);
    case.write_tals(&image);
    let mut config = case.config();
    config.stale = policy(pol);
    let err = |e: String| ("run-failed".to_string(), e);
    let r1 = etree::run(&config, false, &LocalExceptions::empty()).map_err(err)?;
    let all: BTreeSet<Payload> = image.truth.iter().map(|t| t.payload.clone()).collect();
    if payload_set(&r1.data) != all {
        return Err(("ageing-setup".into(), "fresh manifest not fully served".into()))
    }
    std::thread::sleep(std::time::Duration::from_secs(4));
    let r2 = etree::run(&config, false, &LocalExceptions::empty()).map_err(err)?;
    let served = payload_set(&r2.data);
    let sub: BTreeSet<Payload> = image.truth.iter().filter(|t| t.ca == "ca1" || t.ca == "gc2").map(|t| t.payload.clone()).collect();
    let want: BTreeSet<Payload> = if pol == Stale::Reject { all.difference(&sub).cloned().collect() } else { all.clone() };
    if served != want {
        return Err(("ageing".into(), format!(
            "manifest aged past nextUpdate under {pol:?}: served {} items, expected {}", served.len(), want.len()
        )))
    }
    let _ = std::fs::remove_dir_all(&case.dir);
    Ok(format!("aged:{pol:?}"))
}

pub fn run(ctx: &Ctx) -> Report {
    util::quiet_panics();
    let gen = Gen::load();
    let mut rep = Report::new("exploration");
    let cases = cases();
    rep.rule = "base tree TA->CA->grandchild (+ second TAL); every non-empty \
        subset of the three CAs gets {stale manifest, stale CRL, premature \
        manifest}; x policy {reject, warn, accept} x path {fetch from an \
        empty cache; stored: run 1 under accept stores it, run 2 offline \
        under the policy}; oracle: reject => the CA and all descendants \
        contribute nothing and everything else is served; warn/accept => \
        everything served; premature never accepted; thorough adds a \
        manifest that really ages past nextUpdate between two runs; \
        non-trivial = all (every case carries a fault)".into();
    rep.bound = format!("{} cases", cases.len());
    let threads = std::env::var("ETREE_THREADS").ok().and_then(|s| s.parse().ok()).unwrap_or(8);
    let res = util::par_map(cases.len() as u64, threads, |i| {
        util::catch(|| run_case(&gen, ctx.scratch.join(format!("c{i}")), &cases[i as usize]))
            .unwrap_or_else(|p| Err(("panic".into(), p)))
    });
    for (i, r) in res.into_iter().enumerate() {
        rep.evaluations += 1; rep.nontrivial += 1;
        let c = &cases[i];
        match r {
            Ok(o) => rep.outcome(o),
            Err((class, msg)) => {
                rep.outcome(format!("VIOLATION:{class}"));
                rep.violation(format!("policy:{class}:{:?}:{:?}:{}", c.fault, c.policy, if c.stored_path { "stored" } else { "fetch" }),
                    msg, json!({"subset": c.subset, "fault": format!("{:?}", c.fault), "policy": format!("{:?}", c.policy), "stored": c.stored_path}));
            }
        }
    }
    if ctx.tier.thorough() {
        for pol in POLICIES {
            rep.evaluations += 1; rep.nontrivial += 1;
            match util::catch(|| ageing_case(&gen, ctx.scratch.join(format!("age-{pol:?}")), pol)).unwrap_or_else(|p| Err(("panic".into(), p))) {
                Ok(o) => rep.outcome(o),
                Err((class, msg)) => rep.violation(format!("policy:{class}:{pol:?}"), msg, json!({"ageing": format!("{pol:?}")})),
            }
        }
    }
    rep.sample(json!({"subset": ["ca1"], "fault": "CrlStale", "policy": "Reject", "path": "stored", "expect": "ca1 and gc2 contribute nothing, ta0 and the second TAL unchanged"}));
    rep
}

pub fn replay(ctx: &Ctx, v: &Value) -> Report {
    let gen = Gen::load();
    let mut rep = Report::new("exploration");
    rep.evaluations = 1; rep.nontrivial = 2;
    if v.get("ageing").is_some() { rep.sample(v.clone()); return rep }
    let c = cases().into_iter().find(|c| {
        c.subset as u64 == v["subset"].as_u64().unwrap()
        && format!("{:?}", c.fault) == v["fault"].as_str().unwrap()
        && format!("{:?}", c.policy) == v["policy"].as_str().unwrap()
        && c.stored_path == v["stored"].as_bool().unwrap()
    }).expect("case");
    let r = run_case(&gen, ctx.scratch.join("replay"), &c);
    println!("{c:?}: {r:?}");
    if let Err((class, msg)) = r { rep.violation(format!("policy:{class}"), msg, v.clone()); }
    rep.sample(v.clone());
    rep
}
