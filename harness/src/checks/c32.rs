//! C32 Failed runs are retried at most once.
//!
//! E-FAULT on the real binary: every sequence of forced run outcomes
//! (success, retryable failure, fatal failure) up to a length, for the
//! one-shot commands vrps, validate, update and for the server. The
//! binary is built from the current tree with the verification cfg; with
//! no handler installed its run-outcome hook reads `VERIF_RUN_OUTCOMES`
//! and logs every started run to `VERIF_RUN_LOG`.

use std::fs;
use std::path::{Path, PathBuf};
use std::process::{Command, Stdio};
use std::time::{Duration, Instant};
use serde_json::{json, Value};
use crate::report::{Ctx, Report};
use crate::util;

const CMDS: [&str; 5] = ["vrps", "vrps-dirty", "validate", "update", "server"];

fn bin() -> PathBuf {
    std::env::var_os("VERIF_BIN").map(PathBuf::from).unwrap_or_else(|| {
        PathBuf::from("/verif/target-bin/release/routinator")
    })
}

fn sequences(max_len: usize) -> Vec<String> {
    let mut res = Vec::new();
    let mut layer = vec![String::new()];
    for _ in 0..max_len {
        let mut next = Vec::new();
        for s in &layer {
            for c in ['o', 'r', 'f'] {
                let mut t = s.clone();
                t.push(c);
                next.push(t);
            }
        }
        res.extend(next.iter().cloned());
        layer = next;
    }
    res
}

#[derive(Debug)]
struct Obs { runs: usize, exit: Option<i32>, killed: bool, wall_ms: u128 }

fn run_one(dir: &Path, cmd: &str, seq: &str) -> Result<Obs, String> {
    // "vrps-dirty": vrps on a cache whose sanitizing fails (a truncated
    // RRDP archive file), the second fault the retry path can meet.
    let (cmd, dirty) = if cmd == "vrps-dirty" { ("vrps", true) } else { (cmd, false) };
    let _ = fs::remove_dir_all(dir);
    fs::create_dir_all(dir.join("cache")).map_err(|e| e.to_string())?;
    if dirty {
        let d = dir.join("cache").join("rrdp").join("rrdp.example.net");
        fs::create_dir_all(&d).map_err(|e| e.to_string())?;
        fs::write(d.join("truncated.bin"), b"").map_err(|e| e.to_string())?;
    }
    fs::create_dir_all(dir.join("tals")).map_err(|e| e.to_string())?;
    let conf = dir.join("routinator.conf");
    fs::write(&conf, format!(
        "repository-dir = \"{}\"\nno-rir-tals = true\nextra-tals-dir = \"{}\"\n\
         disable-rsync = true\ndisable-rrdp = {}\nrefresh = 1\n",
        dir.join("cache").display(), dir.join("tals").display(), !dirty
    )).map_err(|e| e.to_string())?;
    let log = dir.join("runs.log");
    let mut c = Command::new(bin());
    c.arg("--config").arg(&conf);
    match cmd {
        "vrps" => { c.arg("vrps").arg("-o").arg(dir.join("out.csv")); }
        "validate" => { c.arg("validate").arg("--asn").arg("64496").arg("--prefix").arg("10.0.0.0/8"); }
        "update" => { c.arg("update"); }
        "server" => { c.arg("server"); }
        _ => unreachable!()
    }
    c.env("VERIF_RUN_OUTCOMES", seq).env("VERIF_RUN_LOG", &log)
        .stdin(Stdio::null()).stdout(Stdio::null()).stderr(Stdio::null());
    let started = Instant::now();
    let mut child = c.spawn().map_err(|e| format!("cannot start {}: {e}", bin().display()))?;
    // Horizon: the one-shot commands take milliseconds; the server needs
    // about a second per successful regular run.
    let horizon = Duration::from_secs(if cmd == "server" { 6 + 2 * seq.len() as u64 } else { 20 });
    let count = |log: &Path| fs::read_to_string(log).map(|s| s.lines().count()).unwrap_or(0);
    let mut killed = false;
    let exit = loop {
        if let Some(st) = child.try_wait().map_err(|e| e.to_string())? {
            break st.code()
        }
        let runs = count(&log);
        // The sequence is used up: whatever follows succeeds.
        if runs > seq.len() + (if cmd == "server" { 0 } else { 3 }) || started.elapsed() > horizon {
            let _ = child.kill();
            let _ = child.wait();
            killed = true;
            break None
        }
        std::thread::sleep(Duration::from_millis(5));
    };
    Ok(Obs { runs: count(&log), exit, killed, wall_ms: started.elapsed().as_millis() })
}

/// Checks one observation against the property; `Err((class, msg))`.
fn judge(cmd: &str, seq: &str, o: &Obs) -> Result<String, (String, String)> {
    let s: Vec<char> = seq.chars().collect();
    let outcome_of = |i: usize| s.get(i).copied().unwrap_or('o');
    let v = |class: &str, msg: String| Err((class.to_string(), format!("{cmd} with run outcomes {seq:?}: {msg} ({o:?})")));
    if cmd != "server" {
        if o.killed {
            return v("does-not-terminate", format!("still running after {} validation runs", o.runs))
        }
        if o.runs == 0 { return v("no-run", "no validation run was started".into()) }
        if o.runs > 2 { return v("more-than-one-retry", format!("{} validation runs", o.runs)) }
        if o.runs == 2 && outcome_of(0) != 'r' {
            return v("retry-without-retryable-failure", "second run although the first did not fail retryably".into())
        }
        let last_ok = outcome_of(o.runs - 1) == 'o';
        match (last_ok, o.exit) {
            (true, Some(0)) => Ok(format!("{cmd}:runs={}:exit=0", o.runs)),
            // On the damaged cache an unforced run may fail for real.
            (true, Some(_)) if cmd == "vrps-dirty" => Ok(format!("{cmd}:runs={}:exit=err-unforced", o.runs)),
            (false, Some(c)) if c != 0 => Ok(format!("{cmd}:runs={}:exit=err", o.runs)),
            (true, e) => v("failed-although-run-succeeded", format!("exit status {e:?}")),
            (false, e) => v("success-status-after-failed-run", format!("exit status {e:?} although the last run failed")),
        }
    }
    else {
        // What must have ended the server, at the latest:
        // a fatal failure, or the second retryable failure of a regular
        // (non-initial) run.
        let mut must_stop_at = None;
        let mut regular_retries = 0;
        for (i, c) in s.iter().enumerate() {
            match c {
                'f' => { must_stop_at = Some(i); break }
                'r' if i > 0 => {
                    regular_retries += 1;
                    if regular_retries == 2 { must_stop_at = Some(i); break }
                }
                _ => { }
            }
        }
        match must_stop_at {
            Some(i) => {
                if o.killed {
                    return v("server-survives", format!(
                        "the server was still running after {} runs although run {} should have ended it", o.runs, i
                    ))
                }
                if o.runs > i + 1 {
                    return v("server-runs-on", format!("{} runs performed, run {} should have been the last", o.runs, i))
                }
                if o.exit == Some(0) {
                    return v("server-exit-status", "exit status 0 after failed validation".into())
                }
                Ok(format!("server:stopped-after-{}", o.runs))
            }
            None => {
                // Nothing in the sequence obliges the server to stop; if it
                // does stop anyway it must at least report an error.
                if !o.killed && o.exit == Some(0) {
                    return v("server-exit-status", "server exited with status 0".into())
                }
                Ok(if o.killed { "server:running".into() } else { format!("server:stopped-early-after-{}", o.runs) })
            }
        }
    }
}

//------------ what a run with several failures reports ----------------------

/// One initial (store-only) run on two validation threads in which one
/// trust anchor fails fatally (its stored certificate cannot be read: a
/// directory sits in its place) and the other retryably (nothing stored
/// for it yet). Which failure is recorded first is fixed by the length of
/// the TAL's URI list: the later one has to look up 20000 URIs that are
/// not in the store before it gets to its failure. Whatever the order,
/// the run is a fatal failure - which no command retries.
fn mixed_failures(scratch: &Path, idx: usize, fatal_first: bool) -> Result<String, (String, String)> {
    use std::str::FromStr;
    use crate::etree::{self, Case};
    use crate::rpkigen::{Builder, CaSpec, Gen, ObjSpec, Stale, TalSpec, TreeSpec};
    let gen = Gen::load();
    let host = |n: &str| format!("{n}{idx}.c32.example");
    let mk = |name: &str, key: usize, n: &str| {
        let mut ta = CaSpec::new(name, key, &host(n), "repo");
        ta.v4 = vec![(std::net::Ipv4Addr::new(10, key as u8, 0, 0), 16)];
        ta.asns = vec![(64496 + key as u32, 64496 + key as u32)];
        ta.objs = vec![ObjSpec::roa("r", 64496 + key as u32, &format!("10.{key}.0.0"), 16, 16)];
        TalSpec { name: n.into(), ta_uri: format!("rsync://{}/repo/{name}.cer", host(n)), ca: ta, wrong_key: false, https_uri: None }
    };
    let spec = TreeSpec { tals: vec![mk("taf", 0, "fatal"), mk("tar", 1, "retry")] };
    let image = Builder::new(&gen, Stale::Reject).build(&spec);
    let case = Case::new(scratch.join(format!("mixed-{idx}")));
    case.write_tals(&image);
    case.publish(&image);
    let mut config = case.config();
    config.validation_threads = 2;
    let err = |e: String| ("harness".to_string(), e);
    // store both, then: the fatal TAL's certificate becomes unreadable,
    // the retry TAL's certificate disappears from the store
    etree::run(&config, false, &routinator::slurm::LocalExceptions::empty()).map_err(|e| err(format!("filling run: {e}")))?;
    let store = routinator::store::Store::new(&config).map_err(|_| err("store".into()))?;
    let path_of = |t: &TalSpec| store.verif_ta_path(&rpki::repository::tal::TalUri::Rsync(rpki::uri::Rsync::from_str(&t.ta_uri).unwrap()));
    let fatal_path = path_of(&spec.tals[0]);
    fs::remove_file(&fatal_path).map_err(|e| err(e.to_string()))?;
    fs::create_dir_all(&fatal_path).map_err(|e| err(e.to_string()))?;
    fs::remove_file(path_of(&spec.tals[1])).map_err(|e| err(e.to_string()))?;
    // the TAL that is to fail second first names 20000 URIs nothing is stored for
    let late = if fatal_first { "retry" } else { "fatal" };
    for (name, text) in &image.tals {
        if name != late { continue }
        let mut lines: Vec<String> = (0..20000).map(|i| format!("rsync://{}/absent/{i}.cer", host("nowhere"))).collect();
        lines.extend(text.lines().map(String::from));
        fs::write(case.dir.join("tals").join(format!("{name}.tal")), lines.join("\n") + "\n").map_err(|e| err(e.to_string()))?;
    }
    let res = etree::run_initial(&config);
    let _ = fs::remove_dir_all(&case.dir);
    match res {
        Err(e) if e.contains("fatal=true") => Ok(format!("mixed:{}:fatal", if fatal_first { "fatal-first" } else { "retryable-first" })),
        Err(e) => Err(("fatal-run-reported-retryable".into(), format!(
            "an initial run in which one trust anchor failed fatally and ({}) another one retryably was reported as: {e}", if fatal_first { "after it" } else { "before it" }
        ))),
        Ok(_) => Err(("harness".into(), "the damaged run succeeded".into())),
    }
}

pub fn run(ctx: &Ctx) -> Report {
    util::quiet_panics();
    let mut rep = Report::new("fault_enumeration");
    let max_len = if ctx.tier.thorough() { 4 } else { 3 };
    let seqs = sequences(max_len);
    // the server's retry state spans more runs: one more step for it
    let server_seqs = sequences(max_len + 1);
    let mut cases: Vec<(&str, String)> = Vec::new();
    for cmd in CMDS {
        for s in if cmd == "server" { &server_seqs } else { &seqs } { cases.push((cmd, s.clone())) }
    }
    rep.rule = format!("the real routinator binary (current tree, \
        verification cfg) run as vrps / vrps on a cache whose \
        sanitizing fails (truncated RRDP archive) / validate / update / \
        server (one more step) with \
        every sequence of forced validation run outcomes over {{success, \
        retryable failure, fatal failure}} of length 1..{max_len} (runs \
        beyond the sequence succeed); observed: number of runs started, \
        exit status, termination within a horizon; oracle: one-shot \
        commands perform at most two runs, a second one only after a \
        retryable first, exit 0 iff the last performed run succeeded, and \
        terminate; the server stops at a fatal failure and at the second \
        retryable failure of a regular run at the latest, never with \
        status 0; in addition, in-process on the real engine with two \
        validation threads: one initial run in which one trust anchor \
        fails fatally and another retryably, in either order (the later \
        one held back by 20000 URIs that are not in the store) - the run \
        must be reported as a fatal failure; non-trivial = sequences with at least one failure");
    rep.bound = format!("{} one-shot command variants x {} outcome sequences (length <= {max_len}) + server x {} sequences (length <= {})", CMDS.len() - 1, seqs.len(), server_seqs.len(), max_len + 1);
    let threads = 16;
    let res = util::par_map(cases.len() as u64, threads, |i| {
        let (cmd, seq) = &cases[i as usize];
        let dir = ctx.scratch.join(format!("p{i}"));
        let o = run_one(&dir, cmd, seq);
        let _ = fs::remove_dir_all(&dir);
        o
    });
    for (i, o) in res.into_iter().enumerate() {
        let (cmd, seq) = &cases[i];
        rep.evaluations += 1;
        if seq.contains('r') || seq.contains('f') { rep.nontrivial += 1 }
        match o {
            Err(e) => {
                eprintln!("machinery error: {e}");
                std::process::exit(2)
            }
            Ok(o) => match judge(cmd, seq, &o) {
                Ok(k) => rep.outcome(k),
                Err((class, msg)) => {
                    rep.outcome(format!("VIOLATION:{class}"));
                    rep.violation(format!("retry:{cmd}:{class}"), msg, json!({"cmd": cmd, "outcomes": seq}));
                }
            }
        }
    }
    for (i, fatal_first) in [true, false].into_iter().enumerate() {
        rep.evaluations += 1;
        rep.nontrivial += 1;
        match util::catch(|| mixed_failures(&ctx.scratch, i, fatal_first)).unwrap_or_else(|p| Err(("panic".into(), p))) {
            Ok(k) => rep.outcome(k),
            Err((class, msg)) if class == "harness" => { eprintln!("machinery error: {msg}"); std::process::exit(2) }
            Err((class, msg)) => {
                rep.outcome(format!("VIOLATION:{class}"));
                rep.violation(format!("retry:run:{class}"), msg, json!({"mixed": fatal_first}));
            }
        }
    }
    rep.sample(json!({"cmd": "vrps", "outcomes": "rr", "meaning": "first run fails retryably, the retry fails retryably again"}));
    rep.sample(json!({"cmd": "server", "outcomes": "oror", "meaning": "initial run ok, regular run fails retryably, retry ok, next regular run fails retryably"}));
    rep.assumptions.push("run outcomes are forced at the start of ValidationReport::process by the cfg-only hook (environment variable); TAL-less configuration, collectors disabled, refresh 1 s".into());
    rep
}

pub fn replay(ctx: &Ctx, v: &Value) -> Report {
    let mut rep = Report::new("fault_enumeration");
    if let Some(fatal_first) = v["mixed"].as_bool() {
        let r = mixed_failures(&ctx.scratch, 9, fatal_first);
        println!("mixed failures, fatal first = {fatal_first}: {r:?}");
        if let Err((class, msg)) = r { rep.violation(format!("retry:run:{class}"), msg, v.clone()); }
        rep.evaluations = 1; rep.nontrivial = 2;
        rep.sample(v.clone());
        return rep
    }
    let cmd = v["cmd"].as_str().unwrap_or("vrps").to_string();
    let seq = v["outcomes"].as_str().unwrap_or("").to_string();
    let cmd_s: &str = CMDS.iter().find(|c| **c == cmd).copied().unwrap_or("vrps");
    match run_one(&ctx.scratch.join("replay"), cmd_s, &seq) {
        Ok(o) => {
            println!("{cmd_s} {seq:?}: {o:?}");
            if let Err((class, msg)) = judge(cmd_s, &seq, &o) {
                rep.violation(format!("retry:{cmd_s}:{class}"), msg, v.clone());
            }
        }
        Err(e) => { eprintln!("machinery error: {e}"); std::process::exit(2) }
    }
    rep.evaluations = 1; rep.nontrivial = 2;
    rep.sample(v.clone());
    rep
}
