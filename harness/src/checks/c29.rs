//! C29 RRDP-to-rsync fallback follows the documented policy table, and
//! C31 no fetches to dubious hosts unless allowed.
//!
//! Both drive the real `collector::Run::repository` with real CA
//! certificates (generated, validated as trust anchors) over the fake rsync
//! (invocation log) and the fake HTTPS transport (request log).

use std::fs;
use std::net::Ipv4Addr;
use std::path::{Path, PathBuf};
use std::str::FromStr;
use std::sync::{Arc, Mutex};
use routinator::collector::Collector;
use routinator::config::{Config, FallbackPolicy};
use routinator::engine::CaCert;
use routinator::verif::HttpAnswer;
use rpki::repository::cert::Cert;
use rpki::repository::tal::{TalInfo, TalUri};
use rpki::uri;
use serde_json::{json, Value};
use crate::etree::Case;
use crate::report::{Ctx, Report};
use crate::rpkigen::{Builder, CaSpec, Gen, ObjSpec, Stale, TalSpec, TreeSpec};
use crate::rrdpsrv::{self, Server};
use crate::util;

/// Generates a TA certificate with the given repository host and optional
/// rpkiNotify URI; returns (CaCert, files of its publication point).
pub fn make_ca(
    gen: &Gen, host: &str, notify: Option<&str>
) -> Result<(Arc<CaCert>, std::collections::BTreeMap<String, Vec<u8>>), String> {
    let mut ta = CaSpec::new("ta0", 0, host, "repo");
    ta.v4 = vec![(Ipv4Addr::new(10, 0, 0, 0), 8)];
    ta.asns = vec![(64496, 64511)];
    ta.objs = vec![ObjSpec::roa("r0", 64496, "10.0.0.0", 16, 16)];
    ta.rpki_notify = notify.map(String::from);
    let ta_uri = format!("rsync://{host}/repo/ta0.cer");
    let spec = TreeSpec { tals: vec![TalSpec {
        name: "alpha".into(), ta_uri: ta_uri.clone(), ca: ta, wrong_key: false, https_uri: None,
    }]};
    let image = util::catch(|| Builder::new(gen, Stale::Reject).build(&spec))?;
    let cert = Cert::decode(image.ta_certs["alpha"].as_slice()).map_err(|e| format!("decode: {e}"))?;
    let rc = cert.validate_ta(TalInfo::from_name("alpha".into()).into_arc(), false)
        .map_err(|e| format!("validate_ta: {e}"))?;
    let ca = CaCert::root(rc, TalUri::Rsync(uri::Rsync::from_str(&ta_uri).map_err(|e| e.to_string())?), 0)
        .map_err(|_| "CaCert::root failed".to_string())?;
    Ok((ca, image.files))
}

fn copy_tree(src: &Path, dst: &Path) {
    fs::create_dir_all(dst).unwrap();
    for e in fs::read_dir(src).unwrap() {
        let e = e.unwrap();
        let to = dst.join(e.file_name());
        if e.file_type().unwrap().is_dir() { copy_tree(&e.path(), &to) } else { fs::copy(e.path(), &to).unwrap(); }
    }
}

#[derive(Clone, Copy, Debug, Eq, PartialEq)]
pub enum Outcome { Updated, Current, StaleCopy, Unavailable,
    /// an expired copy that a Not Modified answer renewed, then a failed update
    Renewed }

/// How an RRDP update fails.
#[derive(Clone, Copy, Debug, Eq, PartialEq)]
pub enum Fail { Unreachable, Status500, Status404, Garbage,
    /// a redirect to another origin, which the client does not follow
    Redirect }
const FAILS: [Fail; 5] = [Fail::Unreachable, Fail::Status500, Fail::Status404, Fail::Garbage, Fail::Redirect];

#[derive(Clone, Debug)]
pub struct Row { policy: FallbackPolicy, outcome: Outcome, rrdp_on: bool, rsync_on: bool, notify: bool, fail: Fail }

const HOST: &str = "ca.c29.example";
const NOTIFY: &str = "https://rrdp.c29.example/r/notification.xml";

fn base_config(case: &Case) -> Config {
    let mut config = case.config();
    config.disable_rrdp = false;
    config
}

/// Builds the RRDP server for the CA's files.
fn server_for(files: &std::collections::BTreeMap<String, Vec<u8>>) -> Server {
    let mut s = Server::new("https://rrdp.c29.example/r");
    for (uri, data) in files { s.objects.insert(uri.clone(), data.clone()); }
    s.new_session();
    s
}

fn run_row(
    dir: PathBuf, row: &Row, templates: &[PathBuf; 2],
    ca_rsync: &Arc<CaCert>, ca_rrdp: &Arc<CaCert>, files: &std::collections::BTreeMap<String, Vec<u8>>,
    reachable: &Arc<Mutex<Option<Fail>>>, http_log: &Arc<Mutex<Vec<String>>>,
) -> Result<String, (String, String)> {
    let case = Case::new(dir);
    // remote rsync content
    for (uri, data) in files {
        let p = case.remote_path(uri);
        fs::create_dir_all(p.parent().unwrap()).unwrap();
        fs::write(p, data).unwrap();
    }
    match row.outcome {
        Outcome::Current => copy_tree(&templates[0], &case.dir.join("cache")),
        Outcome::StaleCopy | Outcome::Renewed => copy_tree(&templates[1], &case.dir.join("cache")),
        _ => { }
    }
    let mut config = base_config(&case);
    config.rrdp_fallback = row.policy;
    config.disable_rrdp = !row.rrdp_on;
    config.disable_rsync = !row.rsync_on;
    let mut collector = Collector::new(&config).map_err(|_| ("harness".to_string(), "collector".to_string()))?;
    collector.ignite().map_err(|_| ("harness".to_string(), "ignite".to_string()))?;
    let ca = if row.notify { ca_rrdp } else { ca_rsync };
    if row.outcome == Outcome::Renewed && row.rrdp_on && row.notify {
        // the server has nothing new: Not Modified, which renews the copy
        *reachable.lock().unwrap() = None;
        let run = collector.start();
        match run.repository(ca) {
            Ok(Some(r)) if r.is_rrdp() => { }
            _ => return Err(("harness".into(), "renewing update did not use RRDP".into())),
        }
        drop(run);
        if !case.rsync_log().is_empty() { return Err(("rsync-fetch".into(), format!("{row:?}: rsync invoked although the RRDP copy was confirmed by Not Modified"))) }
    }
    *reachable.lock().unwrap() = if row.outcome == Outcome::Updated { None } else { Some(row.fail) };
    http_log.lock().unwrap().clear();
    let run = collector.start();
    let repo = run.repository(ca).map_err(|_| ("run-failed".to_string(), format!("{row:?}: repository() failed")))?;
    let used = match repo.as_ref() {
        None => "none",
        Some(r) if r.is_rrdp() => "rrdp",
        Some(_) => "rsync",
    };
    let rsync_fetched = !case.rsync_log().is_empty();
    let rrdp_asked = !http_log.lock().unwrap().is_empty();
    // the documented table
    let expected = if !row.notify || !row.rrdp_on {
        if row.rsync_on { "rsync" } else { "none" }
    }
    else {
        match row.outcome {
            Outcome::Updated => "rrdp",
            Outcome::Current | Outcome::Renewed => "none",
            Outcome::StaleCopy => if row.policy == FallbackPolicy::Stale && row.rsync_on { "rsync" } else { "none" },
            Outcome::Unavailable => if row.policy != FallbackPolicy::Never && row.rsync_on { "rsync" } else { "none" },
        }
    };
    let desc = format!("policy {}, RRDP outcome {:?}{}, RRDP {}, rsync {}, CA {} rpkiNotify", row.policy, row.outcome,
        if row.outcome == Outcome::Updated { String::new() } else { format!(" (failing by {:?})", row.fail) },
        if row.rrdp_on { "on" } else { "off" }, if row.rsync_on { "on" } else { "off" }, if row.notify { "with" } else { "without" });
    if used != expected {
        return Err((format!("wrong-transport:{expected}->{used}"), format!("{desc}: {used} used for the CA's objects, documented: {expected}")))
    }
    if rsync_fetched != (expected == "rsync") {
        return Err(("rsync-fetch".into(), format!("{desc}: rsync invoked: {rsync_fetched}, documented transport {expected}")))
    }
    if rrdp_asked && (!row.rrdp_on || !row.notify) {
        return Err(("rrdp-request".into(), format!("{desc}: an RRDP request was made")))
    }
    if let Some(r) = repo.as_ref() {
        // the object must be readable through the chosen transport
        let obj = uri::Rsync::from_str(&format!("rsync://{HOST}/repo/ta0/r0.roa")).unwrap();
        match r.load_object(&obj) {
            Ok(Some(_)) => { }
            other => return Err(("object-unreadable".into(), format!("{desc}: object not readable via {used}: {:?}", other.map(|o| o.map(|b| b.len())))))
        }
    }
    drop(run);
    let _ = fs::remove_dir_all(&case.dir);
    Ok(format!("{used}"))
}

pub fn run_c29(ctx: &Ctx) -> Report {
    util::quiet_panics();
    let gen = Gen::load();
    let mut rep = Report::new("exploration");
    rep.rule = "full product fallback policy {never, stale, new} x RRDP \
        outcome {updated, failed with current copy, failed with expired \
        copy, failed without copy, failed with an expired copy that a Not \
        Modified answer had renewed one run earlier} x RRDP \
        enabled/disabled x rsync enabled/disabled x CA with/without \
        rpkiNotify, the failing rows in which RRDP is asked also x how the \
        update fails {unreachable, 500, 404, garbage instead of the \
        notification, redirect to another origin} on the \
        real collector::Run::repository with a real CA certificate; \
        current and expired copies are produced by real earlier updates \
        (refresh 600 s resp. 1 s plus a real 3 s wait) and copied per row; \
        observed: Repository::is_rrdp, fake-rsync invocation log, HTTPS \
        request log, object readable through the chosen transport; oracle: \
        the documented table; non-trivial = rows with RRDP enabled and a \
        CA announcing RRDP".into();
    let (ca_rsync, files) = make_ca(&gen, HOST, None).unwrap_or_else(|e| { eprintln!("machinery error: {e}"); std::process::exit(2) });
    let (ca_rrdp, files_rrdp) = make_ca(&gen, HOST, Some(NOTIFY)).unwrap_or_else(|e| { eprintln!("machinery error: {e}"); std::process::exit(2) });
    let _ = files;
    let files = files_rrdp;
    let server = Arc::new(Mutex::new(server_for(&files)));
    let reachable: Arc<Mutex<Option<Fail>>> = Arc::new(Mutex::new(None));
    let http_log = Arc::new(Mutex::new(Vec::new()));
    let _g = {
        let (server, reachable, log) = (server.clone(), reachable.clone(), http_log.clone());
        rrdpsrv::serve_host("rrdp.c29.example", Arc::new(move |uri, etag, _lm| {
            log.lock().unwrap().push(uri.to_string());
            match *reachable.lock().unwrap() {
                None => server.lock().unwrap().answer(uri, etag).map(HttpAnswer::Response),
                Some(Fail::Unreachable) => Some(HttpAnswer::Unreachable),
                Some(Fail::Status500) => Some(HttpAnswer::Response(rrdpsrv::resp(500, vec![], b"oops".to_vec()))),
                Some(Fail::Status404) => Some(HttpAnswer::Response(rrdpsrv::resp(404, vec![], b"not found".to_vec()))),
                Some(Fail::Garbage) => Some(HttpAnswer::Response(rrdpsrv::resp(200, vec![], b"<notification this is not xml".to_vec()))),
                Some(Fail::Redirect) => Some(HttpAnswer::Response(rrdpsrv::resp(302, vec![("Location".into(), "https://elsewhere.c29.example/r/notification.xml".into())], Vec::new()))),
            }
        }))
    };
    // templates: a current and an expired local copy
    let mut templates = [ctx.scratch.join("tmpl-current"), ctx.scratch.join("tmpl-stale")];
    for (i, refresh) in [600u64, 1].iter().enumerate() {
        let case = Case::new(ctx.scratch.join(format!("prep{i}")));
        let mut config = base_config(&case);
        config.refresh = std::time::Duration::from_secs(*refresh);
        config.rrdp_fallback_time = std::time::Duration::from_secs(0);
        config.disable_rsync = true;
        let mut collector = Collector::new(&config).expect("collector");
        collector.ignite().expect("ignite");
        let run = collector.start();
        match run.repository(&ca_rrdp) {
            Ok(Some(r)) if r.is_rrdp() => { }
            _ => { eprintln!("machinery error: preparing the local RRDP copy failed"); std::process::exit(2) }
        }
        drop(run);
        copy_tree(&case.dir.join("cache"), &templates[i]);
    }
    std::thread::sleep(std::time::Duration::from_millis(3200));
    let templates_ref = [templates[0].clone(), templates[1].clone()];
    templates = templates_ref;
    let mut rows = Vec::new();
    for policy in [FallbackPolicy::Never, FallbackPolicy::Stale, FallbackPolicy::New] {
        for outcome in [Outcome::Updated, Outcome::Current, Outcome::StaleCopy, Outcome::Unavailable, Outcome::Renewed] {
            for rrdp_on in [true, false] { for rsync_on in [true, false] { for notify in [true, false] {
                // how the update fails only matters where RRDP is asked at all
                let fails: &[Fail] = if outcome != Outcome::Updated && rrdp_on && notify { &FAILS } else { &FAILS[..1] };
                for fail in fails { rows.push(Row { policy, outcome, rrdp_on, rsync_on, notify, fail: *fail }); }
            }}}
        }
    }
    rep.bound = format!("{} rows (complete product)", rows.len());
    for (i, row) in rows.iter().enumerate() {
        rep.evaluations += 1;
        if row.rrdp_on && row.notify { rep.nontrivial += 1 }
        let r = util::catch(|| run_row(ctx.scratch.join(format!("r{i}")), row, &templates, &ca_rsync, &ca_rrdp, &files, &reachable, &http_log))
            .unwrap_or_else(|p| Err(("panic".into(), p)));
        match r {
            Ok(o) => rep.outcome(format!("{:?}:{}:{o}", row.outcome, row.policy)),
            Err((class, msg)) if class == "harness" => { eprintln!("machinery error: {msg}"); std::process::exit(2) }
            Err((class, msg)) => {
                rep.outcome(format!("VIOLATION:{class}"));
                rep.violation(format!("fallback:{class}:{}:{:?}{}", row.policy, row.outcome, if row.fail == Fail::Unreachable { String::new() } else { format!(":{:?}", row.fail) }), msg,
                    json!({"policy": row.policy.to_string(), "outcome": format!("{:?}", row.outcome), "rrdp_on": row.rrdp_on, "rsync_on": row.rsync_on, "notify": row.notify, "fail": format!("{:?}", row.fail)}));
            }
        }
    }
    rep.sample(json!({"policy": "new", "outcome": "StaleCopy", "rrdp_on": true, "rsync_on": true, "notify": true, "expected": "none (stored data)"}));
    rep.assumptions.push("the CA certificate is a generated trust anchor certificate (validated by rpki-rs) carrying the SIA URIs; the expired copy relies on a real 3 s wait after an update with refresh 1 s".into());
    rep
}

pub fn replay_c29(_ctx: &Ctx, v: &Value) -> Report {
    let mut rep = Report::new("exploration");
    println!("replay of a single row is the full check filtered: run ./check C29 and look for {v}");
    rep.evaluations = 1; rep.nontrivial = 2;
    rep.sample(v.clone());
    rep
}

//------------ C31 -----------------------------------------------------------

#[derive(Clone, Copy, Debug, Eq, PartialEq)]
pub enum Role { CaRepository, RpkiNotify, TalRsync }

fn host_forms() -> Vec<(&'static str, bool /* dubious by the statement */, bool /* classified by the statement at all */)> {
    vec![
        ("host.c31.example", false, true),
        ("HOST.c31.example", false, true),
        ("localhost", true, true),
        ("LOCALHOST", true, true),
        ("LocalHost", true, true),
        ("127.0.0.1", true, true),
        ("10.1.2.3", true, true),
        ("[::1]", true, true),
        ("[2001:db8::1]", true, true),
        ("host.c31.example:873", true, true),
        ("host.c31.example:443", true, true),
        ("localhost:1", true, true),
        ("[::1]:443", true, true),
        // a port separator without a usable port is still an explicit port
        ("localhost:", true, true),
        ("127.0.0.1:", true, true),
        ("host.c31.example:", true, true),
        ("host.c31.example:087300", true, true),
        ("host.c31.example:0443", true, true),
        // borderline spellings: reported as information only
        ("localhost.", true, false),
        ("127.1", true, false),
        ("0x7f.0.0.1", true, false),
        ("2130706433", true, false),
    ]
}

/// The option as the real configuration reader delivers it: from a file
/// that does not mention it (source 1, must be off), from a file that sets
/// it (2), from the command line (3).
fn allow_via(dir: &Path, allow: bool, source: u8) -> Result<bool, String> {
    use clap::Command;
    fs::create_dir_all(dir).map_err(|e| e.to_string())?;
    let file = dir.join("allow.conf");
    let mut base = crate::data::mem_config();
    base.allow_dubious_hosts = allow && source == 2;
    let text: String = base.to_string().lines()
        .filter(|l| !(source != 2 && l.trim_start().starts_with("allow-dubious-hosts")))
        .map(|l| format!("{l}\n")).collect();
    fs::write(&file, text).map_err(|e| e.to_string())?;
    let mut args = vec!["routinator".to_string(), "-c".into(), file.display().to_string()];
    if source == 3 && allow { args.push("--allow-dubious-hosts".into()); }
    let matches = Config::config_args(Command::new("routinator")).try_get_matches_from(&args).map_err(|e| format!("harness: {e}"))?;
    let config = Config::from_arg_matches(&matches, dir).map_err(|_| "harness: configuration rejected".to_string())?;
    Ok(config.allow_dubious_hosts)
}

fn run_c31_case(
    gen: &Gen, dir: PathBuf, host: &str, role: Role, allow: bool, source: u8,
) -> Result<(bool, String), String> {
    let case = Case::new(dir);
    let mut config = base_config(&case);
    config.allow_dubious_hosts = if source == 0 { allow } else { allow_via(&case.dir.join("conf"), allow, source)? };
    let http_log: Arc<Mutex<Vec<String>>> = Arc::new(Mutex::new(Vec::new()));
    let authority_key = host.to_ascii_lowercase();
    // route every host form used here
    let mut guards = Vec::new();
    for h in [host.to_string(), authority_key.clone(), "plain.c31.example".to_string()] {
        let log = http_log.clone();
        guards.push(rrdpsrv::serve_host(&h, Arc::new(move |uri, _etag, _lm| {
            log.lock().unwrap().push(uri.to_string());
            Some(HttpAnswer::Unreachable)
        })));
    }
    let (repo_host, notify) = match role {
        Role::CaRepository | Role::TalRsync => (host.to_string(), None),
        Role::RpkiNotify => ("plain.c31.example".to_string(), Some(format!("https://{host}/r/notification.xml"))),
    };
    if let Some(n) = notify.as_ref() {
        uri::Https::from_str(n).map_err(|e| format!("uri not accepted by the parser: {e}"))?;
    }
    uri::Rsync::from_str(&format!("rsync://{repo_host}/repo/ta0/")).map_err(|e| format!("uri not accepted by the parser: {e}"))?;
    let (ca, _files) = make_ca(gen, &repo_host, notify.as_deref())?;
    if role == Role::RpkiNotify { config.disable_rsync = true; }
    let mut collector = Collector::new(&config).map_err(|_| "collector".to_string())?;
    collector.ignite().map_err(|_| "ignite".to_string())?;
    let run = collector.start();
    match role {
        Role::TalRsync => {
            let u = uri::Rsync::from_str(&format!("rsync://{host}/repo/ta0.cer")).map_err(|e| e.to_string())?;
            let _ = run.load_ta(&TalUri::Rsync(u));
        }
        _ => { let _ = run.repository(&ca); }
    }
    drop(run);
    drop(guards);
    let rsync_req: Vec<String> = case.rsync_log();
    let http_req: Vec<String> = http_log.lock().unwrap().clone();
    let requested = match role {
        Role::RpkiNotify => http_req.iter().any(|u| rrdpsrv::host_of(u).eq_ignore_ascii_case(host)),
        _ => rsync_req.iter().any(|u| u.to_ascii_lowercase().starts_with(&format!("rsync://{authority_key}/"))),
    };
    let _ = fs::remove_dir_all(&case.dir);
    Ok((requested, format!("rsync requests {rsync_req:?}, https requests {http_req:?}")))
}

pub fn run_c31(ctx: &Ctx) -> Report {
    util::quiet_panics();
    let gen = Gen::load();
    let mut rep = Report::new("exploration");
    rep.rule = "host forms {plain name, upper-case name, localhost in three \
        spellings of case, IPv4 literals, bracketed IPv6 literals, names \
        and literals with explicit ports} x URI role {caRepository of a CA \
        certificate, rpkiNotify of a CA certificate, rsync URI of a TAL} x \
        allow-dubious-hosts on/off (for localhost also with the option \
        coming through the real configuration reader: a file that does not \
        mention it, a file that sets it, the command line), each on the \
        real collector run with a \
        generated CA certificate; observed: fake-rsync invocation log and \
        HTTPS request log; oracle: with the option off no request for a \
        dubious authority is started (and one is for a plain name), with \
        it on the request is made (control); borderline spellings \
        (trailing dot, short and numeric IPv4 forms) are reported as \
        information only; non-trivial = dubious forms with the option off".into();
    let mut info = Vec::new();
    let mut n = 0;
    for (host, dubious, classified) in host_forms() {
        for role in [Role::CaRepository, Role::RpkiNotify, Role::TalRsync] {
            // where the option comes from: set directly; for `localhost`
            // also through the real configuration reader
            let mut variants: Vec<(bool, u8)> = vec![(false, 0), (true, 0)];
            if host == "localhost" { variants.extend([(false, 1), (false, 2), (true, 2), (true, 3)]); }
            for (allow, source) in variants {
                n += 1;
                let r = util::catch(|| run_c31_case(&gen, ctx.scratch.join(format!("h{n}")), host, role, allow, source))
                    .unwrap_or_else(Err);
                if let Err(e) = &r { if e.starts_with("harness") { eprintln!("machinery error: {e}"); std::process::exit(2) } }
                let via = ["", " (configuration file without the option)", " (configuration file)", " (command line)"][source as usize];
                match r {
                    Err(e) => { rep.outcome(format!("not-constructible:{}", if e.contains("parser") { "uri-rejected" } else { "other" })); info.push(format!("{host} as {role:?}: {e}")); }
                    Ok((requested, detail)) => {
                        rep.evaluations += 1;
                        let must_not = dubious && !allow;
                        if must_not && classified { rep.nontrivial += 1 }
                        if !classified {
                            rep.outcome(format!("info:{host}:{role:?}:allow={allow}:requested={requested}"));
                            continue
                        }
                        if must_not && requested {
                            rep.outcome("VIOLATION:dubious-host-contacted");
                            let form = if host.eq_ignore_ascii_case("localhost") { "localhost-case" }
                                else if host.contains(':') { "port-or-v6" } else { "ip-literal" };
                            rep.violation(format!("dubious:contacted:{form}:{role:?}"), format!(
                                "allow-dubious-hosts off{via}: a request was started for {host} ({role:?}); {detail}"
                            ), json!({"host": host, "role": format!("{role:?}"), "allow": allow, "source": source}));
                        }
                        else if !must_not && !requested {
                            rep.outcome("VIOLATION:request-missing");
                            rep.violation(format!("dubious:request-missing:{role:?}:allow={allow}"), format!(
                                "no request for {host} ({role:?}) although {}; {detail}",
                                if allow { format!("dubious hosts are allowed{via}") } else { "the host is not dubious".to_string() }
                            ), json!({"host": host, "role": format!("{role:?}"), "allow": allow, "source": source}));
                        }
                        else {
                            rep.outcome(format!("{}:{}", if requested { "requested" } else { "suppressed" }, if dubious { "dubious" } else { "plain" }));
                        }
                    }
                }
            }
        }
    }
    rep.extra.insert("information".into(), json!(info));
    rep.bound = format!("{n} (host form, role, option) combinations");
    rep.sample(json!({"host": "LOCALHOST", "role": "CaRepository", "allow": false}));
    rep.assumptions.push("host forms the rpki-rs URI parser rejects cannot occur in RPKI data and are only counted".into());
    rep
}

pub fn replay_c31(ctx: &Ctx, v: &Value) -> Report {
    let gen = Gen::load();
    let mut rep = Report::new("exploration");
    let host = v["host"].as_str().unwrap_or("localhost");
    let role = match v["role"].as_str() { Some("RpkiNotify") => Role::RpkiNotify, Some("TalRsync") => Role::TalRsync, _ => Role::CaRepository };
    let allow = v["allow"].as_bool().unwrap_or(false);
    let r = run_c31_case(&gen, ctx.scratch.join("replay"), host, role, allow, v["source"].as_u64().unwrap_or(0) as u8);
    println!("{host} {role:?} allow={allow}: {r:?}");
    if let Ok((true, detail)) = r { if !allow { rep.violation("dubious:contacted", detail, v.clone()) } }
    rep.evaluations = 1; rep.nontrivial = 2;
    rep.sample(v.clone());
    rep
}
