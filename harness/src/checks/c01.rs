//! C01 Only validated payload reaches routers / C02 Valid payload is never
//! silently dropped. One engine run per case feeds both oracles.

use std::collections::BTreeSet;
use rpki::rtr::payload::Payload;
use routinator::config::{Config, FilterPolicy};
use routinator::slurm::LocalExceptions;
use serde_json::{json, Value};
use crate::data::{self, DataSet};
use crate::etree::{self, Case};
use crate::report::{Ctx, Report};
use crate::rpkigen::{
    self, Builder, CaSpec, Fault, Gen, Image, PointFault, Stale, TreeSpec,
    Truth, OBJ_FAULTS, POINT_FAULTS,
};
use crate::util;

/// Where a fault goes.
#[derive(Clone, Debug, Eq, PartialEq, Ord, PartialOrd)]
pub enum Place {
    /// (ca name, object name, fault)
    Obj(String, String, Fault),
    /// (ca name, fault of its certificate)
    Cert(String, Fault),
    /// (ca name, point fault)
    Point(String, PointFault),
    /// TAL index with a wrong key
    TalKey(usize),
}

impl Place {
    pub fn label(&self) -> String {
        match self {
            Place::Obj(c, o, f) => format!("{c}/{o}:{f:?}"),
            Place::Cert(c, f) => format!("{c}.cer:{f:?}"),
            Place::Point(c, f) => format!("{c}:{f:?}"),
            Place::TalKey(i) => format!("tal{i}:WrongKey"),
        }
    }

    /// The position without the fault kind (two faults on one position
    /// cannot be combined).
    pub fn position(&self) -> String {
        match self {
            Place::Obj(c, o, _) => format!("obj:{c}/{o}"),
            Place::Cert(c, _) => format!("cert:{c}"),
            Place::Point(c, _) => format!("point:{c}"),
            Place::TalKey(i) => format!("tal:{i}"),
        }
    }

    pub fn fingerprint_kind(&self) -> String {
        match self {
            Place::Obj(_, _, f) => format!("obj:{f:?}"),
            Place::Cert(_, f) => format!("cert:{f:?}"),
            Place::Point(_, f) => format!("point:{f:?}"),
            Place::TalKey(_) => "tal:WrongKey".into(),
        }
    }
}

pub fn apply(spec: &mut TreeSpec, place: &Place) {
    match place {
        Place::Obj(c, o, f) => {
            for tal in &mut spec.tals {
                if let Some(ca) = tal.ca.find_mut(c) {
                    for obj in &mut ca.objs { if &obj.name == o { obj.fault = Some(*f); } }
                }
            }
        }
        Place::Cert(c, f) => {
            for tal in &mut spec.tals {
                if let Some(ca) = tal.ca.find_mut(c) { ca.cert_fault = Some(*f); }
            }
        }
        Place::Point(c, f) => {
            for tal in &mut spec.tals {
                if let Some(ca) = tal.ca.find_mut(c) { ca.point_fault = Some(*f); }
            }
        }
        Place::TalKey(i) => spec.tals[*i].wrong_key = true,
    }
}

pub fn all_places(spec: &TreeSpec) -> Vec<Place> {
    let mut res = Vec::new();
    for (ti, tal) in spec.tals.iter().enumerate() {
        res.push(Place::TalKey(ti));
        let ta_name = tal.ca.name.clone();
        tal.ca.visit(&mut |ca: &CaSpec| {
            for obj in &ca.objs {
                for f in OBJ_FAULTS { res.push(Place::Obj(ca.name.clone(), obj.name.clone(), f)); }
            }
            if ca.name == ta_name {
                for f in [Fault::BadSig, Fault::Expired, Fault::NotYetValid, Fault::Undecodable] {
                    res.push(Place::Cert(ca.name.clone(), f));
                }
            }
            else {
                for f in OBJ_FAULTS { res.push(Place::Cert(ca.name.clone(), f)); }
            }
            for f in POINT_FAULTS { res.push(Place::Point(ca.name.clone(), f)); }
        });
    }
    res
}

#[derive(Clone, Debug)]
pub struct Cfg { pub strict: bool, pub stale: Stale, pub bgpsec: bool, pub aspa: bool, pub threads: usize }

impl Cfg {
    pub fn default() -> Self { Cfg { strict: false, stale: Stale::Reject, bgpsec: true, aspa: true, threads: 1 } }
    pub fn all() -> Vec<Cfg> {
        let mut res = Vec::new();
        for strict in [false, true] { for stale in [Stale::Reject, Stale::Warn, Stale::Accept] {
            for bgpsec in [true, false] { for aspa in [true, false] {
                res.push(Cfg { strict, stale, bgpsec, aspa, threads: if strict { 2 } else { 1 } });
            }}
        }}
        res
    }
    pub fn apply(&self, config: &mut Config) {
        config.strict = self.strict;
        config.stale = match self.stale {
            Stale::Reject => FilterPolicy::Reject, Stale::Warn => FilterPolicy::Warn,
            Stale::Accept => FilterPolicy::Accept
        };
        config.enable_bgpsec = self.bgpsec;
        config.enable_aspa = self.aspa;
        config.validation_threads = self.threads;
    }
    pub fn label(&self) -> String {
        format!("strict={} stale={:?} bgpsec={} aspa={}", self.strict, self.stale, self.bgpsec, self.aspa)
    }
}

pub struct CaseResult {
    pub image: Image,
    pub served: DataSet,
}

/// Builds the tree with the faults, publishes it and runs the engine once
/// from an empty cache.
pub fn run_case(
    gen: &Gen, dir: std::path::PathBuf, places: &[Place], cfg: &Cfg
) -> Result<CaseResult, String> {
    let mut spec = rpkigen::base_tree();
    for p in places { apply(&mut spec, p); }
    let image = Builder::new(gen, cfg.stale).build(&spec);
    let case = Case::new(dir);
    case.publish(&image);
    case.write_tals(&image);
    let mut config = case.config();
    cfg.apply(&mut config);
    let out = util::catch(|| etree::run(&config, false, &LocalExceptions::empty()))
        .map_err(|e| format!("engine panicked: {e}"))??;
    let _ = std::fs::remove_dir_all(&case.dir);
    // the serving iterator, not only the per-type ones
    let served = out.served.clone().map_err(|e| format!("the serving iterator yields a duplicate: {e}"))?;
    out.served_matches()?;
    Ok(CaseResult { image, served })
}

fn payload_set(ds: &DataSet) -> BTreeSet<Payload> {
    let mut res = BTreeSet::new();
    for o in &ds.origins { res.insert(Payload::Origin(*o)); }
    for k in &ds.keys { res.insert(Payload::RouterKey(k.clone())); }
    for (c, p) in &ds.aspas { res.insert(Payload::aspa(*c, p.clone())); }
    res
}

fn filtered_out(p: &Payload, cfg: &Cfg) -> bool {
    match p {
        Payload::RouterKey(_) => !cfg.bgpsec,
        Payload::Aspa(_) => !cfg.aspa,
        Payload::Origin(_) => false,
    }
}

/// Soundness (C01) and completeness (C02) verdicts for one case.
pub fn judge(
    res: &CaseResult, cfg: &Cfg, baseline: Option<&BTreeSet<Payload>>,
) -> (Vec<(String, String)>, Vec<(String, String)>) {
    let served = payload_set(&res.served);
    let mut c01 = Vec::new();
    let mut c02 = Vec::new();
    let generated: BTreeSet<Payload> = res.image.truth.iter().map(|t| t.payload.clone()).collect();
    for p in &served {
        if !generated.contains(p) {
            c01.push(("not-generated".to_string(), format!("served item {} was never published", data::fmt_payload(p))));
        }
    }
    for t in &res.image.truth {
        match t.truth {
            Truth::MustNot => if served.contains(&t.payload) {
                c01.push(("served-must-not".to_string(), format!(
                    "{} from {}/{} is served although its object/chain fails validation",
                    data::fmt_payload(&t.payload), t.ca, t.obj
                )));
            },
            Truth::Must => if !served.contains(&t.payload) && !filtered_out(&t.payload, cfg) {
                c02.push(("dropped-must".to_string(), format!(
                    "{} from valid object {}/{} is not served",
                    data::fmt_payload(&t.payload), t.ca, t.obj
                )));
            },
            Truth::DontCare => { }
        }
        if filtered_out(&t.payload, cfg) && served.contains(&t.payload) {
            c01.push(("served-disabled-type".to_string(), format!(
                "{} served although its processing is disabled", data::fmt_payload(&t.payload)
            )));
        }
    }
    // Differential: everything MUST here is also in the fault-free run and
    // vice versa for items of untouched CAs (no hand-written expectation).
    if let Some(base) = baseline {
        for t in &res.image.truth {
            if t.truth == Truth::Must && base.contains(&t.payload) != served.contains(&t.payload) {
                c02.push(("differs-from-baseline".to_string(), format!(
                    "{} of untouched {}/{} differs from the fault-free run",
                    data::fmt_payload(&t.payload), t.ca, t.obj
                )));
            }
        }
    }
    (c01, c02)
}

pub struct Outcome {
    pub evaluations: u64,
    pub nontrivial: u64,
    pub c01: Vec<(String, String, Value)>,
    pub c02: Vec<(String, String, Value)>,
    pub errors: Vec<(String, String, Value)>,
    pub outcomes: std::collections::BTreeMap<String, u64>,
    pub samples: Vec<Value>,
    pub bound: String,
}

pub fn explore(ctx: &Ctx) -> Outcome {
    util::quiet_panics();
    let gen = Gen::load();
    let spec = rpkigen::base_tree();
    let places = all_places(&spec);
    let mut cases: Vec<(Vec<Place>, Cfg)> = Vec::new();
    // 0 faults x all configs
    for cfg in Cfg::all() { cases.push((vec![], cfg)); }
    // all single faults x default config
    for p in &places { cases.push((vec![p.clone()], Cfg::default())); }
    if ctx.tier.thorough() {
        for cfg in Cfg::all().into_iter().skip(1) {
            for p in &places { cases.push((vec![p.clone()], cfg.clone())); }
        }
        // all pairs on different positions, default config
        for (i, p) in places.iter().enumerate() {
            for q in places.iter().skip(i + 1) {
                if p.position() != q.position() {
                    cases.push((vec![p.clone(), q.clone()], Cfg::default()));
                }
            }
        }
    }
    let bound = format!(
        "{} fault placements on the base tree (2 TALs, TA->CA->grandchild, 11 payload objects); \
         {} cases{}", places.len(), cases.len(),
        if ctx.tier.thorough() { " (all configs x all singles + all pairs)" } else { " (all configs x 0 faults + all singles)" }
    );
    // Fault-free baselines per config for the differential oracle.
    let mut baselines = std::collections::BTreeMap::new();
    for cfg in Cfg::all() {
        let r = run_case(&gen, ctx.scratch.join(format!("base-{}", baselines.len())), &[], &cfg)
            .expect("fault-free baseline run failed");
        baselines.insert(cfg.label(), payload_set(&r.served));
    }
    let threads = std::env::var("ETREE_THREADS").ok().and_then(|s| s.parse().ok()).unwrap_or(8);
    let mine: Vec<usize> = (0..cases.len()).filter(|i| ctx.mine(*i as u64)).collect();
    let results = util::par_map(mine.len() as u64, threads, |k| {
        let i = mine[k as usize];
        let (places, cfg) = &cases[i];
        let dir = ctx.scratch.join(format!("case-{i}"));
        let r = run_case(&gen, dir, places, cfg);
        (i, r.map(|r| {
            let j = judge(&r, cfg, baselines.get(&cfg.label()));
            let served = r.served.origins.len() + r.served.keys.len() + r.served.aspas.len();
            let mustnot = r.image.truth.iter().filter(|t| t.truth == Truth::MustNot).count();
            (j, served, mustnot)
        }))
    });
    let mut out = Outcome {
        evaluations: 0, nontrivial: 0, c01: vec![], c02: vec![], errors: vec![],
        outcomes: Default::default(), samples: vec![], bound,
    };
    for (i, r) in results {
        let (places, cfg) = &cases[i];
        let labels: Vec<String> = places.iter().map(|p| p.label()).collect();
        let replay = json!({"faults": labels, "cfg": cfg.label(), "case": i});
        out.evaluations += 1;
        match r {
            Err(e) => {
                *out.outcomes.entry("run-error".into()).or_insert(0) += 1;
                out.errors.push(("run-failed".into(), format!("faults {labels:?} {}: {e}", cfg.label()), replay));
            }
            Ok(((c01, c02), served, mustnot)) => {
                if mustnot > 0 { out.nontrivial += 1; }
                *out.outcomes.entry(format!("served={served}")).or_insert(0) += 1;
                let mut kinds: Vec<String> = places.iter().map(|p| p.fingerprint_kind()).collect();
                kinds.sort();
                for (class, msg) in c01 {
                    out.c01.push((format!("tree:{class}:{}", kinds.join("+")),
                        format!("faults {labels:?} {}: {msg}", cfg.label()), replay.clone()));
                }
                for (class, msg) in c02 {
                    out.c02.push((format!("tree:{class}:{}", kinds.join("+")),
                        format!("faults {labels:?} {}: {msg}", cfg.label()), replay.clone()));
                }
                if out.samples.len() < 4 && !places.is_empty() {
                    out.samples.push(json!({"faults": labels, "cfg": cfg.label(), "served_items": served, "must_not_items": mustnot}));
                }
            }
        }
    }
    out
}

//------------ C02 only: stored fallback and single-type CAs -----------------

/// Placements after which the fetched publication point cannot be used as
/// a whole: the engine then falls back to what it stored in an earlier run.
pub fn abandon_places(spec: &TreeSpec) -> Vec<Place> {
    all_places(spec).into_iter().filter(|p| match p {
        Place::Obj(_, _, f) => matches!(f, Fault::Missing | Fault::HashMismatch),
        Place::Point(_, _) => true,
        _ => false,
    }).collect()
}

/// Run 1 publishes the fault-free tree and fills the store; run 2 publishes
/// a newer version (manifest number and thisUpdate advanced everywhere)
/// carrying `place`. Returns what run 2 serves.
pub fn run_two(
    gen: &Gen, dir: std::path::PathBuf, place: &Place, cfg: &Cfg
) -> Result<DataSet, String> {
    let now = rpki::repository::x509::Time::now();
    let v1 = Builder::at(gen, cfg.stale, now).build(&rpkigen::base_tree());
    let mut spec = rpkigen::base_tree();
    for tal in &mut spec.tals {
        tal.ca.visit_mut(&mut |ca: &mut CaSpec| { ca.mft_number = 2; ca.mft_this_update += 600; });
    }
    apply(&mut spec, place);
    let v2 = Builder::at(gen, cfg.stale, now).build(&spec);
    let case = Case::new(dir);
    case.write_tals(&v1);
    let mut config = case.config();
    cfg.apply(&mut config);
    case.publish(&v1);
    util::catch(|| etree::run(&config, false, &LocalExceptions::empty()))
        .map_err(|e| format!("engine panicked in run 1: {e}"))??;
    case.publish(&v2);
    let out = util::catch(|| etree::run(&config, false, &LocalExceptions::empty()))
        .map_err(|e| format!("engine panicked in run 2: {e}"))??;
    let _ = std::fs::remove_dir_all(&case.dir);
    Ok(out.data)
}

/// Objects that only the second version of the base tree carries: (CA, object).
pub fn v2_only_objects() -> Vec<(&'static str, crate::rpkigen::ObjSpec)> {
    use crate::rpkigen::ObjSpec;
    vec![
        ("ta0", ObjSpec::roa("x2", 64510, "10.250.0.0", 16, 16)),
        ("ta0", ObjSpec::aspa("xa2", 64510, &[64496])),
        ("ta0", ObjSpec::router("xk2", 64510, 2)),
        ("ca1", ObjSpec::roa("x2", 64504, "10.1.250.0", 24, 24)),
        ("ca1", ObjSpec::aspa("xa2", 64504, &[64500])),
        ("ca1", ObjSpec::router("xk2", 64504, 1)),
        ("gc2", ObjSpec::roa("x2", 64505, "10.1.251.0", 24, 24)),
        ("tb0", ObjSpec::roa("x2", 65009, "192.0.2.128", 25, 25)),
        ("tb0", ObjSpec::aspa("xa2", 65009, &[65000])),
        ("tb0", ObjSpec::router("xk2", 65009, 2)),
    ]
}

/// Like `run_two`, but the second version carries additional objects in
/// every CA, which are processed first (order hook). Returns what run 2
/// serves and the second image.
pub fn run_two_with_extras(
    gen: &Gen, dir: std::path::PathBuf, place: &Place, cfg: &Cfg
) -> Result<(DataSet, Image), String> {
    let now = rpki::repository::x509::Time::now();
    let v1 = Builder::at(gen, cfg.stale, now).build(&rpkigen::base_tree());
    let mut spec = rpkigen::base_tree();
    for tal in &mut spec.tals {
        tal.ca.visit_mut(&mut |ca: &mut CaSpec| {
            ca.mft_number = 2; ca.mft_this_update += 600;
            for (c, o) in v2_only_objects() { if c == ca.name { ca.objs.push(o); } }
        });
    }
    apply(&mut spec, place);
    let v2 = Builder::at(gen, cfg.stale, now).build(&spec);
    let case = Case::new(dir);
    case.write_tals(&v1);
    let mut config = case.config();
    cfg.apply(&mut config);
    case.publish(&v1);
    util::catch(|| etree::run(&config, false, &LocalExceptions::empty()))
        .map_err(|e| format!("engine panicked in run 1: {e}"))??;
    case.publish(&v2);
    let out = util::catch(|| etree::run(&config, false, &LocalExceptions::empty()))
        .map_err(|e| format!("engine panicked in run 2: {e}"))??;
    let _ = std::fs::remove_dir_all(&case.dir);
    let served = out.served.clone().map_err(|e| format!("the serving iterator yields a duplicate: {e}"))?;
    Ok((served, v2))
}

/// The additional C01 cases; returns (evaluations, nontrivial, violations, outcomes).
fn explore_c01_extra(ctx: &Ctx) -> (u64, u64, Vec<(String, String, Value)>, std::collections::BTreeMap<String, u64>) {
    let gen = Gen::load();
    let mut viol = Vec::new();
    let mut outcomes = std::collections::BTreeMap::new();
    let threads = std::env::var("ETREE_THREADS").ok().and_then(|s| s.parse().ok()).unwrap_or(8);
    let (mut evaluations, mut nontrivial) = (0u64, 0u64);
    // (a) a fetched point that is abandoned contributes nothing, whatever
    // of it was processed before the abandonment: its new objects first
    let h = crate::hooks::hooks();
    let spec = rpkigen::base_tree();
    let mut mft_uris = Vec::new();
    {
        let img = Builder::new(&gen, Stale::Reject).build(&spec);
        let mut orders = h.orders.lock().unwrap();
        for ca in &img.cas {
            let first: Vec<String> = v2_only_objects().into_iter().filter(|(c, _)| *c == ca.name).map(|(_, o)| o.file_name()).collect();
            orders.insert(ca.mft_uri.clone(), first);
            mft_uris.push(ca.mft_uri.clone());
        }
    }
    let places = abandon_places(&spec);
    let cfg = Cfg::default();
    let base = payload_set(&run_case(&gen, ctx.scratch.join("c01x-base"), &[], &cfg).expect("fault-free baseline run failed").served);
    let res = util::par_map(places.len() as u64, threads, |i| {
        (i as usize, run_two_with_extras(&gen, ctx.scratch.join(format!("c01x-{i}")), &places[i as usize], &cfg))
    });
    for (i, r) in res {
        let place = &places[i];
        evaluations += 1;
        nontrivial += 1;
        let replay = json!({"kind": "abandoned-new-objects", "fault": place.label(), "cfg": cfg.label()});
        let ca = match place { Place::Obj(c, _, _) | Place::Point(c, _) | Place::Cert(c, _) => c.clone(), Place::TalKey(_) => String::new() };
        match r {
            Err(e) => viol.push(("tree:run-failed:abandoned-new-objects".into(), format!("second run with {}: {e}", place.label()), replay)),
            Ok((data, v2)) => {
                let served = payload_set(&data);
                let new_of_ca: BTreeSet<Payload> = v2.truth.iter().filter(|t| t.ca == ca && t.obj.starts_with('x')).map(|t| t.payload.clone()).collect();
                let all_new: BTreeSet<Payload> = v2.truth.iter().filter(|t| t.obj.starts_with('x')).map(|t| t.payload.clone()).collect();
                let leaked: Vec<String> = served.intersection(&new_of_ca).map(data::fmt_payload).collect();
                let alien: Vec<String> = served.iter().filter(|p| !base.contains(*p) && !all_new.contains(*p)).map(data::fmt_payload).collect();
                *outcomes.entry(format!("abandoned-new-objects:{}", if leaked.is_empty() && alien.is_empty() { "none-served" } else { "VIOLATION" })).or_insert(0) += 1;
                if !leaked.is_empty() {
                    viol.push((format!("tree:served-from-abandoned-point:{}", place.fingerprint_kind()), format!(
                        "after a fault-free run, the newer publication of {ca} carries {} and is abandoned, yet its new objects' payload {} is served",
                        place.label(), leaked.join(", ")
                    ), replay.clone()));
                }
                if !alien.is_empty() {
                    viol.push(("tree:not-generated:abandoned-new-objects".into(), format!("second run with {}: served items that were never published: {}", place.label(), alien.join(", ")), replay));
                }
            }
        }
    }
    { let mut orders = h.orders.lock().unwrap(); for u in &mft_uris { orders.remove(u); } }
    // (b) a point stored under a lenient policy and judged again under
    // `reject` without anything new to fetch (the stored path)
    let mut stale_cases: Vec<Place> = Vec::new();
    for tal in &spec.tals { tal.ca.visit(&mut |ca: &CaSpec| {
        for f in [PointFault::CrlStale, PointFault::MftStale] { stale_cases.push(Place::Point(ca.name.clone(), f)); }
    }); }
    let res = util::par_map(stale_cases.len() as u64, threads, |i| {
        let place = &stale_cases[i as usize];
        let r = (|| -> Result<(Vec<(String, String)>, usize), String> {
            let mut spec = rpkigen::base_tree();
            apply(&mut spec, place);
            let reject = Cfg::default();
            let image = Builder::new(&gen, Stale::Reject).build(&spec);
            let case = Case::new(ctx.scratch.join(format!("c01s-{i}")));
            case.publish(&image);
            case.write_tals(&image);
            let mut config = case.config();
            reject.apply(&mut config);
            config.stale = FilterPolicy::Accept;
            util::catch(|| etree::run(&config, false, &LocalExceptions::empty())).map_err(|e| format!("engine panicked in run 1: {e}"))??;
            config.stale = FilterPolicy::Reject;
            let out = util::catch(|| etree::run(&config, false, &LocalExceptions::empty())).map_err(|e| format!("engine panicked in run 2: {e}"))??;
            let _ = std::fs::remove_dir_all(&case.dir);
            let served = out.served.clone().map_err(|e| format!("the serving iterator yields a duplicate: {e}"))?;
            let n = served.origins.len();
            Ok((judge(&CaseResult { image, served }, &reject, None).0, n))
        })();
        (i as usize, r)
    });
    for (i, r) in res {
        let place = &stale_cases[i];
        evaluations += 1;
        nontrivial += 1;
        let replay = json!({"kind": "stored-then-reject", "fault": place.label()});
        match r {
            Err(e) => viol.push(("tree:run-failed:stored-then-reject".into(), format!("{}: {e}", place.label()), replay)),
            Ok((c01, _)) => {
                *outcomes.entry(format!("stored-then-reject:{}", if c01.is_empty() { "clean" } else { "VIOLATION" })).or_insert(0) += 1;
                for (class, msg) in c01 {
                    viol.push((format!("tree:{class}:stored-then-reject:{}", place.fingerprint_kind()), format!("stored under stale=accept, judged again under stale=reject, {}: {msg}", place.label()), replay.clone()));
                }
            }
        }
    }
    (evaluations, nontrivial, viol, outcomes)
}

/// A tree in which each payload type also occurs alone in a CA.
pub fn single_type_tree() -> TreeSpec {
    use std::net::Ipv4Addr;
    use crate::rpkigen::{ObjSpec, TalSpec};
    let mut ta = CaSpec::new("ta0", 0, "ta0.example", "repo");
    ta.v4 = vec![(Ipv4Addr::new(10, 0, 0, 0), 8)];
    ta.asns = vec![(64496, 64511)];
    ta.objs = vec![ObjSpec::roa("r0a", 64496, "10.0.0.0", 16, 16)];
    let mut asonly = CaSpec::new("asonly", 1, "ta0.example", "repo");
    asonly.asns = vec![(64500, 64501)];
    asonly.objs = vec![ObjSpec::aspa("a1", 64500, &[64496, 64497])];
    let mut keyonly = CaSpec::new("keyonly", 2, "ta0.example", "repo");
    keyonly.asns = vec![(64502, 64502)];
    keyonly.objs = vec![ObjSpec::router("k1", 64502, 0)];
    let mut roaonly = CaSpec::new("roaonly", 3, "ta0.example", "repo");
    roaonly.v4 = vec![(Ipv4Addr::new(10, 3, 0, 0), 16)];
    roaonly.objs = vec![ObjSpec::roa("r3", 64503, "10.3.0.0", 16, 24)];
    let mut empty = CaSpec::new("nopayload", 4, "ta0.example", "repo");
    empty.v4 = vec![(Ipv4Addr::new(10, 4, 0, 0), 16)];
    empty.asns = vec![(64504, 64505)];
    let mut below = CaSpec::new("below", 5, "ta0.example", "repo");
    below.asns = vec![(64504, 64504)];
    below.objs = vec![ObjSpec::aspa("a5", 64504, &[64496])];
    empty.children.push(below);
    ta.children.extend([asonly, keyonly, roaonly, empty]);
    TreeSpec { tals: vec![TalSpec {
        name: "alpha".into(), ta_uri: "rsync://ta0.example/repo/ta0.cer".into(),
        ca: ta, wrong_key: false, https_uri: None,
    }]}
}

/// Two CAs under one TA: `bad` publishes nothing (no manifest: rejected,
/// its resources become "unsafe") and holds address space of one family;
/// `good` is healthy and holds the space of the *other* family made of the
/// same leading bits. The two do not overlap.
pub fn mirror_tree(bad_is_v6: bool) -> TreeSpec {
    use std::net::Ipv4Addr;
    use crate::rpkigen::{ObjSpec, TalSpec};
    let mut ta = CaSpec::new("ta0", 0, "ta0.example", "repo");
    ta.v4 = vec![(Ipv4Addr::new(10, 0, 0, 0), 8), (Ipv4Addr::new(32, 1, 0, 0), 16)];
    ta.v6 = vec![("2001:db8::".parse().unwrap(), 32)];
    ta.asns = vec![(64496, 64511)];
    ta.objs = vec![ObjSpec::roa("r0a", 64496, "10.0.0.0", 16, 16)];
    let mut bad = CaSpec::new("bad", 1, "ta0.example", "repo");
    let mut good = CaSpec::new("good", 2, "ta0.example", "repo");
    if bad_is_v6 {
        bad.v6 = vec![("2001:db8::".parse().unwrap(), 32)];
        good.v4 = vec![(Ipv4Addr::new(32, 1, 0, 0), 16)];
        good.objs = vec![ObjSpec::roa("rg", 64500, "32.1.0.0", 16, 16), ObjSpec::roa("rg2", 64500, "32.1.13.184", 32, 32)];
    }
    else {
        bad.v4 = vec![(Ipv4Addr::new(32, 1, 13, 184), 32)];
        good.v6 = vec![("2001:db8::".parse().unwrap(), 32)];
        good.objs = vec![ObjSpec::roa("rg", 64500, "2001:db8::", 32, 48)];
    }
    bad.point_fault = Some(PointFault::NoManifest);
    ta.children.extend([bad, good]);
    TreeSpec { tals: vec![TalSpec {
        name: "alpha".into(), ta_uri: "rsync://ta0.example/repo/ta0.cer".into(),
        ca: ta, wrong_key: false, https_uri: None,
    }]}
}

/// The additional C02 cases; returns (evaluations, nontrivial, violations).
fn explore_c02_extra(ctx: &Ctx) -> (u64, u64, Vec<(String, String, Value)>, std::collections::BTreeMap<String, u64>) {
    let gen = Gen::load();
    let mut viol = Vec::new();
    let mut outcomes = std::collections::BTreeMap::new();
    let threads = std::env::var("ETREE_THREADS").ok().and_then(|s| s.parse().ok()).unwrap_or(8);
    // (a) single-type CAs under every configuration
    let cfgs = Cfg::all();
    let res = util::par_map(cfgs.len() as u64, threads, |i| {
        let cfg = &cfgs[i as usize];
        let image = Builder::new(&gen, cfg.stale).build(&single_type_tree());
        let case = Case::new(ctx.scratch.join(format!("single-{i}")));
        case.publish(&image);
        case.write_tals(&image);
        let mut config = case.config();
        cfg.apply(&mut config);
        let out = util::catch(|| etree::run(&config, false, &LocalExceptions::empty()))
            .map_err(|e| format!("engine panicked: {e}")).and_then(|r| r);
        let _ = std::fs::remove_dir_all(&case.dir);
        (i as usize, out.map(|o| judge(&CaseResult { image, served: o.data }, cfg, None).1))
    });
    let mut evaluations = 0;
    let mut nontrivial = 0;
    for (i, r) in res {
        evaluations += 1;
        nontrivial += 1;
        let cfg = &cfgs[i];
        let replay = json!({"kind": "single-type", "cfg": cfg.label()});
        match r {
            Err(e) => viol.push(("tree:run-failed:single-type".into(), format!("single-type tree {}: {e}", cfg.label()), replay)),
            Ok(c02) => {
                *outcomes.entry(format!("single-type:{}", if c02.is_empty() { "complete" } else { "VIOLATION" })).or_insert(0) += 1;
                for (class, msg) in c02 {
                    viol.push((format!("tree:{class}:single-type-ca"), format!("single-type tree {}: {msg}", cfg.label()), replay.clone()));
                }
            }
        }
    }
    // (c) a TAL with a second URI that yields nothing (tried first: https),
    // and disjoint resources that only mixing up the address families
    // makes overlap, under the unsafe-VRP reject policy
    {
        let mut extra: Vec<(String, TreeSpec, FilterPolicy)> = Vec::new();
        let mut t = rpkigen::base_tree();
        t.tals[0].https_uri = Some("https://dead.example/ta/ta0.cer".into());
        extra.push(("tal-with-dead-first-uri".into(), t, FilterPolicy::Accept));
        for policy in [FilterPolicy::Reject, FilterPolicy::Warn] {
            extra.push((format!("mirror-bad-v6:{policy}"), mirror_tree(true), policy));
            extra.push((format!("mirror-bad-v4:{policy}"), mirror_tree(false), policy));
        }
        for (i, (label, spec, policy)) in extra.iter().enumerate() {
            let cfg = Cfg::default();
            let image = Builder::new(&gen, cfg.stale).build(spec);
            let case = Case::new(ctx.scratch.join(format!("extra-{i}")));
            case.publish(&image);
            case.write_tals(&image);
            let mut config = case.config();
            cfg.apply(&mut config);
            config.unsafe_vrps = *policy;
            let out = util::catch(|| etree::run(&config, false, &LocalExceptions::empty()))
                .map_err(|e| format!("engine panicked: {e}")).and_then(|r| r);
            let _ = std::fs::remove_dir_all(&case.dir);
            evaluations += 1;
            nontrivial += 1;
            let replay = json!({"kind": "extra", "label": label});
            match out {
                Err(e) => viol.push((format!("tree:run-failed:{}", label.split(':').next().unwrap()), format!("{label}: {e}"), replay)),
                Ok(o) => {
                    let c02 = judge(&CaseResult { image, served: o.data }, &cfg, None).1;
                    *outcomes.entry(format!("{}:{}", label.split(':').next().unwrap(), if c02.is_empty() { "complete" } else { "VIOLATION" })).or_insert(0) += 1;
                    for (class, msg) in c02 {
                        viol.push((format!("tree:{class}:{}", label.split(':').next().unwrap()), format!("{label}: {msg}"), replay.clone()));
                    }
                }
            }
        }
    }
    // (d) the store loses a directory while a newer version of a point is
    // being fetched (so that moving the new point file into place fails):
    // the run must fail, or serve everything - never succeed with less
    for (i, (ca_name, module)) in [("ta0", "ta0.example/repo"), ("ca1", "ca1.example/repo"), ("tb0", "tb0.example/repo")].iter().enumerate() {
        let cfg = Cfg::default();
        evaluations += 1;
        nontrivial += 1;
        let replay = json!({"kind": "extra", "label": format!("store-directory-lost:{ca_name}")});
        let r = (|| -> Result<Option<BTreeSet<Payload>>, String> {
            let now = rpki::repository::x509::Time::now();
            let v1 = Builder::at(&gen, cfg.stale, now).build(&rpkigen::base_tree());
            let mut spec = rpkigen::base_tree();
            for tal in &mut spec.tals { tal.ca.visit_mut(&mut |ca: &mut CaSpec| { ca.mft_number = 2; ca.mft_this_update += 600; }); }
            let v2 = Builder::at(&gen, cfg.stale, now).build(&spec);
            let case = Case::new(ctx.scratch.join(format!("lost-{i}")));
            case.write_tals(&v1);
            let mut config = case.config();
            cfg.apply(&mut config);
            case.publish(&v1);
            util::catch(|| etree::run(&config, false, &LocalExceptions::empty())).map_err(|e| format!("harness: engine panicked in run 1: {e}"))?.map_err(|e| format!("harness: run 1: {e}"))?;
            case.publish(&v2);
            let stored = config.cache_dir.join("stored").join("rsync");
            std::fs::write(case.dir.join("on-fetch"), format!("{module}\t{}\t{}.away", stored.display(), stored.display())).map_err(|e| format!("harness: {e}"))?;
            let out = util::catch(|| etree::run(&config, false, &LocalExceptions::empty())).map_err(|e| format!("engine panicked in run 2: {e}"))?;
            let used = !case.dir.join("on-fetch").exists();
            let _ = std::fs::remove_dir_all(&case.dir);
            if !used { return Err("harness: the side effect was never triggered".into()) }
            Ok(out.ok().map(|o| payload_set(&o.data)))
        })();
        match r {
            Err(e) if e.starts_with("harness") => { eprintln!("machinery error: {e}"); std::process::exit(2) }
            Err(e) => viol.push(("tree:run-failed:store-directory-lost".into(), e, replay)),
            Ok(None) => { *outcomes.entry("store-directory-lost:run-failed".into()).or_insert(0) += 1; }
            Ok(Some(served)) => {
                let base_all = payload_set(&run_case(&gen, ctx.scratch.join("lost-base"), &[], &cfg).expect("baseline").served);
                let missing: Vec<String> = base_all.difference(&served).map(data::fmt_payload).collect();
                *outcomes.entry(format!("store-directory-lost:{}", if missing.is_empty() { "run-ok-complete" } else { "VIOLATION" })).or_insert(0) += 1;
                if !missing.is_empty() {
                    viol.push(("tree:dropped-must:store-directory-lost".into(), format!(
                        "the store's rsync directory vanished while {ca_name}'s module was being fetched; the run was reported successful although it serves less than the published data: missing {}", missing.join(", ")
                    ), replay));
                }
            }
        }
    }
    // (b) fall-back to the stored point: every placement that voids a
    // fetched point, after a fault-free run
    let places = abandon_places(&rpkigen::base_tree());
    let cfgs2: Vec<Cfg> = if ctx.tier.thorough() { Cfg::all().into_iter().filter(|c| c.bgpsec && c.aspa).collect() } else { vec![Cfg::default()] };
    let base: std::collections::BTreeMap<String, BTreeSet<Payload>> = cfgs2.iter().map(|cfg| {
        let r = run_case(&gen, ctx.scratch.join("two-base"), &[], cfg).expect("fault-free baseline run failed");
        (cfg.label(), payload_set(&r.served))
    }).collect();
    let cases: Vec<(Place, Cfg)> = cfgs2.iter().flat_map(|c| places.iter().map(move |p| (p.clone(), c.clone()))).collect();
    let res = util::par_map(cases.len() as u64, threads, |i| {
        let (place, cfg) = &cases[i as usize];
        (i as usize, run_two(&gen, ctx.scratch.join(format!("two-{i}")), place, cfg))
    });
    for (i, r) in res {
        let (place, cfg) = &cases[i];
        evaluations += 1;
        nontrivial += 1;
        let replay = json!({"kind": "stored-fallback", "fault": place.label(), "cfg": cfg.label()});
        match r {
            Err(e) => viol.push(("tree:run-failed:stored-fallback".into(), format!("second run with {} {}: {e}", place.label(), cfg.label()), replay)),
            Ok(data) => {
                let served = payload_set(&data);
                let missing: Vec<String> = base[&cfg.label()].difference(&served).map(data::fmt_payload).collect();
                *outcomes.entry(format!("stored-fallback:{}", if missing.is_empty() { "complete" } else { "VIOLATION" })).or_insert(0) += 1;
                if !missing.is_empty() {
                    viol.push((format!("tree:dropped-stored:{}", place.fingerprint_kind()), format!(
                        "after a fault-free run, a newer publication with {} ({}) made the run drop {} although the stored, still current point holds them",
                        place.label(), cfg.label(), missing.join(", ")
                    ), replay));
                }
            }
        }
    }
    (evaluations, nontrivial, viol, outcomes)
}

fn report_for(ctx: &Ctx, which: usize) -> Report {
    let out = explore(ctx);
    let mut rep = Report::new("exploration");
    rep.evaluations = out.evaluations;
    rep.nontrivial = out.nontrivial;
    rep.bound = out.bound;
    rep.outcomes = out.outcomes;
    rep.samples = out.samples;
    rep.rule = "generated, validly signed trees (rpki-rs builders + OpenSSL \
        signer) served by a fake rsync to the real Engine / \
        ValidationReport::process / into_snapshot from an empty cache; \
        faults: per object {bad signature, resource overclaim, revoked, \
        expired, not yet valid, other CRL DP, hash mismatch, missing, not \
        listed, undecodable}, per CA certificate the same, per publication \
        point {manifest bad signature / expired EE / stale / premature / \
        undecodable / missing, CRL stale / missing / bad signature / wrong \
        hash / not listed}, TAL with another key; ground truth \
        MUST / MUST-NOT / DON'T-CARE from the spec; non-trivial = cases \
        with at least one MUST-NOT item".into();
    let list = if which == 1 { out.c01 } else { out.c02 };
    for (fp, msg, replay) in list { rep.violation(fp, msg, replay); }
    if which == 1 && ctx.shard.is_none_or(|(i, _)| i == 0) {
        let (e, n, viol, outcomes) = explore_c01_extra(ctx);
        rep.evaluations += e;
        rep.nontrivial += n;
        for (k, v) in outcomes { *rep.outcomes.entry(k).or_insert(0) += v; }
        for (fp, msg, replay) in viol { rep.violation(fp, msg, replay); }
        rep.rule.push_str("; C01 additionally, as two-run histories on \
            one cache: (a) after a fault-free run a newer publication in \
            which every CA carries additional objects (ROA, ASPA, router \
            certificate; processed first through the order hook) and one \
            CA carries a placement that voids its fetched point - none of \
            that CA's new objects may be served; (b) a point with a stale \
            CRL or manifest stored under stale=accept and judged again \
            under stale=reject with nothing new to fetch - nothing below it \
            may be served");
        rep.bound.push_str("; + every point-voiding placement and every stale placement as a second run");
    }
    if which == 2 && ctx.shard.is_none_or(|(i, _)| i == 0) {
        let (e, n, viol, outcomes) = explore_c02_extra(ctx);
        rep.evaluations += e;
        rep.nontrivial += n;
        for (k, v) in outcomes { *rep.outcomes.entry(k).or_insert(0) += v; }
        for (fp, msg, replay) in viol { rep.violation(fp, msg, replay); }
        rep.rule.push_str("; C02 additionally: a tree in which each payload \
            type occurs alone in a CA (ASPA only, router key only, ROA \
            only, a CA without payload above an ASPA-only CA) under all 24 \
            configurations; and two-run histories: a fault-free run fills \
            the store, then a newer publication carries one placement that \
            voids a fetched point (listed file missing / hash mismatch, \
            every manifest and CRL fault) - everything the fault-free run \
            served must still be served from the stored points; a TAL \
            whose first (https) URI yields nothing; and a rejected CA \
            holding one address family next to a healthy CA holding the \
            other family's space with the same leading bits, under \
            unsafe-vrps reject and warn; and a newer publication during \
            whose fetch the store's directory vanishes (the new point \
            file cannot be moved into place): the run fails or serves \
            everything");
        rep.bound.push_str("; + 24 single-type runs + every point-voiding placement as a second run");
    }
    for (fp, msg, replay) in out.errors { rep.violation(fp, msg, replay); }
    rep.assumptions.push("rsync transport only here (RRDP paths: C24/C25/C29/C41); \
        payload values are unique per object so set membership identifies the source".into());
    rep
}

pub fn run_c01(ctx: &Ctx) -> Report { report_for(ctx, 1) }
pub fn run_c02(ctx: &Ctx) -> Report { report_for(ctx, 2) }

pub fn replay(ctx: &Ctx, v: &Value) -> Report {
    let mut rep = Report::new("exploration");
    let gen = Gen::load();
    let spec = rpkigen::base_tree();
    let places = all_places(&spec);
    if let Some(kind) = v["kind"].as_str() {
        let cfg = Cfg::all().into_iter().find(|c| Some(c.label().as_str()) == v["cfg"].as_str()).unwrap_or(Cfg::default());
        rep.evaluations = 1; rep.nontrivial = 1;
        rep.sample(v.clone());
        if kind == "abandoned-new-objects" || kind == "stored-then-reject" {
            // these depend on process-wide order hooks: re-run the whole family
            let (_, _, viol, _) = explore_c01_extra(ctx);
            for (fp, msg, r) in viol { println!("{fp}: {msg}"); rep.violation(fp, msg, r); }
            return rep
        }
        if kind == "stored-fallback" {
            let Some(place) = places.iter().find(|p| Some(p.label().as_str()) == v["fault"].as_str()) else {
                eprintln!("unknown fault"); std::process::exit(2)
            };
            let base = payload_set(&run_case(&gen, ctx.scratch.join("replay-base"), &[], &cfg).expect("baseline").served);
            match run_two(&gen, ctx.scratch.join("replay"), place, &cfg) {
                Ok(data) => {
                    println!("second run served: {}", data.describe());
                    let missing: Vec<String> = base.difference(&payload_set(&data)).map(data::fmt_payload).collect();
                    if !missing.is_empty() {
                        rep.violation(format!("tree:dropped-stored:{}", place.fingerprint_kind()), format!("dropped {}", missing.join(", ")), v.clone());
                    }
                }
                Err(e) => rep.violation("tree:run-failed:stored-fallback", e, v.clone()),
            }
        }
        else {
            let label = v["label"].as_str().unwrap_or("");
            let policy = if label.ends_with(":reject") { FilterPolicy::Reject } else if label.ends_with(":warn") { FilterPolicy::Warn } else { FilterPolicy::Accept };
            let spec = if kind != "extra" { single_type_tree() }
                else if label.starts_with("mirror-bad-v6") { mirror_tree(true) }
                else if label.starts_with("mirror-bad-v4") { mirror_tree(false) }
                else { let mut t = rpkigen::base_tree(); t.tals[0].https_uri = Some("https://dead.example/ta/ta0.cer".into()); t };
            let image = Builder::new(&gen, cfg.stale).build(&spec);
            let case = Case::new(ctx.scratch.join("replay"));
            case.publish(&image);
            case.write_tals(&image);
            let mut config = case.config();
            cfg.apply(&mut config);
            config.unsafe_vrps = policy;
            match etree::run(&config, false, &LocalExceptions::empty()) {
                Ok(o) => {
                    println!("served: {}", o.data.describe());
                    for (c, m) in judge(&CaseResult { image, served: o.data }, &cfg, None).1 {
                        println!("{c}: {m}");
                        rep.violation(format!("tree:{c}:single-type-ca"), m, v.clone());
                    }
                }
                Err(e) => rep.violation("tree:run-failed:single-type", e, v.clone()),
            }
        }
        return rep
    }
    let want: Vec<String> = v["faults"].as_array().unwrap().iter().map(|x| x.as_str().unwrap().to_string()).collect();
    let sel: Vec<Place> = places.into_iter().filter(|p| want.contains(&p.label())).collect();
    let cfg = Cfg::all().into_iter().find(|c| Some(c.label().as_str()) == v["cfg"].as_str()).unwrap_or(Cfg::default());
    match run_case(&gen, ctx.scratch.join("replay"), &sel, &cfg) {
        Ok(r) => {
            println!("served: {}", r.served.describe());
            for t in &r.image.truth { println!("  {:?} {} ({}/{})", t.truth, data::fmt_payload(&t.payload), t.ca, t.obj); }
            let (c01, c02) = judge(&r, &cfg, None);
            for (c, m) in c01.into_iter().chain(c02) { println!("{c}: {m}"); rep.violation(format!("tree:{c}"), m, v.clone()); }
        }
        Err(e) => { println!("run failed: {e}"); rep.violation("tree:run-failed", e, v.clone()); }
    }
    rep.evaluations = 1; rep.nontrivial = 2;
    rep.sample(v.clone());
    rep
}
