//! C14 Serials advance once per change and retained history is bounded.

use rpki::rtr::server::PayloadSource;
use rpki::rtr::{Serial, State};
use serde_json::{json, Value};
use crate::report::{Ctx, Report};
use crate::util;
use super::c13::World;

const KEEPS: [usize; 7] = [0, 1, 2, 3, 10, 65535, 1 << 20];

fn run_one(keep: usize, seq: &[usize]) -> (Vec<(String, String)>, u64, u64) {
    let mut w = World::new(keep, 0);
    w.sets = sets();
    let mut viol = Vec::new();
    let mut changes = 0u32;
    let mut cur: Option<usize> = None;
    let mut max_retained = 0u64;
    let mut steps = 0;
    for (step, idx) in seq.iter().enumerate() {
        let claimed = w.update(*idx);
        steps += 1;
        let changed = match cur {
            None => true,
            Some(c) => c != *idx
        };
        if cur.is_some() && changed { changes += 1; }
        cur = Some(*idx);
        if claimed != changed {
            viol.push(("changed-flag".to_string(), format!(
                "step {step}: update() returned {claimed}, data changed: {changed}"
            )));
        }
        let serial = w.history.read().serial();
        if serial != Serial::from(changes) {
            viol.push(("serial".to_string(), format!(
                "step {step}: serial {serial} after {changes} changing runs"
            )));
        }
        if w.history.notify().serial() != serial {
            viol.push(("notify".to_string(), "notify() serial differs".into()));
        }
        let retained = w.history.verif_delta_count();
        max_retained = max_retained.max(retained as u64);
        let bound = std::cmp::max(keep, 1);
        if retained > bound {
            viol.push((format!("retained>bound:keep={keep}"), format!(
                "step {step}: {retained} change sets retained with \
                 history-size {keep} (bound {bound})"
            )));
        }
        // Public observation of the same thing: how many distinct client
        // serials behind current get a change set.
        let session = w.history.read().rtr_session();
        let mut served = 0;
        for back in 1..=(changes.min(12)) {
            let s = changes - back;
            if w.history.diff(State::from_parts(session, Serial::from(s))).is_some() {
                served += 1;
            }
        }
        if served > bound {
            viol.push((format!("served>bound:keep={keep}"), format!(
                "step {step}: {served} old serials served with history-size {keep}"
            )));
        }
        if !viol.is_empty() { break }
    }
    (viol, max_retained, steps)
}

/// Data sets whose pairwise differences are a single payload type each:
/// 0 -> 1 changes only a router key, 0 -> 2 only an ASPA, 1 -> 2 both,
/// 0 -> 3 only an origin.
pub fn sets() -> Vec<crate::data::DataSet> {
    use crate::data;
    let o = data::origin_universe();
    let k = data::key_universe();
    let mut s0 = data::DataSet::default();
    s0.origins.insert(o[0]);
    let mut s1 = s0.clone();
    s1.keys.insert(k[0].clone());
    let mut s2 = s0.clone();
    let a = data::aspa(64496, &[64497]);
    s2.aspas.insert(a.customer, a.providers.clone());
    let mut s3 = s0.clone();
    s3.origins.insert(o[1]);
    vec![s0, s1, s2, s3]
}

fn all_seqs(n: usize, len: usize) -> Vec<Vec<usize>> {
    let mut res = vec![vec![]];
    for _ in 0..len {
        let mut next = Vec::new();
        for s in &res {
            for i in 0..n {
                let mut t = s.clone(); t.push(i); next.push(t);
            }
        }
        res = next;
    }
    res
}

pub fn run(ctx: &Ctx) -> Report {
    util::quiet_panics();
    let mut rep = Report::new("model_checking");
    let len = if ctx.tier.thorough() { 9 } else { 7 };
    let seqs = all_seqs(4, len);
    rep.rule = "every sequence of validation results over 4 data sets that \
        differ pairwise in a single payload type (router key only, ASPA \
        only, origin only; repeat = unchanged run; A,B,A = change back) x history-size in \
        {0,1,2,3,10,65535,2^20}; after every run: serial == number of \
        changing runs, update() flag, retained change sets <= \
        max(history-size,1) (cfg accessor and public count of served old \
        serials); non-trivial = histories with more changes than \
        max(history-size,1)".into();
    rep.bound = format!("all 4^{len} histories, every prefix checked");
    let n = (KEEPS.len() * seqs.len()) as u64;
    let res = util::par_map(n, util::cores(), |i| {
        let keep = KEEPS[i as usize / seqs.len()];
        let seq = &seqs[i as usize % seqs.len()];
        let changes = seq.windows(2).filter(|w| w[0] != w[1]).count();
        (keep, seq.clone(), changes, run_one(keep, seq))
    });
    for (keep, seq, changes, (viol, max_retained, steps)) in res {
        rep.evaluations += 1;
        rep.transitions += steps;
        if changes > std::cmp::max(keep, 1) { rep.nontrivial += 1; }
        rep.outcome(format!("keep={keep}:max_retained={max_retained}"));
        for (class, msg) in viol {
            rep.violation(
                format!("history:{class}"),
                format!("history-size {keep}, history {seq:?}: {msg}"),
                json!({"keep": keep, "seq": seq})
            );
        }
    }
    rep.states = n;
    rep.traces = n;
    rep.sample(json!({"keep": 2, "seq": [0, 1, 1, 2, 0], "expect_serials": [0, 1, 1, 2, 3]}));
    rep.sample(json!({"keep": 0, "seq": [0, 1, 0, 1], "expect_retained_max": 1}));
    rep.assumptions.push("history-size values: every class the option \
        parsers distinguish (0, 1, small, default, file maximum 65535, \
        beyond the file maximum via command line)".into());
    rep
}

pub fn replay(_ctx: &Ctx, v: &Value) -> Report {
    let mut rep = Report::new("model_checking");
    let keep = v["keep"].as_u64().unwrap() as usize;
    let seq: Vec<usize> = v["seq"].as_array().unwrap().iter()
        .map(|x| x.as_u64().unwrap() as usize).collect();
    let (viol, max_retained, steps) = run_one(keep, &seq);
    println!("keep={keep} seq={seq:?} max_retained={max_retained}");
    for (class, msg) in viol {
        println!("{class}: {msg}");
        rep.violation(format!("history:{class}"), msg, v.clone());
    }
    rep.evaluations = 1; rep.states = 1; rep.transitions = steps; rep.traces = 1;
    rep.sample(v.clone());
    rep
}
