//! C13 Serial-based synchronisation is exact or refused.
//!
//! All update histories up to a length x history sizes x serial bases
//! (wrap-around); after every step every client serial in a window around
//! the interesting points (thorough: all 2^32 serials) is presented to the
//! real history through `PayloadSource::diff` and `delta_since`.

use std::collections::BTreeMap;
use rpki::rtr::payload::{Action, Payload};
use rpki::rtr::server::{PayloadDiff, PayloadSet, PayloadSource};
use rpki::rtr::{Serial, State};
use routinator::payload::SharedHistory;
use serde_json::{json, Value};
use crate::data::{self, DataSet};
use crate::report::{Ctx, Report};
use crate::util;

/// The reference: which data each issued serial stands for.
#[derive(Clone, Debug, Default)]
pub struct Issued {
    /// In issue order: (serial, data set index)
    pub list: Vec<(u32, usize)>,
}

impl Issued {
    pub fn cur(&self) -> (u32, usize) { *self.list.last().unwrap() }
    pub fn find(&self, s: u32) -> Option<(usize, usize)> {
        // position from the end (0 = current), data index
        self.list.iter().rev().enumerate().find(|(_, x)| x.0 == s)
            .map(|(age, x)| (age, x.1))
    }
}

pub struct World {
    pub history: SharedHistory,
    pub config: routinator::Config,
    pub sets: Vec<DataSet>,
    pub issued: Issued,
    pub keep: usize,
    pub base: u32,
    pub shifted: bool,
}

impl World {
    pub fn new(keep: usize, base: u32) -> Self {
        let mut config = data::mem_config();
        config.history_size = keep;
        World {
            history: SharedHistory::from_config(&config),
            config, sets: data::history_sets(),
            issued: Issued::default(), keep, base, shifted: false,
        }
    }

    /// Performs an update to data set `idx`; returns the claimed `changed`.
    pub fn update(&mut self, idx: usize) -> bool {
        let res = data::install(&self.history, &self.config, &self.sets[idx]);
        self.history.mark_update_done();
        match self.issued.list.last().copied() {
            None => self.issued.list.push((0, idx)),
            Some((s, cur)) => {
                if cur != idx {
                    self.issued.list.push((s.wrapping_add(1), idx));
                    if !self.shifted {
                        // First delta exists now: move into the serial
                        // region under test.
                        self.shifted = true;
                        if self.base != 0 {
                            let mut rest = self.base;
                            while rest > 0 {
                                let step = rest.min(0x7fff_ffff);
                                self.history.verif_shift_serials(step);
                                rest -= step;
                            }
                            for item in &mut self.issued.list {
                                item.0 = item.0.wrapping_add(self.base);
                            }
                        }
                    }
                }
            }
        }
        res
    }
}

pub fn diff_actions(
    diff: &mut impl PayloadDiff
) -> Vec<(Payload, Action)> {
    let mut res = Vec::new();
    while let Some((p, a)) = diff.next() {
        res.push((data::to_owned(p), a));
    }
    res
}

/// Checks the answer for one client serial; `Err((class, msg))`.
pub fn check_serial(w: &World, s: u32) -> Result<&'static str, (String, String)> {
    let (cur, cur_idx) = w.issued.cur();
    let session = w.history.read().rtr_session();
    let ans = w.history.diff(State::from_parts(session, Serial::from(s)));
    let expect = w.issued.find(s);
    // The number of serials behind current that must be served: the
    // retained window holds min(#changes, max(keep, 1)) deltas.
    let window = std::cmp::max(w.keep, 1);
    match (ans, expect) {
        (None, None) => Ok("refused-unknown"),
        (None, Some((age, _))) => {
            if age == 0 {
                Err(("current-refused".into(), format!(
                    "client at current serial {s} was refused"
                )))
            }
            else if age <= window {
                Err((format!("window-refused:age={age},keep={}", w.keep), format!(
                    "client serial {s} is {age} behind current {cur} with \
                     history-size {} but was refused", w.keep
                )))
            }
            else {
                Ok("refused-old")
            }
        }
        (Some((state, mut diff)), expect) => {
            let actions = diff_actions(&mut diff);
            let (age, idx) = match expect {
                Some(x) => x,
                None => {
                    let dist = cur.wrapping_sub(s);
                    let class = if dist == 0x8000_0000 { "incomparable" }
                        else if dist > 0x8000_0000 { "future" }
                        else { "past-unknown" };
                    return Err((format!("unknown-served:{class}"), format!(
                        "serial {s} was never issued (current {cur}, \
                         distance {dist}) but got a delta with {} actions \
                         tagged serial {}", actions.len(), state.serial()
                    )))
                }
            };
            if state.serial() != Serial::from(cur) || state.session() != session {
                return Err(("wrong-tag".into(), format!(
                    "delta for client serial {s} tagged {:?}, current {cur}",
                    state
                )))
            }
            let mut applied = w.sets[idx].clone();
            if let Err(err) = applied.apply(&actions) {
                return Err(("delta-unappliable".into(), format!(
                    "delta {:?} for client serial {s}: {err}",
                    data::fmt_actions(&actions)
                )))
            }
            if applied != w.sets[cur_idx] {
                return Err(("delta-wrong".into(), format!(
                    "client at serial {s} ends with {} instead of {}",
                    applied.describe(), w.sets[cur_idx].describe()
                )))
            }
            if age == 0 && !actions.is_empty() {
                return Err(("current-nonempty".into(),
                    "client at current serial got a non-empty delta".into()))
            }
            Ok(if age == 0 { "served-current" } else { "served-delta" })
        }
    }
}

pub fn interesting_serials(w: &World) -> Vec<u32> {
    let (cur, _) = w.issued.cur();
    let mut res = Vec::new();
    let k = w.keep as i64;
    for d in -(k + 4)..=4 {
        res.push(cur.wrapping_add(d as u32));
    }
    for d in [0x8000_0000u32, 0x7fff_ffff, 0x8000_0001, 0x7fff_fffe, 0x8000_0002] {
        res.push(cur.wrapping_add(d));
        res.push(cur.wrapping_sub(d));
        for (s, _) in &w.issued.list {
            res.push(s.wrapping_add(d));
        }
    }
    res.extend([0, 1, u32::MAX, u32::MAX - 1, 0x8000_0000, 0x7fff_ffff]);
    for (s, _) in &w.issued.list { res.push(*s) }
    res.sort();
    res.dedup();
    res
}

/// A data set as the JSON documents present it: key -> item (ASPAs are
/// keyed by customer: an announcement replaces).
fn json_set(ds: &DataSet) -> BTreeMap<String, String> {
    use rpki::rtr::payload::Payload;
    let mut res = BTreeMap::new();
    let mut put = |p: Payload| {
        let v = crate::checks::c18::expect_item(&p);
        let key = if v["type"] == "aspa" { format!("aspa:{}", v["customerAsn"]) } else { v.to_string() };
        res.insert(key, v.to_string());
    };
    for o in &ds.origins { put(Payload::Origin(*o)); }
    for k in &ds.keys { put(Payload::RouterKey(k.clone())); }
    for (c, p) in &ds.aspas { put(Payload::aspa(*c, p.clone())); }
    res
}

fn json_key(v: &Value) -> String {
    if v["type"] == "aspa" { format!("aspa:{}", v["customerAsn"]) } else { v.to_string() }
}

/// The `/json-delta` view of the same history: every client serial around
/// the window under the own session and under foreign sessions that differ
/// from it in one place only (next / previous, bit 16, bit 32, bit 63).
fn check_http(w: &World, httpd: &crate::httpd::Httpd, queries: &mut u64) -> Result<(), (String, String)> {
    let (cur, cur_idx) = w.issued.cur();
    let own = w.history.read().session();
    let k = w.keep as i64;
    let current = json_set(&w.sets[cur_idx]);
    let sessions = [own, own.wrapping_add(1), own.wrapping_sub(1), own ^ (1 << 16), own.wrapping_add(1 << 16),
        own.wrapping_sub(1 << 16), own ^ (1 << 32), own ^ (1 << 63)];
    for d in -(k + 2)..=1 {
        let s = cur.wrapping_add(d as u32);
        for (si, session) in sessions.iter().enumerate() {
            *queries += 1;
            let uri = format!("/json-delta?session={session}&serial={s}");
            let a = httpd.get(&uri, &[]);
            let what = format!("{uri} (own session {own}, current serial {cur})");
            if a.status != 200 { return Err(("http-status".into(), format!("{what}: status {}", a.status))) }
            let v: Value = serde_json::from_slice(&a.body).map_err(|e| ("http-json".to_string(), format!("{what}: {e}")))?;
            if v["session"].as_str() != Some(&own.to_string()) && v["session"].as_u64() != Some(own) {
                return Err(("http-session".into(), format!("{what}: answer carries session {}", v["session"])))
            }
            if v["serial"].as_u64() != Some(cur as u64) {
                return Err(("http-serial".into(), format!("{what}: answer carries serial {}", v["serial"])))
            }
            let ann = v["announced"].as_array().cloned().unwrap_or_default();
            let wd = v["withdrawn"].as_array().cloned().unwrap_or_default();
            if v["reset"].as_bool() == Some(true) {
                let got: BTreeMap<String, String> = ann.iter().map(|x| (json_key(x), x.to_string())).collect();
                if got != current || got.len() != ann.len() {
                    return Err(("http-reset-wrong".into(), format!("{what}: reset document does not carry the current data")))
                }
                // the own session inside the window must get a delta
                if si == 0 {
                    if let Some((age, _)) = w.issued.find(s) {
                        if age > 0 && age <= std::cmp::max(w.keep, 1) {
                            return Err((format!("http-window-reset:age={age},keep={}", w.keep), format!("{what}: client {age} behind with history-size {} was sent a reset", w.keep)))
                        }
                    }
                }
                continue
            }
            // a delta: only for our own session and a serial we issued
            if si != 0 {
                return Err(("http-foreign-session-served".into(), format!("{what}: a delta was served to a foreign session")))
            }
            let Some((_, idx)) = w.issued.find(s) else {
                return Err(("http-unknown-served".into(), format!("{what}: a delta was served for a serial never issued")))
            };
            if v["fromSerial"].as_u64() != Some(s as u64) {
                return Err(("http-from-serial".into(), format!("{what}: fromSerial {}", v["fromSerial"])))
            }
            let mut got = json_set(&w.sets[idx]);
            for x in &wd {
                if got.remove(&json_key(x)).is_none() { return Err(("http-delta-unappliable".into(), format!("{what}: withdraws absent {x}"))) }
            }
            for x in &ann { got.insert(json_key(x), x.to_string()); }
            if got != current {
                return Err(("http-delta-wrong".into(), format!("{what}: applying the delta to the data of serial {s} does not give the current data")))
            }
        }
    }
    Ok(())
}

fn check_other_views(w: &World) -> Result<(), (String, String)> {
    let (cur, cur_idx) = w.issued.cur();
    let session = w.history.read().rtr_session();
    // foreign session is refused
    for fs in [session.wrapping_add(1), session.wrapping_sub(1)] {
        if w.history.diff(State::from_parts(fs, Serial::from(cur))).is_some() {
            return Err(("foreign-session-served".into(),
                format!("session {fs} != {session} got a delta")))
        }
    }
    if !w.history.ready() {
        return Err(("not-ready".into(), "ready() false after update".into()))
    }
    let st = w.history.notify();
    if st.serial() != Serial::from(cur) {
        return Err(("notify-serial".into(), format!(
            "notify serial {} != expected {cur}", st.serial()
        )))
    }
    let (st, mut set) = w.history.full();
    let mut items = Vec::new();
    while let Some(p) = set.next() { items.push(data::to_owned(p)); }
    let ds = DataSet::from_payload(items.iter().map(|p| p.as_ref()))
        .map_err(|e| ("full-dup".to_string(), e))?;
    if st.serial() != Serial::from(cur) || ds != w.sets[cur_idx] {
        return Err(("full-wrong".into(), format!(
            "full() = serial {} {} expected serial {cur} {}",
            st.serial(), ds.describe(), w.sets[cur_idx].describe()
        )))
    }
    // The HTTP path uses the 64 bit session and delta_since directly.
    let h = w.history.read();
    if h.serial() != Serial::from(cur) {
        return Err(("serial".into(), "serial() mismatch".into()))
    }
    Ok(())
}

fn run_history(
    keep: usize, base: u32, seq: &[usize],
    outcomes: &mut BTreeMap<String, u64>, queries: &mut u64,
) -> Vec<(String, String, Value)> {
    let mut w = World::new(keep, base);
    let httpd = crate::httpd::Httpd::new(&w.config, w.history.clone());
    let mut viol = Vec::new();
    for (step, idx) in seq.iter().enumerate() {
        w.update(*idx);
        if let Err((class, msg)) = check_other_views(&w) {
            viol.push((class, msg, json!({
                "keep": keep, "base": base, "seq": &seq[..=step]
            })));
        }
        if let Err((class, msg)) = check_http(&w, &httpd, queries) {
            viol.push((class, format!("keep={keep} base={base} history={:?}: {msg}", &seq[..=step]), json!({
                "keep": keep, "base": base, "seq": &seq[..=step]
            })));
        }
        for s in interesting_serials(&w) {
            *queries += 1;
            match check_serial(&w, s) {
                Ok(o) => { *outcomes.entry(o.into()).or_insert(0) += 1; }
                Err((class, msg)) => {
                    *outcomes.entry(format!("VIOLATION:{class}")).or_insert(0) += 1;
                    viol.push((class, format!(
                        "keep={keep} base={base} history={:?} (serials {:?}): {msg}",
                        &seq[..=step], w.issued.list
                    ), json!({
                        "keep": keep, "base": base, "seq": &seq[..=step],
                        "client_serial": s
                    })));
                }
            }
        }
    }
    viol
}

fn all_seqs(n: usize, len: usize) -> Vec<Vec<usize>> {
    let mut res = vec![vec![]];
    for _ in 0..len {
        let mut next = Vec::new();
        for s in &res {
            for i in 0..n {
                let mut t = s.clone(); t.push(i); next.push(t);
            }
        }
        res = next;
    }
    res
}

const BASES: [u32; 3] = [0, 0x7fff_fffd, 0xffff_fffd];

pub fn run(ctx: &Ctx) -> Report {
    util::quiet_panics();
    let mut rep = Report::new("model_checking");
    let len = if ctx.tier.thorough() { 6 } else { 5 };
    let keeps: &[usize] = if ctx.tier.thorough() { &[0, 1, 2, 3, 4] } else { &[0, 1, 2, 3] };
    rep.rule = "every update history (sequence over 4 data sets, repeats = \
        no-change runs) x history-size x serial base (0, 2^31-3, 2^32-3: \
        wrap inside the window); after every step every client serial \
        within keep+4 of current, all serials at distance 2^31 +-2 of \
        current and of every issued serial, and the extremes is presented \
        to PayloadSource::diff of the real SharedHistory, and every client \
        serial around the window is sent to /json-delta (real dispatcher) \
        under the own 64-bit session and 7 foreign ones differing from it \
        in one place (+-1, bit 16, +-2^16, bit 32, bit 63); the data sets \
        carry origins, router keys and one ASPA customer whose provider \
        set changes in every set; oracle = \
        harness-kept map serial->data; non-trivial = queries answered \
        with a non-empty delta or refused although issued".into();
    let seqs = all_seqs(4, len);
    let mut cases = Vec::new();
    for &keep in keeps { for &base in &BASES { cases.push((keep, base)); } }
    rep.bound = format!(
        "histories: all 4^{len} sequences (every prefix checked); \
         history-size {:?}; bases {:?}", keeps, BASES
    );
    let per_case = util::par_map(
        (cases.len() * seqs.len()) as u64, util::cores(), |i| {
            let (keep, base) = cases[i as usize / seqs.len()];
            let seq = &seqs[i as usize % seqs.len()];
            let mut outcomes = BTreeMap::new();
            let mut q = 0;
            let viol = run_history(keep, base, seq, &mut outcomes, &mut q);
            (outcomes, q, viol)
        }
    );
    for (outcomes, q, viol) in per_case {
        rep.evaluations += q;
        for (k, v) in outcomes {
            if k == "served-delta" || k == "refused-old" { rep.nontrivial += v }
            *rep.outcomes.entry(k).or_insert(0) += v;
        }
        for (class, msg, replay) in viol {
            rep.violation(format!("diff:{class}"), msg, replay);
        }
    }
    rep.states = (cases.len() * seqs.len()) as u64;
    rep.transitions = (cases.len() * seqs.len() * len) as u64;
    rep.traces = rep.states;

    if ctx.tier.thorough() {
        // All 2^32 client serials for representative histories.
        let mut reps: Vec<(usize, u32, Vec<usize>)> = Vec::new();
        for keep in [1usize, 2, 3, 4] {
            for base in BASES {
                for seq in [
                    vec![0usize, 1], vec![0, 1, 2], vec![0, 1, 2, 3],
                    vec![0, 1, 2, 3, 0, 1], vec![1, 2, 1, 2, 1, 2, 1],
                ] {
                    reps.push((keep, base, seq));
                }
            }
        }
        let mut full_sweeps = 0u64;
        for (keep, base, seq) in reps {
            let mut w = World::new(keep, base);
            for idx in &seq { w.update(*idx); }
            let chunks = 4096u64;
            let res = util::par_map(chunks, util::cores(), |c| {
                let lo = c * (1u64 << 32) / chunks;
                let hi = (c + 1) * (1u64 << 32) / chunks;
                let mut outcomes: BTreeMap<String, u64> = BTreeMap::new();
                let mut viol = Vec::new();
                let h = w.history.read();
                let issued: Vec<u32> = w.issued.list.iter().map(|x| x.0).collect();
                let mut fast = 0u64;
                for s in lo..hi {
                    // Fast path: never issued and refused (the common
                    // case) is decided without leaving the read guard.
                    if !issued.contains(&(s as u32))
                        && h.delta_since(Serial::from(s as u32)).is_none()
                    {
                        fast += 1;
                        continue
                    }
                    match check_serial(&w, s as u32) {
                        Ok(o) => { *outcomes.entry(o.into()).or_insert(0) += 1; }
                        Err((class, msg)) => {
                            *outcomes.entry(format!("VIOLATION:{class}")).or_insert(0) += 1;
                            if viol.len() < 3 {
                                viol.push((class, msg, s as u32));
                            }
                        }
                    }
                }
                *outcomes.entry("refused-unknown".into()).or_insert(0) += fast;
                (outcomes, viol)
            });
            for (outcomes, viol) in res {
                for (k, v) in outcomes {
                    rep.evaluations += v;
                    *rep.outcomes.entry(format!("sweep:{k}")).or_insert(0) += v;
                }
                for (class, msg, s) in viol {
                    rep.violation(format!("diff:{class}"), format!(
                        "keep={keep} base={base} history={seq:?}: {msg}"
                    ), json!({"keep": keep, "base": base, "seq": seq, "client_serial": s}));
                }
            }
            full_sweeps += 1;
        }
        rep.extra.insert("full_2_32_sweeps".into(), json!(full_sweeps));
    }
    let issued = {
        let mut w = World::new(2, BASES[2]);
        for i in [0, 1, 2, 3] { w.update(i); }
        w.issued.list
    };
    rep.sample(json!({"keep": 2, "base": BASES[2], "history": [0, 1, 2, 3],
        "issued": issued, "queries": "see rule"}));
    rep.assumptions.push("data sets consist of origins and router keys \
        (installed hook-free as SLURM assertions through the real \
        SharedHistory::update); ASPA merging is C12's".into());
    rep.assumptions.push("serial regions beyond the first are reached with \
        the cfg-only verif_shift_serials (adds n to every retained delta \
        serial = the state after n more updates)".into());
    rep
}

pub fn replay(_ctx: &Ctx, v: &Value) -> Report {
    let mut rep = Report::new("model_checking");
    let keep = v["keep"].as_u64().unwrap() as usize;
    let base = v["base"].as_u64().unwrap() as u32;
    let seq: Vec<usize> = v["seq"].as_array().unwrap().iter()
        .map(|x| x.as_u64().unwrap() as usize).collect();
    let mut w = World::new(keep, base);
    for idx in &seq {
        let ch = w.update(*idx);
        println!("update -> {} changed={ch} issued={:?}", w.sets[*idx].describe(), w.issued.list);
    }
    if let Some(s) = v["client_serial"].as_u64() {
        let r = check_serial(&w, s as u32);
        println!("client serial {s}: {:?}", r);
        if let Err((class, msg)) = r {
            rep.violation(format!("diff:{class}"), msg, v.clone());
        }
    }
    else if let Err((class, msg)) = check_other_views(&w) {
        rep.violation(format!("diff:{class}"), msg, v.clone());
    }
    rep.evaluations = 1; rep.states = 1; rep.transitions = seq.len() as u64; rep.traces = 1;
    rep.sample(v.clone());
    rep
}
