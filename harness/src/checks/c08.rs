//! C08 Unsafe-VRP policy filters exactly overlapping VRPs.

use std::collections::BTreeSet;
use std::net::{Ipv4Addr, Ipv6Addr};
use rpki::rtr::payload::RouteOrigin;
use routinator::config::FilterPolicy;
use routinator::slurm::LocalExceptions;
use serde_json::{json, Value};
use crate::data;
use crate::etree::{self, Case};
use crate::report::{Ctx, Report};
use crate::rpkigen::{Builder, CaSpec, Gen, ObjSpec, PointFault, Stale, TalSpec, TreeSpec};
use crate::util;

#[derive(Clone, Copy, Debug, Eq, PartialEq)]
pub enum Rej { None, NoManifest, BadManifest, StaleReject, CrlMissing, StoredStale,
    /// the stored copy of the point, used because nothing changed
    /// upstream, lost its last bytes since it was written
    StoredDamaged }
const REJS: [Rej; 7] = [Rej::None, Rej::NoManifest, Rej::BadManifest, Rej::StaleReject, Rej::CrlMissing, Rej::StoredStale, Rej::StoredDamaged];

/// The AS resources of the rejected CA.
#[derive(Clone, Copy, Debug, Eq, PartialEq)]
pub enum AsRes { Range, Absent, Whole }
const ASRES: [AsRes; 3] = [AsRes::Range, AsRes::Absent, AsRes::Whole];

#[derive(Clone, Copy, Debug, Eq, PartialEq)]
pub enum Res { V4Only, V4AndV6, WholeV4, TwoBlocks,
    /// all of one family together with a specific block of the other
    WholeV4SomeV6, SomeV4WholeV6, WholeBoth }
const RESS: [Res; 7] = [Res::V4Only, Res::V4AndV6, Res::WholeV4, Res::TwoBlocks, Res::WholeV4SomeV6, Res::SomeV4WholeV6, Res::WholeBoth];

const POLICIES: [FilterPolicy; 3] = [FilterPolicy::Reject, FilterPolicy::Warn, FilterPolicy::Accept];

#[derive(Clone, Debug)]
pub struct CaseSpec { pub rej: Rej, pub res: Res, pub policy: FilterPolicy, pub nested_child: bool, pub asres: AsRes }

/// The unrelated CA's VRPs: (name, addr, len, v6?, relation to 10.0.0.0/16)
fn other_vrps() -> Vec<(&'static str, &'static str, u8)> {
    vec![
        ("cover", "10.0.0.0", 8),        // covers R
        ("equal", "10.0.0.0", 16),
        ("nested", "10.0.1.0", 24),
        ("host", "10.0.255.255", 32),    // last address of R
        ("adjacent", "10.1.0.0", 16),    // first address after R
        ("before", "9.255.0.0", 16),
        ("second", "172.16.5.0", 24),    // inside the second block of TwoBlocks
        ("v6in", "2001:db8::", 48),
        ("v6cover", "2001:db8::", 31),
        ("v6out", "2001:dba::", 32),
    ]
}

fn overlaps(res: Res, addr: &str, len: u8) -> bool {
    // reference: does addr/len intersect the rejected CA's blocks
    // (whole-family blocks excepted)?
    let blocks4: Vec<(u32, u8)> = match res {
        Res::V4Only | Res::V4AndV6 | Res::SomeV4WholeV6 => vec![(u32::from(Ipv4Addr::new(10, 0, 0, 0)), 16)],
        Res::WholeV4 | Res::WholeV4SomeV6 | Res::WholeBoth => vec![],   // 0/0 is not counted
        Res::TwoBlocks => vec![(u32::from(Ipv4Addr::new(10, 0, 0, 0)), 16), (u32::from(Ipv4Addr::new(172, 16, 0, 0)), 12)],
    };
    let blocks6: Vec<(u128, u8)> = match res {
        Res::V4AndV6 | Res::WholeV4SomeV6 => vec![(u128::from("2001:db8::".parse::<Ipv6Addr>().unwrap()), 32)],
        _ => vec![]   // ::/0 is not counted
    };
    if let Ok(a) = addr.parse::<Ipv4Addr>() {
        let a = u32::from(a);
        blocks4.iter().any(|(b, bl)| {
            let l = len.min(*bl);
            l == 0 || (a >> (32 - l)) == (b >> (32 - l))
        })
    }
    else {
        let a = u128::from(addr.parse::<Ipv6Addr>().unwrap());
        blocks6.iter().any(|(b, bl)| {
            let l = len.min(*bl);
            l == 0 || (a >> (128 - l)) == (b >> (128 - l))
        })
    }
}

fn tree(c: &CaseSpec) -> TreeSpec {
    let mut ta = CaSpec::new("ta0", 0, "ta0.example", "repo");
    ta.v4 = vec![(Ipv4Addr::new(0, 0, 0, 0), 0)];
    ta.v6 = vec![("::".parse().unwrap(), 0)];
    ta.asns = if c.asres == AsRes::Whole { vec![(0, u32::MAX)] } else { vec![(1, 65000)] };
    ta.objs = vec![ObjSpec::roa("own", 64496, "192.0.2.0", 24, 24)];
    let mut car = CaSpec::new("car", 1, "car.example", "repo");
    match c.res {
        Res::V4Only => car.v4 = vec![(Ipv4Addr::new(10, 0, 0, 0), 16)],
        Res::V4AndV6 => {
            car.v4 = vec![(Ipv4Addr::new(10, 0, 0, 0), 16)];
            car.v6 = vec![("2001:db8::".parse().unwrap(), 32)];
        }
        Res::WholeV4 => car.v4 = vec![(Ipv4Addr::new(0, 0, 0, 0), 0)],
        Res::WholeV4SomeV6 => {
            car.v4 = vec![(Ipv4Addr::new(0, 0, 0, 0), 0)];
            car.v6 = vec![("2001:db8::".parse().unwrap(), 32)];
        }
        Res::SomeV4WholeV6 => {
            car.v4 = vec![(Ipv4Addr::new(10, 0, 0, 0), 16)];
            car.v6 = vec![("::".parse().unwrap(), 0)];
        }
        Res::WholeBoth => {
            car.v4 = vec![(Ipv4Addr::new(0, 0, 0, 0), 0)];
            car.v6 = vec![("::".parse().unwrap(), 0)];
        }
        Res::TwoBlocks => car.v4 = vec![(Ipv4Addr::new(10, 0, 0, 0), 16), (Ipv4Addr::new(172, 16, 0, 0), 12)],
    }
    car.asns = match c.asres {
        AsRes::Range => vec![(64500, 64510)],
        AsRes::Absent => vec![],
        AsRes::Whole => vec![(0, u32::MAX)],
    };
    car.objs = vec![ObjSpec::roa("inside", 64500, "10.0.2.0", 24, 24)];
    car.point_fault = match c.rej {
        Rej::None | Rej::StoredDamaged => None,
        Rej::NoManifest => Some(PointFault::NoManifest),
        Rej::BadManifest => Some(PointFault::MftBadSig),
        Rej::StaleReject | Rej::StoredStale => Some(PointFault::MftStale),
        Rej::CrlMissing => Some(PointFault::CrlMissing),
    };
    if c.nested_child {
        // a child of the rejected CA is never reached; its resources do
        // not matter. Give it a block nothing else touches.
        let mut ch = CaSpec::new("carchild", 2, "car.example", "repo");
        ch.v4 = vec![(Ipv4Addr::new(10, 0, 128, 0), 17)];
        ch.asns = if c.asres == AsRes::Absent { vec![] } else { vec![(64505, 64505)] };
        ch.objs = vec![ObjSpec::roa("deep", 64505, "10.0.128.0", 24, 24)];
        car.children.push(ch);
    }
    ta.children.push(car);
    let mut tb = CaSpec::new("tb0", 3, "tb0.example", "repo");
    tb.v4 = vec![(Ipv4Addr::new(0, 0, 0, 0), 0)];
    tb.v6 = vec![("::".parse().unwrap(), 0)];
    tb.asns = vec![(1, 65000)];
    for (i, (name, addr, len)) in other_vrps().into_iter().enumerate() {
        tb.objs.push(ObjSpec::roa(name, 65000 - i as u32, addr, len, len));
    }
    TreeSpec { tals: vec![
        TalSpec { name: "alpha".into(), ta_uri: "rsync://ta0.example/repo/ta0.cer".into(), ca: ta, wrong_key: false, https_uri: None },
        TalSpec { name: "beta".into(), ta_uri: "rsync://tb0.example/repo/tb0.cer".into(), ca: tb, wrong_key: false, https_uri: None },
    ]}
}

pub fn cases() -> Vec<CaseSpec> {
    let mut res = Vec::new();
    for rej in REJS { for r in RESS { for policy in POLICIES { for nested_child in [false, true] { for asres in ASRES {
        res.push(CaseSpec { rej, res: r, policy, nested_child, asres });
    }}}}}
    res
}

fn origin_of(addr: &str, len: u8, asn: u32) -> RouteOrigin {
    data::origin(addr, len, len, asn)
}

pub fn run_case(gen: &Gen, dir: std::path::PathBuf, c: &CaseSpec) -> Result<String, (String, String)> {
    let image = Builder::new(gen, Stale::Reject).build(&tree(c));
    let case = Case::new(dir);
    case.publish(&image);
    case.write_tals(&image);
    let mut config = case.config();
    config.unsafe_vrps = c.policy;
    if c.rej == Rej::StoredStale {
        // A first run under stale=accept stores the (stale) point; the run
        // under test then rejects it through the stored-data path.
        config.stale = FilterPolicy::Accept;
        etree::run(&config, false, &LocalExceptions::empty())
            .map_err(|e| ("run-failed".to_string(), e))?;
        config.stale = FilterPolicy::Reject;
    }
    if c.rej == Rej::StoredDamaged {
        // A first run stores the point; its file then loses its last 16
        // bytes. Upstream is unchanged, so the run under test goes to the
        // stored copy.
        let first = etree::run(&config, false, &LocalExceptions::empty())
            .map_err(|e| ("run-failed".to_string(), e))?;
        if !first.data.origins.contains(&origin_of("10.0.2.0", 24, 64500)) {
            return Err(("harness".into(), format!("{c:?}: the first run does not serve the CA's VRP")))
        }
        let file = config.cache_dir.join("stored/rsync/rsync/car.example/repo/car/car.mft");
        if !file.is_file() {
            let mut all = Vec::new();
            util::walk(&config.cache_dir.join("stored"), &mut all);
            return Err(("harness".into(), format!("{c:?}: no stored point file for the CA; there are {all:?}")))
        }
        let mine = [file];
        let data = std::fs::read(&mine[0]).map_err(|e| ("harness".to_string(), e.to_string()))?;
        std::fs::write(&mine[0], &data[..data.len() - 16]).map_err(|e| ("harness".to_string(), e.to_string()))?;
    }
    let out = etree::run(&config, false, &LocalExceptions::empty())
        .map_err(|e| ("run-failed".to_string(), e))?;
    let rejected = c.rej != Rej::None;
    let mut want: BTreeSet<RouteOrigin> = BTreeSet::new();
    let filter = rejected && matches!(c.policy, FilterPolicy::Reject);
    if !(filter && overlaps(c.res, "192.0.2.0", 24)) { want.insert(origin_of("192.0.2.0", 24, 64496)); }
    if !rejected {
        want.insert(origin_of("10.0.2.0", 24, 64500));
        if c.nested_child { want.insert(origin_of("10.0.128.0", 24, 64505)); }
    }
    let mut filtered = 0;
    for (i, (_, addr, len)) in other_vrps().into_iter().enumerate() {
        if filter && overlaps(c.res, addr, len) { filtered += 1; continue }
        want.insert(origin_of(addr, len, 65000 - i as u32));
    }
    if out.data.origins != want {
        let extra: Vec<String> = out.data.origins.difference(&want).map(data::fmt_origin).collect();
        let missing: Vec<String> = want.difference(&out.data.origins).map(data::fmt_origin).collect();
        let class = if !extra.is_empty() && filter { "overlapping-vrp-served" }
            else if !missing.is_empty() && !filter { "filtered-without-reject-policy" }
            else if !missing.is_empty() { "non-overlapping-vrp-dropped" } else { "unexpected-vrp" };
        return Err((class.into(), format!(
            "{c:?}: unexpectedly served {extra:?}, unexpectedly missing {missing:?}"
        )))
    }
    let _ = std::fs::remove_dir_all(&case.dir);
    Ok(format!("filtered={filtered}"))
}

/// Log books only record while a logger is installed, as it always is in
/// the real program; this one accepts everything and keeps nothing.
struct Sink;
impl log::Log for Sink {
    fn enabled(&self, _: &log::Metadata) -> bool { true }
    fn log(&self, _: &log::Record) { }
    fn flush(&self) { }
}
static SINK: Sink = Sink;

fn install_logger() {
    let _ = log::set_logger(&SINK);
    log::set_max_level(log::LevelFilter::Trace);
}

pub fn run(ctx: &Ctx) -> Report {
    util::quiet_panics();
    install_logger();
    let gen = Gen::load();
    let mut rep = Report::new("exploration");
    let cases = cases();
    rep.rule = "two TALs; under the first a CA holding R in {10.0.0.0/16; \
        10.0.0.0/16 + 2001:db8::/32; 0.0.0.0/0; 10.0.0.0/16 + 172.16.0.0/12; \
        0.0.0.0/0 + 2001:db8::/32; 10.0.0.0/16 + ::/0; 0.0.0.0/0 + ::/0} \
        whose publication point is {fine, without manifest, with a bad \
        manifest, stale under reject, without CRL, \
        stored earlier (under stale=accept) and rejected from the store, \
        stored earlier and the stored file cut short since}, holding {an \
        AS range, no AS numbers, all AS numbers}, with and without a \
        child CA below it; a logger is installed so that log books record; an unrelated CA under the second TAL with VRPs \
        covering R, equal to R, nested, last host address of R, first \
        address after R, before R, in the second block, IPv6 inside / \
        covering / outside; x unsafe-vrps {reject, warn, accept}; oracle: \
        integer-arithmetic overlap test; non-trivial = cases with a \
        rejected CA".into();
    rep.bound = format!("{} cases (full product)", cases.len());
    let threads = std::env::var("ETREE_THREADS").ok().and_then(|s| s.parse().ok()).unwrap_or(8);
    let res = util::par_map(cases.len() as u64, threads, |i| {
        util::catch(|| run_case(&gen, ctx.scratch.join(format!("c{i}")), &cases[i as usize]))
            .unwrap_or_else(|p| Err(("panic".into(), p)))
    });
    for (i, r) in res.into_iter().enumerate() {
        rep.evaluations += 1;
        let c = &cases[i];
        if c.rej != Rej::None { rep.nontrivial += 1; }
        match r {
            Ok(o) => rep.outcome(o),
            Err((class, msg)) => {
                rep.outcome(format!("VIOLATION:{class}"));
                rep.violation(format!("unsafe:{class}:{:?}:{:?}:{:?}:{}", c.rej, c.res, c.asres, c.policy), msg, json!({"index": i}));
            }
        }
    }
    rep.sample(json!({"rejected": "NoManifest", "resources": "10.0.0.0/16 + 2001:db8::/32", "policy": "reject",
        "expect_filtered": ["10.0.0.0/8", "10.0.0.0/16", "10.0.1.0/24", "10.0.255.255/32", "2001:db8::/48", "2001:db8::/31"]}));
    rep
}

pub fn replay(ctx: &Ctx, v: &Value) -> Report {
    install_logger();
    let gen = Gen::load();
    let mut rep = Report::new("exploration");
    let cases = cases();
    let c = &cases[v["index"].as_u64().unwrap() as usize];
    let r = run_case(&gen, ctx.scratch.join("replay"), c);
    println!("{c:?}: {r:?}");
    if let Err((class, msg)) = r { rep.violation(format!("unsafe:{class}"), msg, v.clone()); }
    rep.evaluations = 1; rep.nontrivial = 2;
    rep.sample(v.clone());
    rep
}
