//! C10 Trust anchors are bound to their TAL key.
//!
//! E-TREE fault enumeration: TALs with every URI list shape, per URI and
//! per run an answer from {good certificate, decodable certificate with
//! another key, expired certificate, undecodable bytes, unreachable}, all
//! two-run histories (so that "stored copy present" is reached by history),
//! plus a TAL whose key is replaced between the runs.

use std::collections::BTreeMap;
use std::fs;
use std::net::Ipv4Addr;
use std::str::FromStr;
use std::sync::{Arc, Mutex};
use routinator::slurm::LocalExceptions;
use routinator::store::Store;
use routinator::verif::HttpAnswer;
use rpki::repository::tal::TalUri;
use rpki::uri;
use serde_json::{json, Value};
use crate::etree::{self, Case};
use crate::report::{Ctx, Report};
use crate::rpkigen::{Builder, CaSpec, Fault, Gen, ObjSpec, Stale, TalSpec, TreeSpec};
use crate::rrdpsrv;
use crate::util;

#[derive(Clone, Copy, Debug, Eq, PartialEq, Ord, PartialOrd)]
pub enum Ans { Good, OtherKey, Expired, Undecodable, Unreachable }
pub const ANSWERS: [Ans; 5] = [Ans::Good, Ans::OtherKey, Ans::Expired, Ans::Undecodable, Ans::Unreachable];

#[derive(Clone, Copy, Debug, Eq, PartialEq)]
pub enum Shape { Https, Rsync, HttpsRsync, RsyncHttps }

#[derive(Clone, Debug)]
pub struct CaseSpec {
    shape: Shape,
    /// per run, per URI (in TAL order)
    runs: Vec<Vec<Ans>>,
    /// the TAL's key in the second run is the other key
    key_switch: bool,
}

struct Certs { good: Vec<u8>, other: Vec<u8>, expired: Vec<u8>, tal_k0: String, tal_k1: String, files: BTreeMap<String, Vec<u8>> }

fn tree(host: &str, key: usize, fault: Option<Fault>) -> TreeSpec {
    let mut ta = CaSpec::new("ta0", key, host, "repo");
    ta.v4 = vec![(Ipv4Addr::new(10, 0, 0, 0), 8)];
    ta.asns = vec![(64496, 64511)];
    ta.objs = vec![ObjSpec::roa("r0", 64496, "10.0.0.0", 16, 16)];
    ta.cert_fault = fault;
    TreeSpec { tals: vec![TalSpec {
        name: "alpha".into(), ta_uri: format!("rsync://{host}/ta/ta0.cer"), ca: ta,
        wrong_key: false, https_uri: Some(format!("https://{host}/ta/ta0.cer")),
    }]}
}

fn certs(gen: &Gen, host: &str) -> Certs {
    let good = Builder::new(gen, Stale::Reject).build(&tree(host, 0, None));
    let other = Builder::new(gen, Stale::Reject).build(&tree(host, 1, None));
    let expired = Builder::new(gen, Stale::Reject).build(&tree(host, 0, Some(Fault::Expired)));
    let mut files = good.files.clone();
    files.remove(&format!("rsync://{host}/ta/ta0.cer"));
    Certs {
        good: good.ta_certs["alpha"].clone(), other: other.ta_certs["alpha"].clone(),
        expired: expired.ta_certs["alpha"].clone(),
        tal_k0: good.tals[0].1.clone(), tal_k1: other.tals[0].1.clone(), files,
    }
}

/// The TAL text for a URI list shape (the generator writes https first).
fn tal_text(base: &str, shape: Shape) -> String {
    let mut lines: Vec<&str> = base.lines().collect();
    // lines[0] = https, lines[1] = rsync, then blank, then key
    match shape {
        Shape::HttpsRsync => { }
        Shape::RsyncHttps => lines.swap(0, 1),
        Shape::Https => { lines.remove(1); }
        Shape::Rsync => { lines.remove(0); }
    }
    let mut s = lines.join("\n");
    s.push('\n');
    s
}

fn uris(shape: Shape) -> Vec<bool /* is https */> {
    match shape {
        Shape::Https => vec![true], Shape::Rsync => vec![false],
        Shape::HttpsRsync => vec![true, false], Shape::RsyncHttps => vec![false, true],
    }
}

fn bytes_of(c: &Certs, a: Ans) -> Option<Vec<u8>> {
    match a {
        Ans::Good => Some(c.good.clone()), Ans::OtherKey => Some(c.other.clone()),
        Ans::Expired => Some(c.expired.clone()), Ans::Undecodable => Some(b"garbage, not a certificate".to_vec()),
        Ans::Unreachable => None,
    }
}

/// Reference: does the TAL contribute in this run? `stored`: per URI the
/// kind of certificate in the store. `strict_store`: only acceptable
/// downloads are stored (the statement leaves open whether a decodable
/// but unacceptable download replaces the stored copy).
fn reference(answers: &[Ans], stored: &mut [Option<Ans>], tal_key_is_k0: bool, strict_store: bool, order: &[usize]) -> bool {
    let acceptable = |a: Ans| match a {
        Ans::Good => tal_key_is_k0,          // key K0, valid
        Ans::OtherKey => !tal_key_is_k0,     // key K1, valid
        _ => false
    };
    for i in order.iter().copied() {
        let a = &answers[i];
        let decodes = matches!(a, Ans::Good | Ans::OtherKey | Ans::Expired);
        let candidate = if decodes {
            if !strict_store || acceptable(*a) { stored[i] = Some(*a); }
            Some(*a)
        } else { stored[i] };
        if let Some(c) = candidate {
            if acceptable(c) {
                // Used as trust anchor. Everything below is signed by K0.
                return c == Ans::Good
            }
        }
    }
    false
}

fn run_case(gen: &Gen, dir: std::path::PathBuf, idx: usize, c: &CaseSpec) -> Result<String, (String, String)> {
    let host = format!("ta{idx}.c10.example");
    let certs = certs(gen, &host);
    let case = Case::new(dir);
    let mut config = case.config();
    config.disable_rrdp = false;
    let is_https = uris(c.shape);
    let https_uri = format!("https://{host}/ta/ta0.cer");
    let rsync_uri = format!("rsync://{host}/ta/ta0.cer");
    let https_answer: Arc<Mutex<Option<Vec<u8>>>> = Arc::new(Mutex::new(None));
    let _g = {
        let ans = https_answer.clone();
        rrdpsrv::serve_host(&host, Arc::new(move |_uri, _etag, _lm| {
            match ans.lock().unwrap().clone() {
                Some(body) => Some(HttpAnswer::Response(rrdpsrv::resp(200, vec![], body))),
                None => Some(HttpAnswer::Unreachable),
            }
        }))
    };
    let store = Store::new(&config).map_err(|_| ("harness".to_string(), "store".to_string()))?;
    let tal_uri = |https: bool| if https {
        TalUri::Https(uri::Https::from_str(&https_uri).unwrap())
    } else {
        TalUri::Rsync(uri::Rsync::from_str(&rsync_uri).unwrap())
    };
    // Four reference variants: the order in which the URIs are tried (as
    // listed, or HTTPS first - the statement fixes neither) x whether an
    // unacceptable decodable download replaces the stored copy.
    let listed: Vec<usize> = (0..is_https.len()).collect();
    let mut https_first = listed.clone();
    https_first.sort_by_key(|i| !is_https[*i]);
    let orders = [listed, https_first];
    let mut stored: Vec<Vec<Option<Ans>>> = vec![vec![None; is_https.len()]; 4];
    let mut outcome = String::new();
    for (r, answers) in c.runs.iter().enumerate() {
        let k0 = !(c.key_switch && r == 1);
        fs::create_dir_all(case.dir.join("tals")).unwrap();
        fs::write(case.dir.join("tals").join("alpha.tal"), tal_text(if k0 { &certs.tal_k0 } else { &certs.tal_k1 }, c.shape)).unwrap();
        // publish: the publication point always, the TA certificate per answer
        let _ = fs::remove_dir_all(case.dir.join("remote"));
        for (u, data) in &certs.files {
            let p = case.remote_path(u);
            fs::create_dir_all(p.parent().unwrap()).unwrap();
            fs::write(p, data).unwrap();
        }
        case.set_unreachable(&host, "ta", false);
        *https_answer.lock().unwrap() = None;
        for (i, a) in answers.iter().enumerate() {
            let bytes = bytes_of(&certs, *a);
            if is_https[i] { *https_answer.lock().unwrap() = bytes; }
            else {
                match bytes {
                    Some(b) => {
                        let p = case.remote_path(&rsync_uri);
                        fs::create_dir_all(p.parent().unwrap()).unwrap();
                        fs::write(p, b).unwrap();
                    }
                    None => case.set_unreachable(&host, "ta", true),
                }
            }
        }
        let before: Vec<Option<Vec<u8>>> = is_https.iter().map(|h| fs::read(store.verif_ta_path(&tal_uri(*h))).ok()).collect();
        let out = etree::run(&config, false, &LocalExceptions::empty()).map_err(|e| ("run-failed".to_string(), e))?;
        let contributes = !out.data.origins.is_empty();
        let wants: Vec<bool> = (0..4).map(|v| reference(answers, &mut stored[v], k0, v % 2 == 1, &orders[v / 2])).collect();
        let want_a = wants[0];
        let desc = format!("TAL {:?}{}, run {} of {:?}", c.shape, if c.key_switch { " (TAL key replaced before run 2)" } else { "" }, r + 1, c.runs);
        if !wants.contains(&contributes) {
            return Err((if contributes { "unbound-trust-anchor-used" } else { "usable-trust-anchor-ignored" }.into(), format!(
                "{desc}: the TAL {} payload, expected {}",
                if contributes { "contributes" } else { "contributes no" }, if want_a { "payload" } else { "none" }
            )))
        }
        // the stored copy survives undecodable / failed downloads
        for (i, a) in answers.iter().enumerate() {
            if matches!(a, Ans::Undecodable | Ans::Unreachable) {
                let after = fs::read(store.verif_ta_path(&tal_uri(is_https[i]))).ok();
                if before[i].is_some() && after != before[i] {
                    return Err(("stored-copy-replaced".into(), format!(
                        "{desc}: the stored trust anchor certificate for URI {i} changed although the download was {a:?}"
                    )))
                }
                if before[i].is_none() && after.is_some() && *a == Ans::Undecodable {
                    return Err(("garbage-stored".into(), format!("{desc}: undecodable download for URI {i} was stored")))
                }
            }
        }
        outcome.push_str(if contributes { "1" } else { "0" });
    }
    let _ = fs::remove_dir_all(&case.dir);
    Ok(outcome)
}

//------------ two TALs next to each other -----------------------------------

/// Two TALs whose trust anchor certificates live next to each other (same
/// host, same rsync module / https directory).
#[derive(Clone, Debug)]
pub struct PairSpec {
    https: bool,
    /// which of the two trust anchor certificates expires between the runs
    /// (None: both live for a year)
    short: Option<usize>,
    /// the short-lived certificate is replaced upstream by a long-lived
    /// one for the same key, and downloaded, before it expires
    renew: bool,
}

const PAIR_SHORT_LIFE: i64 = 3;

fn pair_tree(host: &str, c: &PairSpec) -> TreeSpec {
    let mk = |i: usize| {
        let name = format!("ta{}", ["a", "b"][i]);
        let mut ta = CaSpec::new(&name, i, host, &format!("repo{i}"));
        ta.v4 = vec![(Ipv4Addr::new(10, i as u8, 0, 0), 16)];
        ta.asns = vec![(64496 + i as u32, 64496 + i as u32)];
        ta.objs = vec![ObjSpec::roa("r", 64496 + i as u32, &format!("10.{i}.0.0"), 16, 16)];
        if c.short == Some(i) { ta.cert_not_after = PAIR_SHORT_LIFE; }
        TalSpec {
            name: ["alpha", "beta"][i].into(), ta_uri: format!("rsync://{host}/ta/{name}.cer"), ca: ta,
            wrong_key: false, https_uri: if c.https { Some(format!("https://{host}/ta/{name}.cer")) } else { None },
        }
    };
    TreeSpec { tals: vec![mk(0), mk(1)] }
}

/// Run 1: both downloads fine. (With a short-lived certificate: wait, then
/// run 2 with everything still published; or, with `renew`, run 2 at once
/// against a renewed long-lived certificate and wait afterwards.) Last run: no trust anchor
/// certificate can be downloaded. Every TAL whose stored certificate is
/// still valid must contribute in the last run.
fn run_pair(gen: &Gen, dir: std::path::PathBuf, idx: usize, c: &PairSpec) -> Result<String, (String, String)> {
    let host = format!("tp{idx}.c10.example");
    let image = Builder::new(gen, Stale::Reject).build(&pair_tree(&host, c));
    let built = std::time::Instant::now();
    let case = Case::new(dir);
    case.write_tals(&image);
    if c.https {
        // https only: with an rsync URI as well, the collector's own copy
        // of the module would stand in and the store would never be asked
        for (name, text) in &image.tals {
            let only: String = text.lines().filter(|l| !l.starts_with("rsync://")).map(|l| format!("{l}\n")).collect();
            fs::write(case.dir.join("tals").join(format!("{name}.tal")), only).unwrap();
        }
    }
    let mut config = case.config();
    config.disable_rrdp = false;
    let reachable = Arc::new(Mutex::new(true));
    let served_certs = Arc::new(Mutex::new(image.ta_certs.clone()));
    let _g = {
        let (reachable, certs, host2) = (reachable.clone(), served_certs.clone(), host.clone());
        rrdpsrv::serve_host(&host, Arc::new(move |uri, _etag, _lm| {
            if !*reachable.lock().unwrap() { return Some(HttpAnswer::Unreachable) }
            for (tal, name) in [("alpha", "taa"), ("beta", "tab")] {
                if uri == format!("https://{host2}/ta/{name}.cer") {
                    return certs.lock().unwrap().get(tal).map(|b| HttpAnswer::Response(rrdpsrv::resp(200, vec![], b.clone())))
                }
            }
            Some(HttpAnswer::Response(rrdpsrv::resp(404, vec![], Vec::new())))
        }))
    };
    case.publish(&image);
    let origin_of = |i: usize| crate::data::origin(&format!("10.{i}.0.0"), 16, 16, 64496 + i as u32);
    let mut outcome = String::new();
    let mut step = |label: &str, want: [bool; 2]| -> Result<(), (String, String)> {
        let out = etree::run(&config, false, &LocalExceptions::empty()).map_err(|e| ("run-failed".to_string(), e))?;
        for i in 0..2 {
            let has = out.data.origins.contains(&origin_of(i));
            if has != want[i] {
                return Err((if has { "unbound-trust-anchor-used" } else { "usable-trust-anchor-ignored" }.into(), format!(
                    "two TALs with trust anchor certificates side by side ({}), {label}: TAL {} {}",
                    if c.https { "https" } else { "rsync" }, ["alpha", "beta"][i],
                    if has { "contributes although it has no valid trust anchor certificate" } else { "contributes nothing although its valid certificate is stored" }
                )))
            }
        }
        outcome.push_str(&format!("{}{} ", want[0] as u8, want[1] as u8));
        Ok(())
    };
    step("first run, both downloads fine", [true, true])?;
    let live = if c.renew { [true, true] } else { [c.short != Some(0), c.short != Some(1)] };
    if c.renew {
        // the same tree with both certificates living for a year
        let renewed = Builder::new(gen, Stale::Reject).build(&pair_tree(&host, &PairSpec { https: c.https, short: None, renew: false }));
        for (tal, cert) in &renewed.ta_certs {
            if image.ta_certs.get(tal).map(|old| old.len()) != Some(cert.len()) {
                return Err(("harness".into(), format!("the renewed certificate of {tal} differs in length from the first one")))
            }
        }
        if renewed.ta_certs == image.ta_certs {
            return Err(("harness".into(), "the renewed certificates are the first ones".into()))
        }
        *served_certs.lock().unwrap() = renewed.ta_certs.clone();
        case.publish(&renewed);
        step("second run, the short-lived certificate has been renewed upstream", [true, true])?;
        let wait = std::time::Duration::from_secs(PAIR_SHORT_LIFE as u64 + 1).saturating_sub(built.elapsed());
        std::thread::sleep(wait);
    }
    else if c.short.is_some() {
        let wait = std::time::Duration::from_secs(PAIR_SHORT_LIFE as u64 + 1).saturating_sub(built.elapsed());
        std::thread::sleep(wait);
        step("second run after one certificate expired", live)?;
    }
    // https: the server is gone; rsync: the certificates have vanished
    // upstream (an unreachable module would leave the collector's copy)
    *reachable.lock().unwrap() = false;
    for name in ["taa", "tab"] { let _ = fs::remove_file(case.remote_path(&format!("rsync://{host}/ta/{name}.cer"))); }
    step("last run, no trust anchor certificate can be downloaded", live)?;
    let _ = fs::remove_dir_all(&case.dir);
    Ok(outcome.trim().to_string())
}

fn pair_cases() -> Vec<PairSpec> {
    let mut res = Vec::new();
    for https in [false, true] { for short in [None, Some(0), Some(1)] { for renew in [false, true] {
        if renew && short.is_none() { continue }
        res.push(PairSpec { https, short, renew });
    }}}
    res
}

fn cases(thorough: bool) -> Vec<CaseSpec> {
    let mut res = Vec::new();
    for shape in [Shape::Https, Shape::Rsync] {
        for a in ANSWERS { for b in ANSWERS {
            res.push(CaseSpec { shape, runs: vec![vec![a], vec![b]], key_switch: false });
            if a == Ans::Good || a == Ans::OtherKey {
                res.push(CaseSpec { shape, runs: vec![vec![a], vec![b]], key_switch: true });
            }
        }}
    }
    for shape in [Shape::HttpsRsync, Shape::RsyncHttps] {
        let first: Vec<Ans> = if thorough { ANSWERS.to_vec() } else { vec![Ans::Good, Ans::Unreachable] };
        for a0 in &first { for a1 in &first {
            for b0 in ANSWERS { for b1 in ANSWERS {
                res.push(CaseSpec { shape, runs: vec![vec![*a0, *a1], vec![b0, b1]], key_switch: false });
            }}
        }}
    }
    res
}

pub fn run(ctx: &Ctx) -> Report {
    util::quiet_panics();
    let gen = Gen::load();
    let mut rep = Report::new("fault_enumeration");
    let cases = cases(ctx.tier.thorough());
    rep.rule = "TAL URI lists {[https], [rsync], [https, rsync], [rsync, \
        https]}; per URI and run the download answers {the right \
        certificate, a decodable valid certificate with another key, an \
        expired certificate, undecodable bytes, unreachable}; every two-run \
        history from an empty store (two-URI TALs quick: first run answers \
        restricted to good / unreachable; thorough: all 625 per order); for \
        single-URI TALs additionally the TAL's key replaced before run 2; \
        real engine runs over fake rsync and fake HTTPS; oracle: whether \
        the TAL contributes payload equals a reference (URIs as listed or HTTPS first; a \
        decodable download is the candidate, else the stored copy; used \
        iff its key equals the TAL key and it is valid; both variants of \
        whether an unacceptable decodable download replaces the stored \
        copy are accepted); the stored file is byte-identical after an \
        undecodable or failed download; plus two TALs whose trust anchor \
        certificates sit side by side (same host and rsync module / https \
        directory, both transports): both fetched, then none can be \
        downloaded - both must contribute from the store; and with either \
        certificate living 3 s only: after a real wait and a run in which \
        cleanup drops the expired copy, the other TAL must still \
        contribute when no download works; non-trivial = histories with at \
        least one non-good answer".into();
    rep.bound = format!("{} two-run histories", cases.len());
    let threads = std::env::var("ETREE_THREADS").ok().and_then(|s| s.parse().ok()).unwrap_or(8);
    let res = util::par_map(cases.len() as u64, threads, |i| {
        util::catch(|| run_case(&gen, ctx.scratch.join(format!("c{i}")), i as usize, &cases[i as usize]))
            .unwrap_or_else(|p| Err(("panic".into(), p)))
    });
    for (i, r) in res.into_iter().enumerate() {
        let c = &cases[i];
        rep.evaluations += 1;
        if c.runs.iter().flatten().any(|a| *a != Ans::Good) || c.key_switch { rep.nontrivial += 1 }
        match r {
            Ok(o) => rep.outcome(format!("contributes:{o}")),
            Err((class, msg)) if class == "harness" => { eprintln!("machinery error: {msg}"); std::process::exit(2) }
            Err((class, msg)) => {
                rep.outcome(format!("VIOLATION:{class}"));
                rep.violation(format!("ta:{class}:{:?}:{}", c.shape, if c.key_switch { "key-switch" } else { "same-key" }), msg,
                    json!({"shape": format!("{:?}", c.shape), "runs": c.runs.iter().map(|r| r.iter().map(|a| format!("{a:?}")).collect::<Vec<_>>()).collect::<Vec<_>>(), "key_switch": c.key_switch}));
            }
        }
    }
    // two TALs side by side
    let pairs = pair_cases();
    let base = cases.len();
    let res = util::par_map(pairs.len() as u64, threads, |i| {
        util::catch(|| run_pair(&gen, ctx.scratch.join(format!("p{i}")), base + i as usize, &pairs[i as usize]))
            .unwrap_or_else(|p| Err(("panic".into(), p)))
    });
    for (i, r) in res.into_iter().enumerate() {
        let c = &pairs[i];
        rep.evaluations += 1;
        rep.nontrivial += 1;
        match r {
            Ok(o) => rep.outcome(format!("pair:{o}")),
            Err((class, msg)) if class == "harness" => { eprintln!("machinery error: {msg}"); std::process::exit(2) }
            Err((class, msg)) => {
                rep.outcome(format!("VIOLATION:{class}"));
                rep.violation(format!("ta:{class}:pair:{}:{}", if c.https { "https" } else { "rsync" }, if c.short.is_some() { "one-expires" } else { "both-live" }), msg,
                    json!({"pair": true, "https": c.https, "short": c.short, "renew": c.renew}));
            }
        }
    }
    rep.sample(json!({"shape": "HttpsRsync", "runs": [["Good", "Unreachable"], ["Undecodable", "OtherKey"]], "key_switch": false}));
    rep.assumptions.push("the publication point below the trust anchor is always served intact over rsync and signed by the first key; certificates generated as for C01".into());
    rep
}

pub fn replay(ctx: &Ctx, v: &Value) -> Report {
    let gen = Gen::load();
    let mut rep = Report::new("fault_enumeration");
    if v["pair"].as_bool() == Some(true) {
        let c = PairSpec { https: v["https"].as_bool().unwrap_or(false), short: v["short"].as_u64().map(|x| x as usize), renew: v["renew"].as_bool().unwrap_or(false) };
        let r = run_pair(&gen, ctx.scratch.join("replay"), 99998, &c);
        println!("{c:?}: {r:?}");
        if let Err((class, msg)) = r { rep.violation(format!("ta:{class}:pair"), msg, v.clone()) }
        rep.evaluations = 1; rep.nontrivial = 2;
        rep.sample(v.clone());
        return rep
    }
    let shape = match v["shape"].as_str() { Some("Https") => Shape::Https, Some("Rsync") => Shape::Rsync, Some("RsyncHttps") => Shape::RsyncHttps, _ => Shape::HttpsRsync };
    let parse = |s: &str| ANSWERS.iter().find(|a| format!("{a:?}") == s).copied().unwrap_or(Ans::Good);
    let runs: Vec<Vec<Ans>> = v["runs"].as_array().map(|rs| rs.iter().map(|r| r.as_array().map(|x| x.iter().map(|a| parse(a.as_str().unwrap_or(""))).collect()).unwrap_or_default()).collect()).unwrap_or_default();
    let c = CaseSpec { shape, runs, key_switch: v["key_switch"].as_bool().unwrap_or(false) };
    let r = run_case(&gen, ctx.scratch.join("replay"), 99999, &c);
    println!("{c:?}: {r:?}");
    if let Err((class, msg)) = r { rep.violation(format!("ta:{class}"), msg, v.clone()) }
    rep.evaluations = 1; rep.nontrivial = 2;
    rep.sample(v.clone());
    rep
}
