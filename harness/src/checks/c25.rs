//! C25 RRDP updates reproduce the server state or report failure.
//!
//! Explicit-state breadth-first search. A state is the client's archive
//! file (byte for byte) plus the server model; events are server steps
//! (publish / replace / withdraw, new session, loss of the delta history)
//! and client updates through the real RRDP collector against an answer
//! mode (faithful or one fault from a menu). States are deduplicated on a
//! canonical key (see `canon`).

use std::cell::RefCell;
use std::collections::{BTreeMap, BTreeSet, HashSet};
use std::fs;
use std::path::PathBuf;
use std::str::FromStr;
use std::sync::Arc;
use std::sync::atomic::{AtomicU64, Ordering};
use routinator::collector::verif::{RrdpCollector, RrdpLoadResult};
use routinator::collector::RrdpArchive;
use routinator::verif::HttpAnswer;
use rpki::uri;
use serde_json::{json, Value};
use crate::etree::Case;
use crate::report::{Ctx, Report};
use crate::rrdpsrv::{self, hex, resp, sha256, Elem, Server};
use crate::util;

pub const HOST: &str = "rrdp.c25.example";
pub const BASE: &str = "https://rrdp.c25.example/r";

thread_local! {
    /// C24 renames objects 2 and 3 so that they share an archive bucket
    /// with object 0 (the archive's hash key is random per file).
    pub static NAME_OVERRIDE: RefCell<BTreeMap<usize, String>> = const { RefCell::new(BTreeMap::new()) };
}

pub fn obj_uri(i: usize) -> String {
    if let Some(name) = NAME_OVERRIDE.with(|n| n.borrow().get(&i).cloned()) { return name }
    format!("rsync://{HOST}/m/o{i}.bin")
}
pub fn candidate_uri(k: usize) -> String { format!("rsync://{HOST}/m/o{k}c.bin") }

/// Names for objects 2 and 3 that the archive at `path` puts into the
/// bucket of object 0 (read from the file: the key is random per archive).
pub fn resolve_colliders(path: &std::path::Path) -> Result<(), (String, String)> {
    use std::hash::Hasher;
    let bytes = std::fs::read(path).map_err(|e| ("harness".to_string(), format!("no archive to read the hash key from: {e}")))?;
    if bytes.len() < 6 + 16 + 8 { return Err(("harness".into(), "archive too short".into())) }
    let key: [u8; 16] = bytes[6..22].try_into().unwrap();
    let buckets = usize::from_ne_bytes(bytes[22..30].try_into().unwrap()) as u64;
    let bucket = |name: &str| {
        let mut h = siphasher::sip::SipHasher24::new_with_key(&key);
        h.write(name.as_bytes());
        h.finish() % buckets
    };
    let want = bucket(&obj_uri(0));
    let found: Vec<String> = (0..200_000).map(candidate_uri).filter(|c| bucket(c) == want).take(2).collect();
    if found.len() < 2 { return Err(("harness".into(), "no colliding names found".into())) }
    NAME_OVERRIDE.with(|n| {
        let mut n = n.borrow_mut();
        n.insert(2, found[0].clone());
        n.insert(3, found[1].clone());
    });
    Ok(())
}

/// Contents 0 and 1 occupy one archive page, content 2 three.
pub const CONTENTS: [&[u8]; 3] = [b"content-x", b"content-y-longer", &[b'z'; 600]];

type Objects = BTreeMap<String, Vec<u8>>;
pub type Truth = BTreeMap<(String, u64), Objects>;

//------------ Events --------------------------------------------------------

#[derive(Clone, Copy, Debug, Eq, PartialEq, Hash, Ord, PartialOrd)]
pub enum SrvOp { Set(usize, Option<usize>), NewSession, DropDeltas,
    /// the server replaces what it published under its current serial:
    /// the newest delta and the snapshot now carry other content
    RewriteLast }

#[derive(Clone, Copy, Debug, Eq, PartialEq, Hash, Ord, PartialOrd)]
pub enum Mode {
    Faithful,
    /// faithful, but the server knows no entity tags: it sends
    /// Last-Modified and honours If-Modified-Since
    FaithfulLastModified,
    Notify404, Notify500, NotifyGarbage, NotifyUnreachable, NotifyOtherOrigin,
    NotModifiedLie,
    ListDropNewest, ListDropOldest, ListGap, ListDuplicate, ListHashMutated,
    /// delta body faults, with the snapshot available or not
    DeltaWrongHash(bool), DeltaWrongSession(bool), DeltaWrongSerial(bool),
    DeltaRepeatedObject(bool), DeltaHashPrecondition(bool), DeltaUnavailable(bool),
    /// a different, valid-looking delta under the real delta's hash
    DeltaReplaced(bool),
    SnapshotWrongHash, SnapshotWrongSerial, SnapshotWrongSession, SnapshotDuplicate,
    SnapshotUnavailable,
}

pub fn modes() -> Vec<Mode> {
    use Mode::*;
    let mut res = vec![Faithful, FaithfulLastModified, Notify404, Notify500, NotifyGarbage, NotifyUnreachable,
        NotifyOtherOrigin, NotModifiedLie, ListDropNewest, ListDropOldest, ListGap,
        ListDuplicate, ListHashMutated];
    for snap in [true, false] {
        res.extend([DeltaWrongHash(snap), DeltaWrongSession(snap), DeltaWrongSerial(snap),
            DeltaRepeatedObject(snap), DeltaHashPrecondition(snap), DeltaUnavailable(snap), DeltaReplaced(snap)]);
    }
    res.extend([SnapshotWrongHash, SnapshotWrongSerial, SnapshotWrongSession, SnapshotDuplicate, SnapshotUnavailable]);
    res
}

pub fn srv_ops() -> Vec<SrvOp> {
    let mut res = Vec::new();
    for o in 0..2 { for c in [Some(0), Some(1), None] { res.push(SrvOp::Set(o, c)) } }
    res.push(SrvOp::NewSession);
    res.push(SrvOp::DropDeltas);
    res.push(SrvOp::RewriteLast);
    res
}

#[derive(Clone, Copy, Debug, Eq, PartialEq, Hash, Ord, PartialOrd)]
pub enum Event { Srv(SrvOp), Update(Mode) }

//------------ Answering -----------------------------------------------------

/// Everything the transport serves for one update attempt.
struct Docs {
    notify: Option<(u16, Vec<u8>)>,     // None: unreachable
    etag: Option<String>,
    /// Some: Last-Modified (seconds) sent and If-Modified-Since honoured
    last_modified: Option<i64>,
    honour_etag: bool,
    always_304: bool,
    files: BTreeMap<String, Vec<u8>>,   // uri -> body (missing: 404)
    /// the delta list as served: (serial, listed hash)
    listed: Vec<(u64, String)>,
}

fn delta_doc(server: &Server, serial: u64, elems: &[Elem], session: &str, doc_serial: u64, mutated: bool) -> String {
    let mut s = server.delta_xml_of(session, doc_serial, elems);
    if mutated { s.push_str("<!-- regenerated -->\n"); }
    let _ = serial;
    s
}

fn build_docs(server: &Server, mode: Mode) -> Docs {
    use Mode::*;
    let mut files = BTreeMap::new();
    // faithful documents
    let snapshot = server.snapshot_xml();
    let snapshot_uri = server.snapshot_uri();
    let mut entries: Vec<(u64, String, String)> = Vec::new(); // newest first
    let newest = server.deltas.keys().last().copied();
    for (serial, elems) in server.deltas.iter().rev() {
        let mut doc = delta_doc(server, *serial, elems, &server.session, *serial, mode == ListHashMutated);
        let faithful_hash = hex(&sha256(doc.as_bytes()));
        let mut listed_hash = faithful_hash.clone();
        // Delta body faults hit the newest delta.
        if Some(*serial) == newest {
            match mode {
                DeltaWrongHash(_) => {
                    // content differs (an extra withdraw / publish) but the
                    // notification lists the hash of the real file
                    let mut e = elems.clone();
                    let victim = obj_uri(if elems.iter().any(|x| x.uri() == obj_uri(0)) { 1 } else { 0 });
                    match server.objects.get(&victim) {
                        Some(old) => e.push(Elem::Withdraw { uri: victim, old: old.clone() }),
                        None => e.push(Elem::Publish { uri: victim, data: b"injected".to_vec() }),
                    }
                    doc = delta_doc(server, *serial, &e, &server.session, *serial, false);
                }
                DeltaReplaced(_) => {
                    // only an unrelated change, nothing of the real delta
                    let victim = obj_uri(if elems.iter().any(|x| x.uri() == obj_uri(0)) { 1 } else { 0 });
                    let e = match server.objects.get(&victim) {
                        Some(old) => vec![Elem::Withdraw { uri: victim, old: old.clone() }],
                        None => vec![Elem::Publish { uri: victim, data: b"injected".to_vec() }],
                    };
                    doc = delta_doc(server, *serial, &e, &server.session, *serial, false);
                }
                DeltaWrongSession(_) => {
                    doc = delta_doc(server, *serial, elems, &Server::session_id(4242), *serial, false);
                    listed_hash = hex(&sha256(doc.as_bytes()));
                }
                DeltaWrongSerial(_) => {
                    doc = delta_doc(server, *serial, elems, &server.session, *serial + 1, false);
                    listed_hash = hex(&sha256(doc.as_bytes()));
                }
                DeltaRepeatedObject(_) => {
                    let mut e = elems.clone();
                    if let Some(first) = elems.first() { e.push(first.clone()); }
                    doc = delta_doc(server, *serial, &e, &server.session, *serial, false);
                    listed_hash = hex(&sha256(doc.as_bytes()));
                }
                DeltaHashPrecondition(_) => {
                    // an update / withdraw whose hash names other content
                    let e: Vec<Elem> = elems.iter().map(|x| match x {
                        Elem::Update { uri, data, .. } => Elem::Update { uri: uri.clone(), old: b"something else".to_vec(), data: data.clone() },
                        Elem::Withdraw { uri, .. } => Elem::Withdraw { uri: uri.clone(), old: b"something else".to_vec() },
                        Elem::Publish { uri, data } => Elem::Update { uri: uri.clone(), old: b"something else".to_vec(), data: data.clone() },
                    }).collect();
                    doc = delta_doc(server, *serial, &e, &server.session, *serial, false);
                    listed_hash = hex(&sha256(doc.as_bytes()));
                }
                _ => { }
            }
        }
        let uri = server.delta_uri(*serial);
        if !(matches!(mode, DeltaUnavailable(_)) && Some(*serial) == newest) {
            files.insert(uri.clone(), doc.into_bytes());
        }
        entries.push((*serial, uri, listed_hash));
    }
    // delta list faults
    match mode {
        ListDropNewest => { if !entries.is_empty() { entries.remove(0); } }
        ListDropOldest => { entries.pop(); }
        ListGap => { if entries.len() >= 3 { entries.remove(1); } else if entries.len() == 2 { entries.remove(1); } }
        ListDuplicate => { if let Some(e) = entries.first().cloned() { entries.push(e); } }
        _ => { }
    }
    // snapshot
    let mut snapshot_doc = snapshot.clone();
    let mut snapshot_hash = hex(&sha256(snapshot.as_bytes()));
    let mut snap_uri = snapshot_uri.clone();
    match mode {
        SnapshotWrongHash => {
            let mut objs = server.objects.clone();
            objs.insert(obj_uri(0), b"injected".to_vec());
            snapshot_doc = server.snapshot_xml_of(&server.session, server.serial, &objs);
        }
        SnapshotWrongSerial => {
            snapshot_doc = server.snapshot_xml_of(&server.session, server.serial + 1, &server.objects);
            snapshot_hash = hex(&sha256(snapshot_doc.as_bytes()));
        }
        SnapshotWrongSession => {
            snapshot_doc = server.snapshot_xml_of(&Server::session_id(4242), server.serial, &server.objects);
            snapshot_hash = hex(&sha256(snapshot_doc.as_bytes()));
        }
        SnapshotDuplicate => {
            let mut s = snapshot_doc.replace("</snapshot>\n", "");
            if let Some((u, d)) = server.objects.iter().next() {
                s.push_str(&format!("<publish uri=\"{u}\">{}</publish>\n", rrdpsrv::b64(d)));
            }
            else {
                s.push_str(&format!("<publish uri=\"{0}\">eA==</publish>\n<publish uri=\"{0}\">eA==</publish>\n", obj_uri(0)));
            }
            s.push_str("</snapshot>\n");
            snapshot_doc = s;
            snapshot_hash = hex(&sha256(snapshot_doc.as_bytes()));
        }
        NotifyOtherOrigin => { snap_uri = snapshot_uri.replace(HOST, "other.c25.example"); }
        _ => { }
    }
    let snapshot_available = !matches!(mode,
        SnapshotUnavailable | DeltaWrongHash(false) | DeltaWrongSession(false) | DeltaWrongSerial(false)
        | DeltaRepeatedObject(false) | DeltaHashPrecondition(false) | DeltaUnavailable(false) | DeltaReplaced(false));
    if snapshot_available { files.insert(snapshot_uri.clone(), snapshot_doc.into_bytes()); }
    let notification = server.notification_xml_of(&server.session, server.serial, &snap_uri, &snapshot_hash, &entries);
    let notify = match mode {
        Notify404 => Some((404, b"not found".to_vec())),
        Notify500 => Some((500, b"oops".to_vec())),
        NotifyGarbage => Some((200, notification.as_bytes()[..notification.len() / 2].to_vec())),
        NotifyUnreachable => None,
        _ => Some((200, notification.into_bytes())),
    };
    let lm_only = mode == FaithfulLastModified;
    let listed = if matches!(mode, Notify404 | Notify500 | NotifyGarbage | NotifyUnreachable) { Vec::new() }
        else { entries.iter().map(|(s, _, h)| (*s, h.clone())).collect() };
    Docs {
        notify, listed,
        etag: if lm_only { None } else { Some(server.etag()) },
        last_modified: if lm_only { Some(server_last_modified(server)) } else { None },
        honour_etag: !lm_only, always_304: mode == NotModifiedLie, files
    }
}

/// The time the server's content last changed, on the server's own clock
/// (which runs years behind the client's: only the server may compare it).
pub fn server_last_modified(server: &Server) -> i64 {
    1_600_000_000 + server.session_counter as i64 * 1_000_000 + server.serial as i64 * 100 + server.generation as i64
}

fn http_date(ts: i64) -> String {
    chrono::DateTime::<chrono::Utc>::from_timestamp(ts, 0).unwrap().format("%a, %d %b %Y %H:%M:%S GMT").to_string()
}

thread_local! {
    /// C24 only claims what its statement says: a fatal error after a
    /// crash is recorded as an outcome there, not as a violation.
    pub static FATAL_IS_OUTCOME: std::cell::Cell<bool> = const { std::cell::Cell::new(false) };
    static DOCS: RefCell<Option<Docs>> = const { RefCell::new(None) };
    static REQUESTS: RefCell<Vec<String>> = const { RefCell::new(Vec::new()) };
    /// the delta list served in the most recent update
    static LAST_LISTED: RefCell<Vec<(u64, String)>> = const { RefCell::new(Vec::new()) };
    /// whether that update received the notification document at all
    static NOTIFY_DELIVERED: std::cell::Cell<bool> = const { std::cell::Cell::new(false) };
}

fn answer(uri: &str, etag: Option<&[u8]>, lm: Option<i64>) -> Option<HttpAnswer> {
    REQUESTS.with(|r| r.borrow_mut().push(uri.to_string()));
    DOCS.with(|d| {
        let d = d.borrow();
        let d = d.as_ref()?;
        if uri.ends_with("/notification.xml") {
            let Some((status, body)) = d.notify.as_ref() else { return Some(HttpAnswer::Unreachable) };
            if let Some(server_lm) = d.last_modified {
                // RFC 9110 13.1.3: not modified since the given date
                let headers = vec![("Last-Modified".to_string(), http_date(server_lm))];
                if *status == 200 && lm.map(|lm| server_lm <= lm).unwrap_or(false) {
                    return Some(HttpAnswer::Response(resp(304, headers, Vec::new())))
                }
                if *status == 200 { NOTIFY_DELIVERED.with(|d| d.set(true)); }
                return Some(HttpAnswer::Response(resp(*status, headers, body.clone())))
            }
            let own = d.etag.clone().unwrap_or_default();
            if *status == 200 && ((d.honour_etag && etag == Some(own.as_bytes())) || (d.always_304 && etag.is_some())) {
                return Some(HttpAnswer::Response(resp(304, vec![("ETag".into(), String::from_utf8_lossy(etag.unwrap()).into_owned())], Vec::new())))
            }
            if *status == 200 { NOTIFY_DELIVERED.with(|d| d.set(true)); }
            return Some(HttpAnswer::Response(resp(*status, vec![("ETag".into(), own)], body.clone())))
        }
        match d.files.get(uri) {
            Some(body) => Some(HttpAnswer::Response(resp(200, vec![], body.clone()))),
            None => Some(HttpAnswer::Response(resp(404, vec![], b"not found".to_vec()))),
        }
    })
}

pub fn ensure_transport() -> &'static rrdpsrv::HostGuard {
    static G: std::sync::OnceLock<rrdpsrv::HostGuard> = std::sync::OnceLock::new();
    G.get_or_init(|| rrdpsrv::serve_host(HOST, Arc::new(|uri, etag, lm| answer(uri, etag, lm))))
}

//------------ Client side ---------------------------------------------------

pub struct Worker { pub case: Case, pub collector: RrdpCollector, pub path: PathBuf, pub notify: uri::Https }

static WORKER_SEQ: AtomicU64 = AtomicU64::new(0);

impl Worker {
    pub fn new(scratch: &PathBuf, max_object_size: Option<u64>) -> Self {
        ensure_transport();
        let n = WORKER_SEQ.fetch_add(1, Ordering::SeqCst);
        let case = Case::new(scratch.join(format!("w{n}")));
        let mut config = case.config();
        config.disable_rrdp = false;
        config.max_object_size = max_object_size;
        let mut collector = RrdpCollector::new(&config).ok().flatten().expect("rrdp collector");
        collector.ignite().expect("ignite");
        let notify = uri::Https::from_str(&format!("{BASE}/notification.xml")).unwrap();
        let path = collector.verif_repository_path(&notify).expect("archive path");
        Worker { case, collector, path, notify }
    }

    pub fn install(&self, archive: &Option<Vec<u8>>) {
        match archive {
            Some(bytes) => fs::write(&self.path, bytes).expect("write archive"),
            None => { let _ = fs::remove_file(&self.path); }
        }
        // no leftovers of earlier transitions
        let _ = fs::remove_dir_all(self.case.dir.join("cache").join("rrdp").join("tmp"));
    }

    pub fn read_back(&self) -> Option<Vec<u8>> { fs::read(&self.path).ok() }
}

#[derive(Clone, Debug, Eq, PartialEq)]
pub struct Local { pub session: String, pub serial: u64, pub objects: Objects, pub remembered: BTreeMap<u64, String>, pub etag: Option<Vec<u8>>, pub last_modified: Option<i64> }

/// Reads the local copy through the real archive code.
pub fn read_local(path: &PathBuf) -> Result<Option<Local>, String> {
    if !path.exists() { return Ok(None) }
    let archive = RrdpArchive::open(Arc::new(path.clone())).map_err(|_| "archive does not open".to_string())?;
    let state = archive.load_state().map_err(|_| "state does not load".to_string())?;
    let mut objects = Objects::new();
    for item in archive.objects().map_err(|_| "objects() fails".to_string())? {
        let (uri, data) = item.map_err(|_| "object unreadable".to_string())?;
        objects.insert(uri.to_string(), data.to_vec());
    }
    Ok(Some(Local {
        session: state.session.to_string(), serial: state.serial, objects,
        remembered: state.delta_state.iter().map(|(k, v)| (*k, hex(v.as_slice()))).collect(),
        etag: state.etag.as_ref().map(|e| e.to_vec()), last_modified: state.last_modified_ts,
    }))
}

#[derive(Clone, Debug)]
pub struct Outcome { pub result: &'static str, pub requests: Vec<String>, pub local: Option<Local> }

/// One client update against `server` in `mode`; checks the property.
pub fn client_update(
    w: &Worker, server: &Server, truth: &Truth, mode: Mode
) -> Result<Outcome, (String, String)> {
    let docs = build_docs(server, mode);
    LAST_LISTED.with(|l| *l.borrow_mut() = docs.listed.clone());
    NOTIFY_DELIVERED.with(|d| d.set(false));
    DOCS.with(|d| *d.borrow_mut() = Some(docs));
    REQUESTS.with(|r| r.borrow_mut().clear());
    let run = w.collector.start();
    let res = run.load_repository(&w.notify);
    let result = match &res {
        Ok(RrdpLoadResult::Updated(_)) => "updated",
        Ok(RrdpLoadResult::Current) => "current",
        Ok(RrdpLoadResult::Stale) => "stale",
        Ok(RrdpLoadResult::Unavailable) => "unavailable",
        Err(e) => if e.is_fatal() { "fatal" } else { "retry" },
    };
    let mut via_repo: Option<Objects> = None;
    if let Ok(RrdpLoadResult::Updated(repo)) = &res {
        let mut objs = Objects::new();
        for i in 0..4 {
            let u = uri::Rsync::from_str(&obj_uri(i)).unwrap();
            match repo.load_object(&u) {
                Ok(Some(d)) => { objs.insert(obj_uri(i), d.to_vec()); }
                Ok(None) => { }
                Err(_) => return Err(("object-unreadable".into(), "load_object failed on an updated repository".into())),
            }
        }
        via_repo = Some(objs);
    }
    drop(res);
    drop(run);
    DOCS.with(|d| *d.borrow_mut() = None);
    let requests = REQUESTS.with(|r| r.borrow().clone());
    if result == "fatal" && !FATAL_IS_OUTCOME.with(|f| f.get()) {
        return Err(("fatal-error".into(), "the update ended the run with a fatal error".into()))
    }
    let local = read_local(&w.path).map_err(|e| ("local-copy-unreadable".to_string(), e));
    if result == "updated" {
        let local = local?.ok_or(("no-local-copy".to_string(), "reported updated without a local copy".to_string()))?;
        let want = truth.get(&(local.session.clone(), local.serial));
        match want {
            None => return Err(("unknown-version".into(), format!(
                "reported updated at session {} serial {} which the server never had", local.session, local.serial
            ))),
            Some(want) => {
                let seen = via_repo.unwrap_or_default();
                let mine: Objects = local.objects.iter().filter(|(k, _)| k.contains("/m/o")).map(|(k, v)| (k.clone(), v.clone())).collect();
                if *want != mine || *want != seen {
                    return Err(("divergent-copy".into(), format!(
                        "reported updated at serial {} but the local copy is {} while the server's snapshot at that serial is {}",
                        local.serial, fmt_objs(&mine), fmt_objs(want)
                    )))
                }
            }
        }
        // the notified serial: what this update was told, or remembered on 304
        return Ok(Outcome { result, requests, local: Some(local) })
    }
    // not updated: whatever is on disk must still be readable or gone
    let local = match local { Ok(l) => l, Err(_) => None };
    Ok(Outcome { result, requests, local })
}

fn own_objects(l: &Local) -> Objects {
    l.objects.iter().filter(|(k, _)| k.contains("/m/o")).map(|(k, v)| (k.clone(), v.clone())).collect()
}

/// Does the local copy equal the version it claims to be?
pub fn is_clean(local: &Option<Local>, truth: &Truth) -> bool {
    local.as_ref().map(|l| truth.get(&(l.session.clone(), l.serial)) == Some(&own_objects(l))).unwrap_or(true)
}

/// The second half of the property for a protocol-conforming server: when
/// every answer was faithful and nothing earlier left the copy divergent,
/// the update neither fails nor keeps an older version: the copy is the
/// server's current snapshot.
pub fn check_faithful(server: &Server, mode: Mode, clean_before: bool, o: &Outcome) -> Result<(), (String, String)> {
    if !matches!(mode, Mode::Faithful | Mode::FaithfulLastModified) || !clean_before { return Ok(()) }
    if o.result != "updated" && o.result != "current" {
        return Err(("faithful-server-refused".into(), format!("every answer was faithful, yet the update reported {}", o.result)))
    }
    let in_sync = o.local.as_ref().map(|l| l.session == server.session && l.serial == server.serial && own_objects(l) == server.objects).unwrap_or(false);
    if !in_sync {
        return Err(("stale-after-faithful-update".into(), format!(
            "every answer was faithful and the update reported {}, yet the local copy is {} while the server is at serial {} with {}",
            o.result,
            o.local.as_ref().map(|l| format!("serial {} {}", l.serial, fmt_objs(&own_objects(l)))).unwrap_or("absent".into()),
            server.serial, fmt_objs(&server.objects)
        )))
    }
    Ok(())
}

pub fn fmt_objs(o: &Objects) -> String {
    let v: Vec<String> = o.iter().map(|(k, v)| format!("{}={}", k.rsplit('/').next().unwrap_or(k), String::from_utf8_lossy(v))).collect();
    format!("{{{}}}", v.join(", "))
}

//------------ Server side ---------------------------------------------------

pub const RETAIN: usize = 3;

pub fn apply_srv(server: &mut Server, truth: &mut Truth, op: SrvOp) -> bool {
    let changed = match op {
        SrvOp::Set(o, c) => server.set(&obj_uri(o), c.map(|c| CONTENTS[c])),
        SrvOp::NewSession => { server.new_session(); true }
        SrvOp::DropDeltas => { if server.deltas.is_empty() { false } else { server.drop_deltas(); true } }
        SrvOp::RewriteLast => {
            let Some(serial) = server.deltas.keys().next_back().copied() else { return false };
            let elems = server.deltas.get_mut(&serial).unwrap();
            let other = |d: &[u8]| if d == CONTENTS[0] { CONTENTS[1].to_vec() } else { CONTENTS[0].to_vec() };
            let Some((uri, data)) = elems.iter_mut().find_map(|e| match e {
                Elem::Publish { uri, data } | Elem::Update { uri, data, .. } => { *data = other(data); Some((uri.clone(), data.clone())) }
                Elem::Withdraw { .. } => None,
            }) else { return false };
            server.objects.insert(uri, data);
            server.generation += 1;
            true
        }
    };
    while server.deltas.len() > RETAIN {
        let first = *server.deltas.keys().next().unwrap();
        server.deltas.remove(&first);
    }
    truth.insert((server.session.clone(), server.serial), server.objects.clone());
    changed
}

pub fn new_server() -> (Server, Truth) {
    let server = Server::new(BASE);
    let mut truth = Truth::new();
    truth.insert((server.session.clone(), server.serial), server.objects.clone());
    (server, truth)
}

//------------ Search --------------------------------------------------------

#[derive(Clone)]
struct State { archive: Option<Vec<u8>>, local: Option<Local>, server: Server, truth: Truth, hist: Vec<Event>, poisoned_by: Option<Mode>,
    /// the copy went through an update in which a rewrite of history by
    /// the server could not be noticed (see `undetectable_rewrite`)
    server_poisoned: bool }

/// Canonical key. Argument: the update logic reads the local copy only
/// through (session, serial, remembered delta hashes, objects) and the
/// notification; it compares serials only by difference and equality, so
/// absolute serial numbers are dropped (differences below -(RETAIN+1) are
/// all "older than every retained delta"). The physical layout of the
/// archive is C26's business.
fn canon(s: &State) -> String {
    let client = match &s.local {
        None => "none".to_string(),
        Some(l) => {
            let same = l.session == s.server.session;
            let diff = if same { (l.serial as i64 - s.server.serial as i64).max(-(RETAIN as i64) - 1) } else { 0 };
            let consistent = l.remembered.iter().all(|(serial, h)| {
                !same || match s.server.delta_xml(*serial) {
                    Some(x) => hex(&sha256(x.as_bytes())) == *h,
                    None => true
                }
            });
            let matches_truth = s.truth.get(&(l.session.clone(), l.serial)).map(|t| {
                let mine: Objects = l.objects.iter().filter(|(k, _)| k.contains("/m/o")).map(|(k, v)| (k.clone(), v.clone())).collect();
                *t == mine
            }).unwrap_or(false);
            // validators: which the copy holds, and whether the server
            // (in the mode that looks at them) would answer Not Modified
            let etag = match &l.etag { None => "none", Some(e) if e[..] == *s.server.etag().as_bytes() => "current", Some(_) => "other" };
            let lm = match l.last_modified { None => "none", Some(t) if t >= server_last_modified(&s.server) => "current", Some(_) => "older" };
            format!("same={same} diff={diff} objs={} remembered={} consistent={consistent} true={matches_truth} etag={etag} lm={lm} sp={}",
                fmt_objs(&l.objects), l.remembered.len().min(RETAIN), s.server_poisoned)
        }
    };
    let delta_shapes: Vec<String> = s.server.deltas.values().map(|e| {
        e.iter().map(|x| match x {
            Elem::Publish { uri, .. } => format!("P{}", &uri[uri.len() - 6..]),
            Elem::Update { uri, .. } => format!("U{}", &uri[uri.len() - 6..]),
            Elem::Withdraw { uri, .. } => format!("W{}", &uri[uri.len() - 6..]),
        }).collect::<Vec<_>>().join("+")
    }).collect();
    format!("{client} | srv objs={} deltas={:?} first-session={}", fmt_objs(&s.server.objects), delta_shapes, s.server.session_counter == 1)
}

/// The server changed what it had published under a serial the client
/// already holds (`SrvOp::RewriteLast`), and nothing in the answers of this
/// update lets a client notice: no delta it remembers is listed with another
/// hash. (RRDP offers no other means; such a divergence is the server's.)
fn undetectable_rewrite(st: &State) -> bool {
    if st.poisoned_by.is_some() || is_clean(&st.local, &st.truth) { return false }
    let Some(l) = st.local.as_ref() else { return false };
    if !NOTIFY_DELIVERED.with(|d| d.get()) { return true }
    let listed = LAST_LISTED.with(|x| x.borrow().clone());
    !listed.iter().any(|(serial, hash)| l.remembered.get(serial).map(|h| h != hash).unwrap_or(false))
}

fn ev_json(h: &[Event]) -> Value { json!(h.iter().map(|e| format!("{e:?}")).collect::<Vec<_>>()) }

pub fn parse_events(v: &Value) -> Vec<Event> {
    let all: Vec<Event> = srv_ops().into_iter().map(Event::Srv).chain(modes().into_iter().map(Event::Update)).collect();
    v.as_array().map(|a| a.iter().filter_map(|x| {
        let s = x.as_str()?;
        all.iter().find(|e| format!("{e:?}") == s).copied()
    }).collect()).unwrap_or_default()
}

thread_local! {
    static WORKER: RefCell<Option<Worker>> = const { RefCell::new(None) };
}

fn with_worker<R>(scratch: &PathBuf, f: impl FnOnce(&Worker) -> R) -> R {
    WORKER.with(|w| {
        let mut w = w.borrow_mut();
        if w.is_none() { *w = Some(Worker::new(scratch, None)) }
        f(w.as_ref().unwrap())
    })
}

struct Expanded { succ: Vec<State>, transitions: u64, outcomes: BTreeMap<String, u64>, violations: Vec<(String, String, Vec<Event>)> }

fn expand(scratch: &PathBuf, st: &State) -> Expanded {
    let mut ex = Expanded { succ: Vec::new(), transitions: 0, outcomes: BTreeMap::new(), violations: Vec::new() };
    for op in srv_ops() {
        let mut s = st.clone();
        if !apply_srv(&mut s.server, &mut s.truth, op) { continue }
        s.hist.push(Event::Srv(op));
        ex.succ.push(s);
    }
    with_worker(scratch, |w| {
        for mode in modes() {
            w.install(&st.archive);
            ex.transitions += 1;
            let r = util::catch(|| {
                let o = client_update(w, &st.server, &st.truth, mode)?;
                check_faithful(&st.server, mode, st.poisoned_by.is_none() && !st.server_poisoned && is_clean(&st.local, &st.truth), &o)?;
                Ok(o)
            }).unwrap_or_else(|p| Err(("panic".into(), p)));
            let mut hist = st.hist.clone();
            hist.push(Event::Update(mode));
            match r {
                Ok(o) => {
                    *ex.outcomes.entry(format!("{}:{}", o.result, mode_class(mode))).or_insert(0) += 1;
                    let archive = w.read_back();
                    let mut s = State { archive, local: o.local, server: st.server.clone(), truth: st.truth.clone(), hist, poisoned_by: st.poisoned_by, server_poisoned: false };
                    if s.archive.is_none() { s.local = None }
                    // does the local copy still equal the version it claims to be?
                    let clean = is_clean(&s.local, &s.truth);
                    s.server_poisoned = !clean && (st.server_poisoned || undetectable_rewrite(st));
                    if clean || s.server_poisoned { s.poisoned_by = None } else if s.poisoned_by.is_none() { s.poisoned_by = Some(mode) }
                    ex.succ.push(s);
                }
                Err((class, _)) if (class == "divergent-copy" || class == "stale-after-faithful-update") && (st.server_poisoned || undetectable_rewrite(st)) => {
                    // the server rewrote history where no client can see it
                    *ex.outcomes.entry("divergent:server-rewrote-history-unnoticeably".into()).or_insert(0) += 1;
                }
                Err((class, msg)) => {
                    *ex.outcomes.entry(format!("VIOLATION:{class}")).or_insert(0) += 1;
                    let how = match st.poisoned_by {
                        Some(p) => format!("copy-left-divergent-by={p:?}:revealed-by={mode:?}"),
                        None => format!("clean-copy:{mode:?}"),
                    };
                    ex.violations.push((format!("{class}:{how}"), msg, hist));
                }
            }
        }
    });
    ex
}

fn mode_class(m: Mode) -> &'static str {
    use Mode::*;
    match m {
        Faithful | FaithfulLastModified => "faithful",
        Notify404 | Notify500 | NotifyGarbage | NotifyUnreachable | NotifyOtherOrigin | NotModifiedLie => "notify-fault",
        ListDropNewest | ListDropOldest | ListGap | ListDuplicate | ListHashMutated => "list-fault",
        DeltaWrongHash(_) | DeltaWrongSession(_) | DeltaWrongSerial(_) | DeltaRepeatedObject(_) | DeltaHashPrecondition(_) | DeltaUnavailable(_) | DeltaReplaced(_) => "delta-fault",
        _ => "snapshot-fault",
    }
}

fn root_sequences() -> Vec<Vec<Event>> {
    use Event::*;
    let f = Update(Mode::Faithful);
    vec![
        vec![Srv(SrvOp::Set(0, Some(0))), f],
        vec![Srv(SrvOp::Set(0, Some(0))), f, Srv(SrvOp::Set(1, Some(0)))],
        vec![Srv(SrvOp::Set(0, Some(0))), f, Srv(SrvOp::Set(1, Some(0))), Srv(SrvOp::Set(0, Some(1))), Srv(SrvOp::Set(1, Some(1)))],
        vec![Srv(SrvOp::Set(0, Some(0))), Srv(SrvOp::Set(1, Some(1))), f, Srv(SrvOp::Set(1, None)), Srv(SrvOp::Set(0, Some(1))), Srv(SrvOp::Set(1, Some(0)))],
        vec![Srv(SrvOp::Set(0, Some(0))), f, Srv(SrvOp::NewSession), Srv(SrvOp::Set(1, Some(0)))],
    ]
}

fn build_root(scratch: &PathBuf, events: &[Event]) -> Result<State, (String, String)> {
    let (server, truth) = new_server();
    let mut st = State { archive: None, local: None, server, truth, hist: Vec::new(), poisoned_by: None, server_poisoned: false };
    with_worker(scratch, |w| {
        for e in events {
            match e {
                Event::Srv(op) => { apply_srv(&mut st.server, &mut st.truth, *op); }
                Event::Update(mode) => {
                    w.install(&st.archive);
                    let o = client_update(w, &st.server, &st.truth, *mode)?;
                    check_faithful(&st.server, *mode, st.poisoned_by.is_none() && !st.server_poisoned && is_clean(&st.local, &st.truth), &o)?;
                    st.archive = w.read_back();
                    st.local = o.local;
                    if st.archive.is_none() { st.local = None }
                    if is_clean(&st.local, &st.truth) { st.poisoned_by = None } else if st.poisoned_by.is_none() { st.poisoned_by = Some(*mode) }
                }
            }
            st.hist.push(*e);
        }
        Ok::<(), (String, String)>(())
    })?;
    Ok(st)
}

pub fn run(ctx: &Ctx) -> Report {
    util::quiet_panics();
    let mut rep = Report::new("model_checking");
    let max_depth = if ctx.tier.thorough() { 7 } else { 3 };
    let wall_cap = std::time::Duration::from_secs(if ctx.tier.thorough() { 900 } else { 40 });
    let started = std::time::Instant::now();
    rep.rule = format!("explicit-state BFS; state = client archive file + \
        server model (objects o0, o1 with contents x / y, session, serial, \
        last {RETAIN} deltas); events = {} server steps (publish / replace / \
        withdraw each object, new session, loss of the delta history, \
        other content published under the current serial) and \
        client updates through the real RRDP collector in one of {} answer \
        modes (faithful; notification 404 / 500 / truncated / unreachable / \
        other-origin snapshot / lying 304; delta list without its newest / \
        oldest entry, gapped, with a duplicate, with hashes differing from \
        the remembered ones; newest delta with wrong hash / session / \
        serial / repeated object / wrong hash precondition / missing, each \
        with and without a usable snapshot; snapshot with wrong hash / \
        serial / session / duplicate object / missing); oracle: an update \
        reported successful leaves objects (read through the returned \
        repository and from the archive) equal to the server's snapshot at \
        the (session, serial) recorded in the local state, a version the \
        server really had; never a fatal error; dedup on a canonical key \
        (relative serial, local objects, remembered-hash consistency, \
        server objects and delta shapes)", srv_ops().len(), modes().len());
    let scratch = ctx.scratch.clone();
    let (server, truth) = new_server();
    let first = State { archive: None, local: None, server, truth, hist: Vec::new(), poisoned_by: None, server_poisoned: false };
    let mut seen: HashSet<String> = HashSet::new();
    seen.insert(canon(&first));
    let mut frontier = vec![first];
    // Additional roots (states deeper than the quick depth reaches): local
    // copies one and three deltas behind, of an older session, in sync.
    for seq in root_sequences() {
        match build_root(&scratch, &seq) {
            Ok(st) => { if seen.insert(canon(&st)) { frontier.push(st) } }
            Err((class, msg)) => rep.violation(format!("rrdp:{class}:root"), format!("root {seq:?}: {msg}"), json!({"events": ev_json(&seq)})),
        }
    }
    rep.extra.insert("roots".into(), json!(frontier.len()));
    let mut depth = 0;
    let mut capped = None;
    let threads = util::cores().min(12);
    while depth < max_depth && !frontier.is_empty() {
        if started.elapsed() > wall_cap {
            capped = Some(format!("wall cap {wall_cap:?} reached before expanding depth {depth} ({} states pending)", frontier.len()));
            break
        }
        // A level that is still being expanded when the hard cap passes is
        // cut short: the remaining states of the frontier are not expanded
        // and the level does not count as completed.
        let hard_cap = wall_cap * 2;
        let res = util::par_map(frontier.len() as u64, threads, |i| {
            if started.elapsed() > hard_cap { return None }
            Some(expand(&scratch, &frontier[i as usize]))
        });
        let skipped = res.iter().filter(|r| r.is_none()).count();
        let mut next = Vec::new();
        for ex in res.into_iter().flatten() {
            rep.transitions += ex.transitions;
            for (k, v) in ex.outcomes { *rep.outcomes.entry(k).or_insert(0) += v; }
            for (class, msg, hist) in ex.violations {
                rep.violation(format!("rrdp:{class}"), format!("after {:?}: {msg}", hist), json!({"events": ev_json(&hist)}));
            }
            for s in ex.succ {
                if seen.insert(canon(&s)) { next.push(s) }
            }
        }
        if skipped > 0 {
            capped = Some(format!("wall cap {hard_cap:?} reached while expanding depth {depth}: {} of {} states of that level expanded, the rest and everything deeper not", frontier.len() - skipped, frontier.len()));
            break
        }
        depth += 1;
        rep.extra.insert(format!("states_after_depth_{depth}"), json!(seen.len()));
        frontier = next;
    }
    rep.states = seen.len() as u64;
    rep.traces = rep.transitions;
    rep.evaluations = rep.transitions;
    rep.nontrivial = rep.outcomes.iter().filter(|(k, _)| !k.ends_with(":faithful")).map(|(_, v)| *v).sum();
    let fix = frontier.is_empty() && capped.is_none();
    rep.bound = format!("all event sequences up to length {depth} from the empty client and from 5 further roots (local copy in sync, one and three deltas behind, behind with a withdrawn object, of an older session); every distinct canonical state at depth < {depth} expanded with every event; fixpoint: {fix}");
    rep.exhaustive = capped.is_none();
    rep.capped = capped;
    rep.extra.insert("depth_completed".into(), json!(depth));
    rep.extra.insert("frontier_left".into(), json!(frontier.len()));
    for st in frontier.iter().take(2) { rep.sample(json!({"events": ev_json(&st.hist), "state": canon(st)})); }
    rep.sample(json!({"events": ["Srv(Set(0, Some(0)))", "Update(Faithful)", "Srv(Set(1, Some(1)))", "Update(DeltaWrongHash(false))"]}));
    rep.assumptions.push("fault modes are those with a well-defined server truth; the canonical key merges states that differ only in absolute serials, physical archive layout and timestamps".into());
    rep
}

/// Replays an event list; used by the replay entry and by C24.
pub fn replay_events(scratch: &PathBuf, events: &[Event]) -> Result<(), (String, String)> {
    let (mut server, mut truth) = new_server();
    with_worker(scratch, |w| {
        let mut archive: Option<Vec<u8>> = None;
        let mut clean = true;
        let mut last_local: Option<Local> = None;
        for e in events {
            match e {
                Event::Srv(op) => {
                    apply_srv(&mut server, &mut truth, *op);
                    println!("{e:?}: server at serial {} {}", server.serial, fmt_objs(&server.objects));
                    clean = clean && is_clean(&last_local, &truth);
                }
                Event::Update(mode) => {
                    w.install(&archive);
                    let o = client_update(w, &server, &truth, *mode)?;
                    println!("{e:?}: {} local {:?} requests {:?}", o.result, o.local.as_ref().map(|l| (l.serial, fmt_objs(&l.objects))), o.requests);
                    check_faithful(&server, *mode, clean, &o)?;
                    archive = w.read_back();
                    let local = if archive.is_none() { None } else { o.local };
                    clean = is_clean(&local, &truth);
                    last_local = local;
                }
            }
        }
        Ok(())
    })
}

pub fn replay(ctx: &Ctx, v: &Value) -> Report {
    util::quiet_panics();
    let mut rep = Report::new("model_checking");
    let events = parse_events(&v["events"]);
    if let Err((class, msg)) = replay_events(&ctx.scratch, &events) {
        rep.violation(format!("rrdp:{class}"), msg, v.clone());
    }
    rep.states = 1; rep.transitions = events.len() as u64; rep.traces = 1; rep.evaluations = 1;
    rep.sample(v.clone());
    rep
}

pub fn _unused(_: BTreeSet<u8>) { }
