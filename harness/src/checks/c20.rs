//! C20 Route origin validation follows RFC 6811.

use std::collections::BTreeSet;
use std::net::IpAddr;
use rpki::resources::{Asn, Prefix};
use rpki::rtr::payload::RouteOrigin;
use routinator::payload::{PayloadSnapshot, SharedHistory};
use routinator::validity::{RequestList, RouteState, RouteValidity};
use serde_json::{json, Value};
use crate::data::{self, DataSet};
use crate::httpd::Httpd;
use crate::report::{Ctx, Report};
use crate::util;

/// A VRP in reference form.
#[derive(Clone, Copy, Debug, Eq, Ord, PartialEq, PartialOrd)]
struct Vrp { v6: bool, bits: u128, len: u8, max: u8, asn: u32 }

#[derive(Clone, Copy, Debug)]
struct Route { v6: bool, bits: u128, len: u8, asn: u32 }

fn mask(bits: u128, len: u8, width: u8) -> u128 {
    if len == 0 { 0 } else { (bits >> (width - len)) << (width - len) }
}

/// The reference: RFC 6811 section 2.
fn covers(v: &Vrp, r: &Route) -> bool {
    let width = if v.v6 { 128 } else { 32 };
    v.v6 == r.v6 && v.len <= r.len && mask(r.bits, v.len, width) == v.bits
}

fn classify(vrps: &[Vrp], r: &Route) -> (&'static str, Vec<Vrp>, Vec<Vrp>) {
    let covering: Vec<Vrp> = vrps.iter().filter(|v| covers(v, r)).copied().collect();
    let matching: Vec<Vrp> = covering.iter().filter(|v| {
        v.asn == r.asn && r.len <= v.max
    }).copied().collect();
    let state = if !matching.is_empty() { "valid" }
        else if !covering.is_empty() { "invalid" }
        else { "not-found" };
    (state, covering, matching)
}

/// VRPs of AS 1 whose max length equals the prefix length are built
/// without an explicit max length (as from a ROA entry or SLURM assertion
/// that omits it); all others carry it explicitly.
fn implicit_max(v: &Vrp) -> bool { v.max == v.len && v.asn == 1 }

fn to_origin(v: &Vrp) -> RouteOrigin {
    let addr = if v.v6 { IpAddr::V6(std::net::Ipv6Addr::from(v.bits)) }
        else { IpAddr::V4(std::net::Ipv4Addr::from(v.bits as u32)) };
    RouteOrigin::new(
        rpki::resources::addr::MaxLenPrefix::new(
            Prefix::new(addr, v.len).unwrap(),
            if implicit_max(v) { None } else { Some(v.max) }
        ).unwrap(),
        Asn::from_u32(v.asn)
    )
}

fn to_prefix(r: &Route) -> Prefix {
    let addr: IpAddr = if r.v6 {
        IpAddr::V6(std::net::Ipv6Addr::from(r.bits))
    } else {
        IpAddr::V4(std::net::Ipv4Addr::from(r.bits as u32))
    };
    Prefix::new(addr, r.len).unwrap()
}

fn from_origin(o: &RouteOrigin) -> Vrp {
    let (v6, bits) = match o.prefix.addr() {
        IpAddr::V4(a) => (false, u32::from(a) as u128),
        IpAddr::V6(a) => (true, u128::from(a)),
    };
    Vrp { v6, bits, len: o.prefix.prefix_len(), max: o.prefix.resolved_max_len(),
          asn: o.asn.into_u32() }
}

fn vrp_universe(depth: u8) -> Vec<Vrp> {
    let mut res = Vec::new();
    let base = 10u128 << 24;
    for d in 0..=depth {
        let len = 8 + d;
        for i in 0..(1u128 << d) {
            let bits = base | (i << (32 - len));
            for max in [len, len + 1, 32] {
                for asn in [1, 2] {
                    res.push(Vrp { v6: false, bits, len, max, asn });
                }
            }
        }
    }
    let v6 = 0x2001_0db8u128 << 96;
    res.push(Vrp { v6: true, bits: v6, len: 32, max: 32, asn: 1 });
    res.push(Vrp { v6: true, bits: v6, len: 32, max: 48, asn: 2 });
    res.push(Vrp { v6: true, bits: v6 | (1u128 << 80), len: 48, max: 128, asn: 1 });
    // v6 prefix whose leading bits look like 10.0.0.0/8 (family confusion)
    res.push(Vrp { v6: true, bits: 0x0a00u128 << 112, len: 8, max: 16, asn: 1 });
    res
}

fn routes() -> Vec<Route> {
    let mut res = Vec::new();
    let base = 10u128 << 24;
    let mut prefixes = vec![(false, 0u128, 0u8), (false, base & !(1 << 24), 7)];
    for d in 0..=3u8 {
        let len = 8 + d;
        for i in 0..(1u128 << d) {
            prefixes.push((false, base | (i << (32 - len)), len));
        }
    }
    prefixes.push((false, base | (1 << 20), 12));
    prefixes.push((false, base | 1, 32));
    prefixes.push((false, base, 32));
    prefixes.push((false, 11u128 << 24, 8));
    let v6 = 0x2001_0db8u128 << 96;
    prefixes.push((true, v6, 32));
    prefixes.push((true, v6, 48));
    prefixes.push((true, v6 | (1u128 << 80), 48));
    prefixes.push((true, v6 | (1u128 << 80) | 1, 128));
    prefixes.push((true, 0x0a00u128 << 112, 8));
    prefixes.push((true, 0, 0));
    for (v6, bits, len) in prefixes {
        for asn in [1, 2, 3] {
            res.push(Route { v6, bits, len, asn });
        }
    }
    res
}

fn state_str(s: RouteState) -> &'static str {
    match s {
        RouteState::Valid => "valid",
        RouteState::Invalid => "invalid",
        RouteState::NotFound => "not-found",
    }
}

fn list(items: &[(RouteOrigin, &routinator::payload::PayloadInfo)]) -> Vec<Vrp> {
    items.iter().map(|x| from_origin(&x.0)).collect()
}

/// Checks one (set, route) pair through `RouteValidity`.
fn check_route(
    vrps: &[Vrp], snapshot: &PayloadSnapshot, r: &Route
) -> Result<&'static str, (String, String)> {
    let (state, covering, matching) = classify(vrps, r);
    let rv = RouteValidity::new(to_prefix(r), Asn::from_u32(r.asn), snapshot);
    let got = state_str(rv.state());
    if got != state {
        return Err((format!("state:{state}-as-{got}"), format!(
            "route {r:?}: state {got}, RFC 6811 says {state}"
        )))
    }
    let (m, ba, bl) = (list(rv.matched()), list(rv.bad_asn()), list(rv.bad_len()));
    let mset: BTreeSet<Vrp> = m.iter().copied().collect();
    if mset != matching.iter().copied().collect() || m.len() != mset.len() {
        return Err(("matched-list".into(), format!(
            "route {r:?}: matched {m:?} expected {matching:?}"
        )))
    }
    let mut all: Vec<Vrp> = m.iter().chain(ba.iter()).chain(bl.iter()).copied().collect();
    all.sort();
    let mut cov = covering.clone();
    cov.sort();
    if all != cov {
        return Err(("partition".into(), format!(
            "route {r:?}: lists {all:?} do not partition covering {cov:?}"
        )))
    }
    if ba.iter().any(|v| v.asn == r.asn) {
        return Err(("unmatched-as-entry".into(), format!(
            "route {r:?}: unmatched_as contains a VRP with the route's AS"
        )))
    }
    if bl.iter().any(|v| r.len <= v.max) {
        return Err(("unmatched-length-entry".into(), format!(
            "route {r:?}: unmatched_length contains a VRP whose max length admits the route"
        )))
    }
    let reason = rv.reason();
    let ok = match state {
        "valid" | "not-found" => reason.is_none(),
        _ => match reason {
            Some("as") => !ba.is_empty(),
            Some("length") => !bl.is_empty() && ba.is_empty(),
            _ => false
        }
    };
    if !ok {
        return Err(("reason".into(), format!(
            "route {r:?}: reason {reason:?} inconsistent with state {state} \
             and lists as={} length={}", ba.len(), bl.len()
        )))
    }
    Ok(state)
}

fn parse_vrp_json(v: &Value) -> Option<Vrp> {
    let asn: Asn = v["asn"].as_str()?.parse().ok()?;
    let prefix: Prefix = v["prefix"].as_str()?.parse().ok()?;
    let max: u8 = v["max_length"].as_str()?.parse().ok()?;
    let (v6, bits) = match prefix.addr() {
        IpAddr::V4(a) => (false, u32::from(a) as u128),
        IpAddr::V6(a) => (true, u128::from(a)),
    };
    Some(Vrp { v6, bits, len: prefix.len(), max, asn: asn.into_u32() })
}

/// Checks one validated_route JSON object against the reference.
fn check_json_route(
    vrps: &[Vrp], r: &Route, v: &Value
) -> Result<(), (String, String)> {
    let (state, covering, matching) = classify(vrps, r);
    let val = &v["validity"];
    if val["state"].as_str() != Some(state) {
        return Err(("json-state".into(), format!(
            "route {r:?}: JSON state {} expected {state}", val["state"]
        )))
    }
    let get = |k: &str| -> Option<Vec<Vrp>> {
        val["VRPs"][k].as_array()?.iter().map(parse_vrp_json).collect()
    };
    let (m, ba, bl) = match (get("matched"), get("unmatched_as"), get("unmatched_length")) {
        (Some(a), Some(b), Some(c)) => (a, b, c),
        _ => return Err(("json-lists".into(), format!("route {r:?}: malformed VRP lists")))
    };
    let mut ms = m.clone(); ms.sort();
    let mut want = matching.clone(); want.sort();
    if ms != want {
        return Err(("json-matched".into(), format!("route {r:?}: JSON matched {m:?} expected {matching:?}")))
    }
    let mut all: Vec<Vrp> = m.into_iter().chain(ba).chain(bl).collect();
    all.sort();
    let mut cov = covering; cov.sort();
    if all != cov {
        return Err(("json-partition".into(), format!("route {r:?}: JSON lists do not partition the covering VRPs")))
    }
    if v["route"]["origin_asn"].as_str() != Some(&format!("AS{}", r.asn))
        || v["route"]["prefix"].as_str() != Some(&format!("{}", to_prefix(r)))
    {
        return Err(("json-route".into(), format!("route {r:?}: JSON echoes {}", v["route"])))
    }
    Ok(())
}

fn check_set(
    vrps: &[Vrp], routes: &[Route], with_http: bool
) -> (u64, std::collections::BTreeMap<&'static str, u64>, Vec<(String, String)>) {
    let mut ds = DataSet::default();
    for v in vrps { ds.origins.insert(to_origin(v)); }
    let snapshot = ds.snapshot();
    let mut viol = Vec::new();
    let mut outcomes = std::collections::BTreeMap::new();
    let mut n = 0;
    for r in routes {
        n += 1;
        match util::catch(|| check_route(vrps, &snapshot, r)) {
            Ok(Ok(state)) => { *outcomes.entry(state).or_insert(0) += 1; }
            Ok(Err(e)) => viol.push(e),
            Err(p) => viol.push(("panic".into(), format!("route {r:?}: panic {p}"))),
        }
    }
    // Batch interface: one request list with every route, plain and JSON.
    let plain: String = routes.iter().map(|r| {
        format!("{} => AS{} # c\n", to_prefix(r), r.asn)
    }).collect();
    let json_req = json!({"routes": routes.iter().map(|r| json!({
        "prefix": format!("{}", to_prefix(r)), "asn": format!("AS{}", r.asn)
    })).collect::<Vec<_>>()}).to_string();
    for (kind, list) in [
        ("plain", RequestList::from_plain_reader(plain.as_bytes()).map_err(|e| e.to_string())),
        ("json", RequestList::from_json_reader(&mut json_req.as_bytes()).map_err(|e| e.to_string())),
    ] {
        let list = match list {
            Ok(list) => list,
            Err(e) => { viol.push(("batch-parse".into(), format!("{kind}: {e}"))); continue }
        };
        let res = list.validity(&snapshot);
        let states: Vec<_> = res.iter_state().collect();
        if states.len() != routes.len() {
            viol.push(("batch-len".into(), format!("{kind}: {} answers for {} routes", states.len(), routes.len())));
            continue
        }
        for (r, (p, a, s)) in routes.iter().zip(states) {
            n += 1;
            let (state, _, _) = classify(vrps, r);
            if p != to_prefix(r) || a != Asn::from_u32(r.asn) || state_str(s) != state {
                viol.push((format!("batch-state:{kind}"), format!(
                    "route {r:?}: batch answer {p} {a} {} expected {state}", state_str(s)
                )));
            }
        }
        let mut out = Vec::new();
        res.write_json(&mut out).unwrap();
        match serde_json::from_slice::<Value>(&out) {
            Ok(v) => {
                let arr = v["validated_routes"].as_array().cloned().unwrap_or_default();
                if arr.len() != routes.len() {
                    viol.push(("batch-json-len".into(), format!("{kind}: JSON has {} routes", arr.len())));
                }
                for (r, item) in routes.iter().zip(arr.iter()) {
                    n += 1;
                    if let Err(e) = check_json_route(vrps, r, item) { viol.push(e) }
                }
            }
            Err(e) => viol.push(("batch-json".into(), format!("{kind}: batch JSON invalid: {e}"))),
        }
    }
    if with_http {
        let config = data::mem_config();
        let history = SharedHistory::from_config(&config);
        data::install(&history, &config, &ds);
        history.mark_update_done();
        let httpd = Httpd::new(&config, history);
        for (i, r) in routes.iter().enumerate() {
            let uri = if i % 2 == 0 {
                format!("/api/v1/validity/AS{}/{}", r.asn, to_prefix(r))
            } else {
                format!("/validity?asn={}&prefix={}", r.asn,
                    format!("{}", to_prefix(r)).replace(':', "%3A").replace('/', "%2F"))
            };
            n += 1;
            let ans = httpd.get(&uri, &[]);
            if ans.status != 200 {
                viol.push(("http-status".into(), format!("{uri}: status {}", ans.status)));
                continue
            }
            match serde_json::from_slice::<Value>(&ans.body) {
                Ok(v) => if let Err(e) = check_json_route(vrps, r, &v["validated_route"]) {
                    viol.push((format!("http-{}", e.0), format!("{uri}: {}", e.1)))
                },
                Err(e) => viol.push(("http-json".into(), format!("{uri}: invalid JSON: {e}"))),
            }
        }
    }
    (n, outcomes, viol)
}

fn sets(universe: &[Vrp], max: usize) -> Vec<Vec<usize>> {
    let n = universe.len();
    let mut res = vec![vec![]];
    for i in 0..n { res.push(vec![i]); }
    if max >= 2 { for i in 0..n { for j in i + 1..n { res.push(vec![i, j]); } } }
    if max >= 3 {
        for i in 0..n { for j in i + 1..n { for k in j + 1..n { res.push(vec![i, j, k]); } } }
    }
    res
}

pub fn run(ctx: &Ctx) -> Report {
    util::quiet_panics();
    let mut rep = Report::new("exploration");
    let (depth, max) = if ctx.tier.thorough() { (3, 3) } else { (2, 2) };
    let universe = vrp_universe(depth);
    let routes = routes();
    let sets = sets(&universe, max);
    rep.rule = format!("every VRP set of size <= {max} over a universe of \
        {} VRPs (all prefixes of the depth-{depth} subtree below 10.0.0.0/8 x \
        max-length in {{len, len+1, 32}} x AS in {{1,2}} + 4 IPv6 VRPs incl. \
        one whose leading bits equal 10/8; VRPs of AS 1 with max-length = \
        prefix length are built without an explicit max-length) x {} routes (0/0, /7, every \
        prefix to depth 3, deeper, /32 hosts, neighbour /8, IPv6; AS 1,2,3) \
        through RouteValidity, the plain and JSON batch RequestList, and \
        (every 16th set) both HTTP validity endpoints via the real \
        dispatcher; oracle = 20-line RFC 6811 classifier; non-trivial = \
        classifications with at least one covering VRP",
        universe.len(), routes.len());
    rep.bound = format!("{} sets x {} routes", sets.len(), routes.len());
    let res = util::par_map(sets.len() as u64, util::cores(), |i| {
        let vrps: Vec<Vrp> = sets[i as usize].iter().map(|x| universe[*x]).collect();
        check_set(&vrps, &routes, i % 16 == 0)
    });
    for (i, (n, outcomes, viol)) in res.into_iter().enumerate() {
        rep.evaluations += n;
        for (k, v) in outcomes {
            if k != "not-found" { rep.nontrivial += v; }
            *rep.outcomes.entry(k.into()).or_insert(0) += v;
        }
        for (class, msg) in viol {
            let vrps: Vec<Vrp> = sets[i].iter().map(|x| universe[*x]).collect();
            rep.violation(format!("rov:{class}"), format!("VRPs {vrps:?}: {msg}"),
                json!({"depth": depth, "set": sets[i]}));
        }
    }
    rep.sample(json!({"vrps": ["10.0.0.0/8-9 AS1", "10.128.0.0/9-9 AS2"],
        "route": "10.128.0.0/9 AS1", "expect": "invalid, unmatched_as=[second], unmatched_length=[first]"}));
    rep.assumptions.push("POST /validity is covered through the same \
        RequestList/write_json code the handler calls; the hyper body \
        plumbing of the POST handler is exercised by C22's loopback \
        listener".into());
    rep
}

pub fn replay(_ctx: &Ctx, v: &Value) -> Report {
    let mut rep = Report::new("exploration");
    let universe = vrp_universe(v["depth"].as_u64().unwrap() as u8);
    let vrps: Vec<Vrp> = v["set"].as_array().unwrap().iter()
        .map(|x| universe[x.as_u64().unwrap() as usize]).collect();
    let (n, outcomes, viol) = check_set(&vrps, &routes(), true);
    println!("VRPs {vrps:?}: {n} evaluations {outcomes:?}");
    for (class, msg) in viol {
        println!("{class}: {msg}");
        rep.violation(format!("rov:{class}"), msg, v.clone());
    }
    rep.evaluations = n; rep.nontrivial = 2;
    rep.sample(v.clone());
    rep
}
