//! C39 Data refresh deadline never exceeds contributing objects' expiry.

use std::net::Ipv4Addr;
use chrono::TimeDelta;
use rpki::repository::x509::Time;
use routinator::slurm::LocalExceptions;
use serde_json::{json, Value};
use crate::etree::{self, Case};
use crate::report::{Ctx, Report};
use crate::rpkigen::{Builder, CaSpec, Gen, ObjSpec, Stale, TalSpec, TreeSpec};
use crate::util;

pub const NAMES: [&str; 11] = [
    "TA cert notAfter", "TA manifest EE notAfter", "TA manifest nextUpdate",
    "TA CRL nextUpdate", "CA cert notAfter", "CA manifest EE notAfter",
    "CA manifest nextUpdate", "CA CRL nextUpdate", "ROA EE notAfter",
    "ASPA EE notAfter", "router cert notAfter",
];

const H: i64 = 3600;

fn tree(t: &[i64; 11], ta_payload: bool) -> TreeSpec { tree_v(t, ta_payload, 1) }

fn tree_v(t: &[i64; 11], ta_payload: bool, version: u64) -> TreeSpec {
    let mut ta = CaSpec::new("ta0", 0, "ta0.example", "repo");
    ta.v4 = vec![(Ipv4Addr::new(10, 0, 0, 0), 8)];
    ta.asns = vec![(64496, 64511)];
    ta.cert_not_after = t[0];
    ta.mft_ee_not_after = t[1];
    ta.mft_next_update = t[2];
    ta.crl_next_update = t[3];
    ta.mft_number = version;
    ta.mft_this_update += 60 * (version as i64 - 1);
    if ta_payload {
        // the ancestor contributes payload of its own (two contributing
        // points); its EE certificate is never the earliest expiry
        let mut r0 = ObjSpec::roa("r0", 64496, "10.0.0.0", 16, 16);
        r0.not_after = Some(10 * H);
        ta.objs = vec![r0];
    }
    let mut ca = CaSpec::new("ca1", 1, "ca1.example", "repo");
    ca.v4 = vec![(Ipv4Addr::new(10, 1, 0, 0), 16)];
    ca.asns = vec![(64500, 64505)];
    ca.cert_not_after = t[4];
    ca.mft_ee_not_after = t[5];
    ca.mft_next_update = t[6];
    ca.crl_next_update = t[7];
    ca.mft_number = version;
    ca.mft_this_update += 60 * (version as i64 - 1);
    let mut roa = ObjSpec::roa("r1", 64500, "10.1.0.0", 16, 16);
    roa.not_after = Some(t[8]);
    let mut aspa = ObjSpec::aspa("a1", 64500, &[64501]);
    aspa.not_after = Some(t[9]);
    let mut rk = ObjSpec::router("k1", 64500, 0);
    rk.not_after = Some(t[10]);
    ca.objs = vec![roa, aspa, rk];
    ta.children.push(ca);
    TreeSpec { tals: vec![TalSpec {
        name: "alpha".into(), ta_uri: "rsync://ta0.example/repo/ta0.cer".into(),
        ca: ta, wrong_key: false, https_uri: None,
    }]}
}

#[derive(Clone, Debug)]
pub struct CaseSpec { pub t: [i64; 11], pub stored: bool,
    /// the TA publishes a ROA of its own besides the CA certificate
    pub ta_payload: bool }

pub fn cases(thorough: bool) -> Vec<CaseSpec> {
    let mut res = Vec::new();
    for stored in [false, true] {
        // all equal
        res.push(CaseSpec { t: [3 * H; 11], stored, ta_payload: false });
        // exactly one minimum
        for i in 0..11 {
            let mut t = [3 * H; 11]; t[i] = H;
            res.push(CaseSpec { t, stored, ta_payload: false });
            let mut t = [2 * H; 11]; t[i] = H;
            res.push(CaseSpec { t, stored, ta_payload: false });
        }
        // all pairs of minima
        for i in 0..11 { for j in i + 1..11 {
            let mut t = [3 * H; 11]; t[i] = H; t[j] = 2 * H;
            res.push(CaseSpec { t, stored, ta_payload: false });
            if thorough { let mut t = [3 * H; 11]; t[i] = 2 * H; t[j] = H; res.push(CaseSpec { t, stored, ta_payload: false }); }
        }}
    }
    // the same with an ancestor that contributes payload itself
    let n = res.len();
    for i in 0..n { let mut c = res[i].clone(); c.ta_payload = true; res.push(c); }
    if thorough {
        // full product over the nine chain timestamps of the ROA (fetch path)
        for code in 0..3usize.pow(9) {
            let mut t = [3 * H; 11];
            let mut c = code;
            for k in 0..9 { t[k] = H * (1 + (c % 3) as i64); c /= 3; }
            res.push(CaseSpec { t, stored: false, ta_payload: false });
        }
    }
    res
}

pub fn run_case(gen: &Gen, dir: std::path::PathBuf, c: &CaseSpec) -> Result<String, (String, String)> {
    let now = Time::now();
    let image = Builder::at(gen, Stale::Reject, now).build(&tree(&c.t, c.ta_payload));
    let case = Case::new(dir);
    case.publish(&image);
    case.write_tals(&image);
    let config = case.config();
    let err = |e: String| ("run-failed".to_string(), e);
    let mut out = etree::run(&config, false, &LocalExceptions::empty()).map_err(err)?;
    if c.stored {
        out = etree::run(&config, true, &LocalExceptions::empty()).map_err(err)?;
    }
    if out.data.origins.len() != 1 + c.ta_payload as usize || out.data.aspas.len() != 1 || out.data.keys.len() != 1 {
        return Err(("setup".into(), format!("{c:?}: not all three objects contributed: {}", out.data.describe())))
    }
    let min = *c.t.iter().min().unwrap();
    let deadline = now + TimeDelta::try_seconds(min).unwrap();
    let which: Vec<&str> = c.t.iter().enumerate().filter(|(_, v)| **v == min).map(|(i, _)| NAMES[i]).collect();
    match out.snapshot.refresh() {
        None => Err(("no-refresh".into(), format!("{c:?}: snapshot has no refresh deadline"))),
        Some(r) if r > deadline => Err((format!("refresh-too-late:{}:{}", which.join("+"), if c.stored { "stored" } else { "fetch" }), format!(
            "earliest expiry is {} at +{}h ({which:?}) but the refresh deadline is {} ({} s later), {} path",
            deadline.to_rfc3339(), min / H, r.to_rfc3339(), (r.timestamp() - deadline.timestamp()),
            if c.stored { "stored" } else { "fetch" }
        ))),
        Some(r) => {
            let slack = deadline.timestamp() - r.timestamp();
            let _ = std::fs::remove_dir_all(&case.dir);
            Ok(if slack <= 1 { "refresh==min".into() } else { format!("refresh-earlier-by>{}s", if slack > 600 { 600 } else { 1 }) })
        }
    }
}

/// The deadline of the data set the server has *installed*: a first run
/// in which everything lives 3 h, then a run with the same payload in
/// which timestamp `i` is 1 h - both through `SharedHistory::update`.
fn installed_case(gen: &Gen, dir: std::path::PathBuf, i: usize) -> Result<String, (String, String)> {
    use routinator::payload::SharedHistory;
    let now = Time::now();
    let mut t = [3 * H; 11];
    let first = Builder::at(gen, Stale::Reject, now).build(&tree_v(&t, false, 1));
    t[i] = H;
    let second = Builder::at(gen, Stale::Reject, now).build(&tree_v(&t, false, 2));
    let case = Case::new(dir);
    case.write_tals(&first);
    let config = case.config();
    let history = SharedHistory::from_config(&config);
    let err = |e: String| ("run-failed".to_string(), e);
    for image in [&first, &second] {
        case.publish(image);
        let (report, metrics) = etree::run_report(&config).map_err(err)?;
        history.update(report, &LocalExceptions::empty(), metrics);
        history.mark_update_done();
    }
    let _ = std::fs::remove_dir_all(&case.dir);
    let deadline = now + TimeDelta::try_seconds(H).unwrap();
    let current = history.read().current().ok_or(("no-refresh".to_string(), "nothing installed".to_string()))?;
    match current.refresh() {
        None => Err(("no-refresh".into(), "installed snapshot has no refresh deadline".into())),
        Some(r) if r > deadline => Err((format!("refresh-too-late:{}:installed", NAMES[i]), format!(
            "after a run with unchanged payload in which {} moved from +3h to +1h, the installed data set's refresh deadline is still {} ({} s after the earliest expiry)",
            NAMES[i], r.to_rfc3339(), r.timestamp() - deadline.timestamp()
        ))),
        Some(_) => Ok("installed:refresh<=min".into()),
    }
}

pub fn run(ctx: &Ctx) -> Report {
    util::quiet_panics();
    let gen = Gen::load();
    let mut rep = Report::new("exploration");
    let cases = cases(ctx.tier.thorough());
    rep.rule = "TA -> CA with a ROA, an ASPA and a router certificate; the \
        eleven timestamps that bound their chains (TA and CA certificate \
        notAfter; manifest EE notAfter, manifest nextUpdate, CRL nextUpdate \
        of both publication points; EE notAfter of each object) take \
        values in {+1h, +2h, +3h}: all equal, every single minimum (others \
        at +2h and at +3h), every pair of minima, on the fetch path and on \
        the stored-data path (offline second run); thorough adds the full \
        3^9 product over the ROA's chain; oracle: snapshot.refresh() <= \
        generation time + minimum; each assignment also with the TA \
        publishing a ROA of its own (two contributing points); and for \
        each of the 11 timestamps a two-run history through \
        SharedHistory::update (everything +3h, then the same payload with \
        that timestamp at +1h): the installed data set's deadline must \
        follow; non-trivial = cases with a unique minimum".into();
    rep.bound = format!("{} timestamp assignments", cases.len());
    let threads = std::env::var("ETREE_THREADS").ok().and_then(|s| s.parse().ok()).unwrap_or(8);
    let res = util::par_map(cases.len() as u64, threads, |i| {
        util::catch(|| run_case(&gen, ctx.scratch.join(format!("c{i}")), &cases[i as usize]))
            .unwrap_or_else(|p| Err(("panic".into(), p)))
    });
    for (i, r) in res.into_iter().enumerate() {
        rep.evaluations += 1;
        let c = &cases[i];
        let min = *c.t.iter().min().unwrap();
        if c.t.iter().filter(|v| **v == min).count() == 1 { rep.nontrivial += 1; }
        match r {
            Ok(o) => rep.outcome(o),
            Err((class, msg)) => {
                rep.outcome(format!("VIOLATION:{}", class.split(':').next().unwrap()));
                rep.violation(format!("refresh:{class}"), msg, json!({"t": c.t, "stored": c.stored, "ta_payload": c.ta_payload}));
            }
        }
    }
    // what the server installs after a run with unchanged payload and an earlier deadline
    let res = util::par_map(11, threads, |i| {
        util::catch(|| installed_case(&gen, ctx.scratch.join(format!("inst{i}")), i as usize)).unwrap_or_else(|p| Err(("panic".into(), p)))
    });
    for (i, r) in res.into_iter().enumerate() {
        rep.evaluations += 1;
        rep.nontrivial += 1;
        match r {
            Ok(o) => rep.outcome(o),
            Err((class, msg)) => {
                rep.outcome(format!("VIOLATION:{}", class.split(':').next().unwrap()));
                rep.violation(format!("refresh:{class}"), msg, json!({"installed": i}));
            }
        }
    }
    rep.sample(json!({"minimum": "CA CRL nextUpdate (+1h)", "others": "+3h", "path": "stored"}));
    rep
}

pub fn replay(ctx: &Ctx, v: &Value) -> Report {
    let gen = Gen::load();
    let mut rep = Report::new("exploration");
    if let Some(i) = v["installed"].as_u64() {
        let r = installed_case(&gen, ctx.scratch.join("replay"), i as usize);
        println!("installed, {}: {r:?}", NAMES[i as usize]);
        if let Err((class, msg)) = r { rep.violation(format!("refresh:{class}"), msg, v.clone()); }
        rep.evaluations = 1; rep.nontrivial = 2;
        rep.sample(v.clone());
        return rep
    }
    let mut t = [0i64; 11];
    for (i, x) in v["t"].as_array().unwrap().iter().enumerate() { t[i] = x.as_i64().unwrap(); }
    let c = CaseSpec { t, stored: v["stored"].as_bool().unwrap(), ta_payload: v["ta_payload"].as_bool().unwrap_or(false) };
    let r = run_case(&gen, ctx.scratch.join("replay"), &c);
    println!("{c:?}: {r:?}");
    if let Err((class, msg)) = r { rep.violation(format!("refresh:{class}"), msg, v.clone()); }
    rep.evaluations = 1; rep.nontrivial = 2;
    rep.sample(v.clone());
    rep
}
