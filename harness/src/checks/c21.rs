//! C21 Output formats list exactly the selected payload, well-formed.

use std::str::FromStr;
use std::sync::Arc;
use rpki::repository::tal::TalInfo;
use rpki::repository::x509::Time;
use rpki::resources::{Asn, Prefix};
use rpki::rtr::payload::{Payload, RouteOrigin, RouterKey};
use routinator::metrics::Metrics;
use routinator::output::{Output, OutputFormat, Selection};
use routinator::payload::{PayloadSnapshot, SharedHistory};
use routinator::slurm::LocalExceptions;
use serde_json::{json, Value};
use crate::data::{self, DataSet};
use crate::httpd::Httpd;
use crate::report::{Ctx, Report};
use crate::util;

pub const FORMATS: [&str; 13] = [
    "csv", "csvcompat", "csvext", "json", "jsonext", "slurm", "slurm2",
    "openbgpd", "bird1", "bird2", "rpsl", "summary", "none",
];

fn types_of(format: &str) -> (bool, bool, bool) {
    match format {
        "json" | "jsonext" | "slurm2" => (true, true, true),
        "slurm" => (true, true, false),
        "summary" | "none" => (false, false, false),
        _ => (true, false, false)
    }
}

#[derive(Clone, Debug)]
pub struct Sel { asns: Vec<u32>, prefixes: Vec<&'static str>, more: bool }

fn selections() -> Vec<Sel> {
    let s = |asns: &[u32], prefixes: &[&'static str], more: bool| Sel {
        asns: asns.to_vec(), prefixes: prefixes.to_vec(), more
    };
    vec![
        s(&[], &[], false),
        s(&[1], &[], false),
        s(&[3], &[], false),
        s(&[1, 2], &[], false),
        s(&[], &["10.0.0.0/16"], false),
        s(&[], &["10.0.0.0/16"], true),
        s(&[], &["10.0.0.0/12"], true),
        s(&[], &["10.0.0.0/12"], false),
        s(&[3], &["10.1.0.0/16"], false),
        s(&[], &["10.0.0.0/16", "2001:db8::/48"], false),
        s(&[], &["::/0"], true),
        s(&[], &[], true),
    ]
}

/// A snapshot whose items all come from published objects under a TAL
/// with the given name (built by the real `into_snapshot`).
pub fn snapshot_tal(ds: &DataSet, label: &str) -> PayloadSnapshot {
    let mut config = data::mem_config();
    config.enable_aspa = true;
    config.enable_bgpsec = true;
    let report = routinator::payload::ValidationReport::new(&config);
    let tal = TalInfo::from_name(label.into()).into_arc();
    let mut metrics = Metrics::new();
    metrics.tals.push(routinator::metrics::TalMetrics::new(tal.clone()));
    report.verif_push_point(
        tal, Time::utc(2090, 1, 2, 3, 4, 5),
        ds.origins.iter().copied(), ds.keys.iter().cloned(),
        ds.aspas.iter().map(|(c, p)| (*c, p.iter().collect::<Vec<_>>()))
    );
    report.into_snapshot(&LocalExceptions::empty(), &mut metrics)
}

/// A snapshot whose origins and keys come from local exceptions carrying
/// the given comment (built by the real SLURM loader, comments kept).
pub fn snapshot_comment(ds: &DataSet, comment: &str) -> PayloadSnapshot {
    use rpki::slurm::{
        BgpsecAssertion, LocallyAddedAssertions, PrefixAssertion, SlurmFile,
        ValidationOutputFilters, Base64KeyInfo,
    };
    let file = SlurmFile::new(
        ValidationOutputFilters::new(Vec::new(), Vec::new()),
        LocallyAddedAssertions::new(
            ds.origins.iter().map(|o| {
                PrefixAssertion::new(o.prefix, o.asn, Some(comment.into()))
            }).collect::<Vec<_>>(),
            ds.keys.iter().map(|k| {
                BgpsecAssertion::new(
                    k.asn, k.key_identifier,
                    Base64KeyInfo::try_from(k.key_info.as_slice().to_vec()).unwrap(),
                    Some(comment.into())
                )
            }).collect::<Vec<_>>(),
        )
    );
    let exc = LocalExceptions::from_json(&file.to_string(), true).expect("slurm");
    let config = data::mem_config();
    let report = routinator::payload::ValidationReport::new(&config);
    report.into_snapshot(&exc, &mut Metrics::new())
}

fn datasets() -> Vec<DataSet> {
    let o = [
        data::v4(10, 0, 0, 0, 8, 8, 1),
        data::v4(10, 0, 0, 0, 16, 24, 2),
        data::v4(10, 1, 0, 0, 16, 16, 1),
        data::v6("2001:db8::".parse().unwrap(), 32, 48, 2),
    ];
    let mut res = Vec::new();
    for mask in 0..16u32 {
        if mask.count_ones() > 3 { continue }
        for key in [false, true] {
            for aspa in [false, true] {
                let mut ds = DataSet::default();
                for i in 0..4 { if mask & (1 << i) != 0 { ds.origins.insert(o[i]); } }
                if key { ds.keys.insert(data::router_key(7, 1, b"\x30\x13key")); }
                if aspa { ds.aspas.insert(2.into(), data::aspa(0, &[1, 3]).providers); }
                res.push(ds);
            }
        }
    }
    // Several items of every type, so that a selection can leave out the
    // first, a middle or the last one of a list: all origins with three
    // keys and three ASPAs (index MULTI), then ASPAs only and keys only.
    for (origins, keys, aspas) in [(true, true, true), (false, false, true), (false, true, false)] {
        let mut ds = DataSet::default();
        if origins { for x in o { ds.origins.insert(x); } }
        if keys { for asn in 1..=3u32 { ds.keys.insert(data::router_key(7 + asn as u8, asn, b"\x30\x13key")); } }
        if aspas { for c in 1..=3u32 { ds.aspas.insert(c.into(), data::aspa(0, &[10 + c, 20 + c]).providers); } }
        res.push(ds);
    }
    res
}

/// Index of the data set with several items of every type.
const MULTI: usize = 60;

/// The reference selection.
fn admitted(ds: &DataSet, sel: &Sel, excl: u8, format: &str) -> Vec<Payload> {
    let (to, tk, ta) = types_of(format);
    let any = !sel.asns.is_empty() || !sel.prefixes.is_empty();
    let mut res = Vec::new();
    if to && excl & 1 == 0 {
        for o in &ds.origins {
            let ok = !any
                || sel.asns.iter().any(|a| o.asn == Asn::from_u32(*a))
                || sel.prefixes.iter().any(|p| {
                    let p = Prefix::from_str(p).unwrap();
                    o.prefix.prefix().covers(p)
                    || (sel.more && p.covers(o.prefix.prefix()))
                });
            if ok { res.push(Payload::Origin(*o)) }
        }
    }
    if tk && excl & 2 == 0 {
        for k in &ds.keys {
            if !any || sel.asns.iter().any(|a| k.asn == Asn::from_u32(*a)) {
                res.push(Payload::RouterKey(k.clone()))
            }
        }
    }
    if ta && excl & 4 == 0 {
        for (c, p) in &ds.aspas {
            if !any || sel.asns.iter().any(|a| *c == Asn::from_u32(*a)) {
                res.push(Payload::aspa(*c, p.clone()))
            }
        }
    }
    res
}

fn output_for(sel: &Sel, excl: u8) -> Output {
    let mut out = Output::new();
    let mut s = Selection::new();
    for a in &sel.asns { s.push_asn(Asn::from_u32(*a)); }
    for p in &sel.prefixes { s.push_prefix(Prefix::from_str(p).unwrap()); }
    s.set_more_specifics(sel.more);
    if s.has_resources() { out.set_selection(s); }
    if excl & 1 != 0 { out.no_route_origins() }
    if excl & 2 != 0 { out.no_router_keys() }
    if excl & 4 != 0 { out.no_aspas() }
    out
}

fn query_for(sel: &Sel, excl: u8) -> String {
    let mut q = Vec::new();
    for a in &sel.asns { q.push(format!("select-asn={a}")); }
    for p in &sel.prefixes { q.push(format!("select-prefix={}", p.replace(':', "%3A").replace('/', "%2F"))); }
    if sel.more { q.push("include=more-specifics".into()); }
    let mut ex = Vec::new();
    if excl & 1 != 0 { ex.push("routeOrigins") }
    if excl & 2 != 0 { ex.push("routerKeys") }
    if excl & 4 != 0 { ex.push("aspas") }
    if !ex.is_empty() { q.push(format!("exclude={}", ex.join(","))); }
    q.join("&")
}

//------------ Parsers -------------------------------------------------------

fn origin_of(asn: &str, prefix: &str, max: &str) -> Option<Payload> {
    let asn = Asn::from_str(asn).ok()?;
    let prefix = Prefix::from_str(prefix).ok()?;
    let max: u8 = max.parse().ok()?;
    Some(Payload::Origin(RouteOrigin::new(
        rpki::resources::addr::MaxLenPrefix::new(prefix, Some(max)).ok()?, asn
    )))
}

fn b64(s: &str) -> Option<Vec<u8>> {
    // standard and url-safe alphabets, padding optional
    let mut out = Vec::new();
    let mut acc = 0u32; let mut bits = 0;
    for c in s.bytes() {
        let v = match c {
            b'A'..=b'Z' => c - b'A', b'a'..=b'z' => c - b'a' + 26,
            b'0'..=b'9' => c - b'0' + 52, b'+' | b'-' => 62, b'/' | b'_' => 63,
            b'=' => continue, _ => return None
        } as u32;
        acc = (acc << 6) | v; bits += 6;
        if bits >= 8 { bits -= 8; out.push((acc >> bits) as u8); acc &= (1 << bits) - 1; }
    }
    Some(out)
}

fn hex(s: &str) -> Option<Vec<u8>> {
    if s.len() % 2 != 0 { return None }
    (0..s.len()).step_by(2).map(|i| u8::from_str_radix(&s[i..i + 2], 16).ok()).collect()
}

fn key_of(asn: Asn, ski: Vec<u8>, info: Vec<u8>) -> Option<Payload> {
    let ski: [u8; 20] = ski.try_into().ok()?;
    Some(Payload::RouterKey(RouterKey::new(
        rpki::crypto::KeyIdentifier::from(ski), asn,
        rpki::rtr::pdu::RouterKeyInfo::new(info.into()).ok()?
    )))
}

fn parse_json_like(v: &Value) -> Result<Vec<Payload>, String> {
    let mut res = Vec::new();
    if v.get("metadata").is_none() { return Err("no metadata".into()) }
    for item in v.get("roas").and_then(|x| x.as_array()).cloned().unwrap_or_default() {
        let p = origin_of(
            item["asn"].as_str().ok_or("asn")?, item["prefix"].as_str().ok_or("prefix")?,
            &item["maxLength"].to_string()
        ).ok_or_else(|| format!("bad roa {item}"))?;
        res.push(p);
    }
    for item in v.get("routerKeys").and_then(|x| x.as_array()).cloned().unwrap_or_default() {
        let asn = Asn::from_str(item["asn"].as_str().ok_or("asn")?).map_err(|_| "asn")?;
        let p = key_of(
            asn, hex(item["SKI"].as_str().ok_or("ski")?).ok_or("ski hex")?,
            b64(item["routerPublicKey"].as_str().ok_or("key")?).ok_or("key b64")?
        ).ok_or_else(|| format!("bad key {item}"))?;
        res.push(p);
    }
    for item in v.get("aspas").and_then(|x| x.as_array()).cloned().unwrap_or_default() {
        let c = Asn::from_str(item["customer"].as_str().ok_or("customer")?).map_err(|_| "customer")?;
        let mut provs = Vec::new();
        for p in item["providers"].as_array().ok_or("providers")? {
            provs.push(Asn::from_str(p.as_str().ok_or("provider")?).map_err(|_| "provider")?);
        }
        res.push(Payload::aspa(c, rpki::rtr::pdu::ProviderAsns::try_from_iter(provs).map_err(|_| "providers")?));
    }
    Ok(res)
}

fn parse_slurm(text: &str) -> Result<Vec<Payload>, String> {
    let file = rpki::slurm::SlurmFile::from_str(text).map_err(|e| format!("not a SLURM file: {e}"))?;
    if !file.filters.prefix.is_empty() || !file.filters.bgpsec.is_empty() {
        return Err("SLURM output has filters".into())
    }
    Ok(file.assertions.iter_payload().collect())
}

fn parse_lines(format: &str, text: &str) -> Result<Vec<Payload>, String> {
    let mut res = Vec::new();
    let mut lines = text.lines();
    let bad = |l: &str| format!("unparseable line {l:?}");
    match format {
        "csv" => {
            if lines.next() != Some("ASN,IP Prefix,Max Length,Trust Anchor") { return Err("csv header".into()) }
            for l in lines {
                let f: Vec<&str> = l.split(',').collect();
                if f.len() != 4 { return Err(bad(l)) }
                res.push(origin_of(f[0], f[1], f[2]).ok_or_else(|| bad(l))?);
            }
        }
        "csvcompat" => {
            if lines.next() != Some("\"ASN\",\"IP Prefix\",\"Max Length\",\"Trust Anchor\"") { return Err("csvcompat header".into()) }
            for l in lines {
                let f: Vec<&str> = l.split(',').map(|x| x.trim_matches('"')).collect();
                if f.len() != 4 { return Err(bad(l)) }
                res.push(origin_of(f[0], f[1], f[2]).ok_or_else(|| bad(l))?);
            }
        }
        "csvext" => {
            if lines.next() != Some("URI,ASN,IP Prefix,Max Length,Not Before,Not After") { return Err("csvext header".into()) }
            for l in lines {
                let f: Vec<&str> = l.split(',').collect();
                if f.len() != 6 { return Err(bad(l)) }
                res.push(origin_of(f[1], f[2], f[3]).ok_or_else(|| bad(l))?);
            }
        }
        "openbgpd" => {
            if lines.next() != Some("roa-set {") { return Err("openbgpd header".into()) }
            let mut closed = false;
            for l in lines {
                if closed { return Err("text after closing brace".into()) }
                if l == "}" { closed = true; continue }
                let f: Vec<&str> = l.split_whitespace().collect();
                let p = match f.as_slice() {
                    [p, "source-as", a] => {
                        let len = p.split('/').nth(1).ok_or_else(|| bad(l))?;
                        origin_of(a, p, len)
                    }
                    [p, "maxlen", m, "source-as", a] => origin_of(a, p, m),
                    _ => None
                };
                res.push(p.ok_or_else(|| bad(l))?);
            }
            if !closed { return Err("no closing brace".into()) }
        }
        "bird1" | "bird2" => {
            let kw = if format == "bird1" { "roa" } else { "route" };
            for l in lines {
                let f: Vec<&str> = l.trim_end_matches(';').split_whitespace().collect();
                match f.as_slice() {
                    [k, p, "max", m, "as", a] if *k == kw && l.ends_with(';') => {
                        res.push(origin_of(a, p, m).ok_or_else(|| bad(l))?)
                    }
                    _ => return Err(bad(l))
                }
            }
        }
        "rpsl" => {
            // blocks separated by blank lines; route/route6 + origin
            let mut cur: Option<(String, Option<String>)> = None;
            for l in text.lines().chain(std::iter::once("")) {
                if l.is_empty() {
                    if let Some((p, Some(a))) = cur.take() {
                        let len = p.split('/').nth(1).ok_or_else(|| bad(&p))?.to_string();
                        res.push(origin_of(&a, &p, &len).ok_or_else(|| bad(&p))?);
                    }
                    else if cur.is_some() { return Err("route without origin".into()) }
                    continue
                }
                let (k, v) = l.split_once(": ").ok_or_else(|| bad(l))?;
                match k {
                    "route" | "route6" => {
                        if cur.is_some() { return Err("nested route".into()) }
                        if (k == "route6") != v.contains(':') { return Err("route/route6 mismatch".into()) }
                        cur = Some((v.into(), None));
                    }
                    "origin" => match cur.as_mut() {
                        Some(c) => c.1 = Some(v.into()),
                        None => return Err("origin outside block".into())
                    },
                    "descr" | "mnt-by" | "created" | "last-modified" | "source" => { }
                    _ => return Err(bad(l))
                }
            }
        }
        _ => unreachable!()
    }
    Ok(res)
}

/// RPSL drops max-length, so compare on (prefix, asn) for it.
fn normalise(format: &str, mut items: Vec<Payload>) -> Vec<Payload> {
    if format == "rpsl" {
        items = items.into_iter().map(|p| match p {
            Payload::Origin(o) => Payload::Origin(RouteOrigin::new(
                rpki::resources::addr::MaxLenPrefix::new(o.prefix.prefix(), None).unwrap(), o.asn
            )),
            other => other
        }).collect();
    }
    items.sort();
    items
}

pub fn extract(format: &str, text: &str) -> Result<Vec<Payload>, String> {
    match format {
        "json" | "jsonext" => {
            let v: Value = serde_json::from_str(text).map_err(|e| format!("invalid JSON: {e}"))?;
            parse_json_like(&v)
        }
        "slurm" | "slurm2" => {
            serde_json::from_str::<Value>(text).map_err(|e| format!("invalid JSON: {e}"))?;
            parse_slurm(text)
        }
        "none" => if text.is_empty() { Ok(vec![]) } else { Err("output for format none".into()) },
        "summary" => Ok(vec![]),
        _ => parse_lines(format, text)
    }
}

fn render(
    out: Output, snap: &Arc<PayloadSnapshot>, metrics: &Arc<Metrics>, format: &str
) -> Result<(String, String), String> {
    let fmt = OutputFormat::from_str(format).map_err(|_| "unknown format")?;
    let mut buf = Vec::new();
    util::catch(|| out.clone().write(snap.clone(), metrics.clone(), fmt, &mut buf))
        .map_err(|e| format!("write panicked: {e}"))?
        .map_err(|e| format!("write failed: {e}"))?;
    let streamed: Vec<u8> = util::catch(|| {
        out.stream(snap.clone(), metrics.clone(), fmt).flat_map(|b| b.to_vec()).collect()
    }).map_err(|e| format!("stream panicked: {e}"))?;
    Ok((
        String::from_utf8(buf).map_err(|_| "write output not UTF-8")?,
        String::from_utf8(streamed).map_err(|_| "stream output not UTF-8")?,
    ))
}

fn mask_time(format: &str, s: &str) -> String {
    // rpsl embeds the current time in every block
    if format != "rpsl" { return s.into() }
    s.lines().filter(|l| !l.starts_with("created: ") && !l.starts_with("last-modified: "))
        .collect::<Vec<_>>().join("\n")
}

fn check_case(
    ds: &DataSet, snap: &Arc<PayloadSnapshot>, metrics: &Arc<Metrics>,
    sel: &Sel, excl: u8, format: &str
) -> Result<usize, (String, String)> {
    let (w, s) = render(output_for(sel, excl), snap, metrics, format)
        .map_err(|e| ("render".to_string(), e))?;
    if mask_time(format, &w) != mask_time(format, &s) {
        return Err(("write-vs-stream".into(), "write() and stream() differ".into()))
    }
    let got = extract(format, &w).map_err(|e| (format!("malformed:{format}"), e))?;
    let want = admitted(ds, sel, excl, format);
    if normalise(format, got.clone()) != normalise(format, want.clone()) {
        return Err((format!("items:{format}"), format!(
            "listed {:?} expected {:?}",
            got.iter().map(data::fmt_payload).collect::<Vec<_>>(),
            want.iter().map(data::fmt_payload).collect::<Vec<_>>()
        )))
    }
    Ok(want.len())
}

//------------ label sweep ---------------------------------------------------

pub fn labels_for(thorough: bool) -> Vec<String> {
    let mut res = labels();
    if thorough {
        let alpha = ['"', '\\', '\n', '\0', '\u{1f}', 'a', '\u{80}', '/', '\u{7f}', '\t'];
        for a in alpha { for b in alpha { for c in alpha {
            res.push([a, b, c].iter().collect());
        }}}
    }
    res
}

pub fn labels() -> Vec<String> {
    let mut res = Vec::new();
    for c in 0u8..0x80 {
        res.push((c as char).to_string());
        res.push(format!("a{}b", c as char));
    }
    for s in ["\"", "\\", "\\\"", "\"\\", "a\nb", "\u{1F600}", "ta\u{0085}x", "\u{2028}", "}{", "\",\"x\":\"", "\\u0000", "tab\there", "\r\n"] {
        res.push(s.to_string());
    }
    res
}

fn check_label(label: &str, format: &str, as_comment: bool) -> Result<(), (String, String)> {
    let mut ds = DataSet::default();
    ds.origins.insert(data::v4(10, 0, 0, 0, 8, 8, 1));
    ds.keys.insert(data::router_key(7, 1, b"\x30\x13key"));
    ds.aspas.insert(2.into(), data::aspa(0, &[1, 3]).providers);
    if as_comment { ds.aspas.clear(); }
    let snap = Arc::new(if as_comment {
        snapshot_comment(&ds, label)
    } else {
        snapshot_tal(&ds, label)
    });
    let metrics = Arc::new(Metrics::new());
    let none = Sel { asns: vec![], prefixes: vec![], more: false };
    let (w, _) = render(output_for(&none, 0), &snap, &metrics, format)
        .map_err(|e| ("render".to_string(), e))?;
    let class = |c: &str| {
        let kind = if label.chars().any(|c| c == '"' || c == '\\') { "quote-or-backslash" }
            else if label.chars().any(|c| (c as u32) < 0x20) { "control-char" }
            else { "other" };
        format!("label:{format}:{}:{kind}:{c}", if as_comment { "comment" } else { "tal" })
    };
    let got = extract(format, &w).map_err(|e| (class("invalid"), format!("label {label:?}: {e}")))?;
    let want = admitted(&ds, &none, 0, format);
    if normalise(format, got) != normalise(format, want.clone()) {
        return Err((class("items"), format!("label {label:?}: listed items differ")))
    }
    if format.starts_with("slurm") {
        // parses back as exceptions whose assertions are exactly the items
        let exc = LocalExceptions::from_json(&w, true)
            .map_err(|e| (class("roundtrip"), format!("label {label:?}: {e}")))?;
        let mut back: Vec<Payload> = exc.origin_assertions().map(|x| Payload::Origin(x.0))
            .chain(exc.router_key_assertions().map(|x| Payload::RouterKey(x.0))).collect();
        back.sort();
        let mut w2: Vec<Payload> = want.into_iter().filter(|p| !matches!(p, Payload::Aspa(_))).collect();
        w2.sort();
        if back != w2 {
            return Err((class("roundtrip-items"), format!("label {label:?}: round trip differs")))
        }
    }
    Ok(())
}

//------------ source chains -------------------------------------------------

/// A snapshot in which every origin and router key of `ds` is published
/// under `pubs` trust anchors and asserted by `excs` local exceptions.
pub fn snapshot_chain(ds: &DataSet, pubs: usize, excs: usize) -> PayloadSnapshot {
    use rpki::slurm::{
        BgpsecAssertion, LocallyAddedAssertions, PrefixAssertion, SlurmFile,
        ValidationOutputFilters, Base64KeyInfo,
    };
    let mut config = data::mem_config();
    config.enable_aspa = true;
    config.enable_bgpsec = true;
    let report = routinator::payload::ValidationReport::new(&config);
    let mut metrics = Metrics::new();
    for i in 0..pubs {
        let tal = TalInfo::from_name(format!("ta{i}")).into_arc();
        metrics.tals.push(routinator::metrics::TalMetrics::new(tal.clone()));
        report.verif_push_point(
            tal, Time::utc(2090, 1, 2, 3, 4, 5 + i as u32),
            ds.origins.iter().copied(), ds.keys.iter().cloned(),
            std::iter::empty::<(Asn, Vec<Asn>)>()
        );
    }
    let mut prefix = Vec::new();
    let mut bgpsec = Vec::new();
    for i in 0..excs {
        for o in &ds.origins { prefix.push(PrefixAssertion::new(o.prefix, o.asn, Some(format!("comment {i}")))); }
        for k in &ds.keys {
            bgpsec.push(BgpsecAssertion::new(
                k.asn, k.key_identifier,
                Base64KeyInfo::try_from(k.key_info.as_slice().to_vec()).unwrap(),
                Some(format!("comment {i}"))
            ));
        }
    }
    let file = SlurmFile::new(
        ValidationOutputFilters::new(Vec::new(), Vec::new()),
        LocallyAddedAssertions::new(prefix, bgpsec)
    );
    let exc = LocalExceptions::from_json(&file.to_string(), true).expect("slurm");
    report.into_snapshot(&exc, &mut metrics)
}

/// One item per type with a source chain of `pubs` published objects and
/// `excs` exceptions, in every format.
fn check_chain(pubs: usize, excs: usize, format: &str) -> Result<(), (String, String)> {
    let mut ds = DataSet::default();
    ds.origins.insert(data::v4(10, 0, 0, 0, 8, 8, 1));
    ds.keys.insert(data::router_key(7, 1, b"\x30\x13key"));
    let snap = Arc::new(snapshot_chain(&ds, pubs, excs));
    let metrics = Arc::new(Metrics::new());
    let none = Sel { asns: vec![], prefixes: vec![], more: false };
    let (w, _) = render(output_for(&none, 0), &snap, &metrics, format)
        .map_err(|e| ("render".to_string(), e))?;
    let class = |c: &str| format!("chain:{format}:{c}");
    let what = format!("item with {pubs} published and {excs} exception sources");
    let got = extract(format, &w).map_err(|e| (class("invalid"), format!("{what}: {e}")))?;
    let want = admitted(&ds, &none, 0, format);
    if normalise(format, got) != normalise(format, want) {
        return Err((class("items"), format!("{what}: listed items differ")))
    }
    if format == "jsonext" {
        let v: Value = serde_json::from_str(&w).map_err(|e| (class("invalid"), format!("{what}: {e}")))?;
        for list in ["roas", "routerKeys"] {
            for item in v[list].as_array().cloned().unwrap_or_default() {
                let src = item["source"].as_array().cloned().unwrap_or_default();
                let e = src.iter().filter(|s| s["type"].as_str() == Some("exception")).count();
                if src.len() != pubs + excs || e != excs {
                    return Err((class("sources"), format!(
                        "{what}: jsonext lists {} sources, {e} of them exceptions", src.len()
                    )))
                }
            }
        }
    }
    Ok(())
}

pub const CHAINS: [(usize, usize); 8] = [(1, 0), (2, 0), (0, 1), (0, 2), (0, 3), (1, 1), (1, 2), (2, 2)];

pub fn run(_ctx: &Ctx) -> Report {
    util::quiet_panics();
    let mut rep = Report::new("exploration");
    let dss = datasets();
    let sels = selections();
    rep.rule = "60 data sets (every <=3-subset of 4 origins x router key \
        present/absent x ASPA present/absent) x 12 selections (none, asn, \
        unmatched asn, two asns, prefix with/without more-specifics, wider \
        prefix, asn+prefix, two prefixes, ::/0, more-specifics alone) x 8 \
        type exclusions x 13 formats, through Output::write and \
        Output::stream (compared) and, for every 4th data set, through \
        the HTTP query syntax and the real dispatcher; per-format \
        independent parsers recover the item list, compared with the \
        reference selection as multisets; then 269 labels (every ASCII \
        char alone and embedded, quotes, backslashes, newlines, non-BMP) \
        as TAL name and as exception comment/path for the 4 JSON \
        formats incl. SLURM round trip; then items whose source chain \
        has 1-2 published objects and / or 1-3 local exceptions (8 \
        shapes) in all 13 formats, jsonext source lists counted; \
        non-trivial = renderings with a \
        non-empty admitted list, an adversarial label or more than one source".into();
    let metrics = Arc::new({
        let mut m = Metrics::new();
        m.tals.push(routinator::metrics::TalMetrics::new(TalInfo::from_name("ta1".into()).into_arc()));
        m
    });
    let total = dss.len() * sels.len() * 8;
    rep.bound = format!("{} selections cases x 13 formats; {} labels x 4 formats x 2 positions",
        total, labels().len());
    let res = util::par_map(total as u64, util::cores(), |i| {
        let i = i as usize;
        let ds = &dss[i / (sels.len() * 8)];
        let sel = &sels[(i / 8) % sels.len()];
        let excl = (i % 8) as u8;
        let snap = Arc::new(snapshot_tal(ds, "ta1"));
        let mut out = Vec::new();
        for f in FORMATS {
            out.push((f, check_case(ds, &snap, &metrics, sel, excl, f)));
        }
        out
    });
    for (i, per_format) in res.into_iter().enumerate() {
        for (f, r) in per_format {
            rep.evaluations += 1;
            match r {
                Ok(n) => { if n > 0 { rep.nontrivial += 1; } rep.outcome(format!("ok:{f}")); }
                Err((class, msg)) => {
                    rep.outcome(format!("VIOLATION:{class}"));
                    let sel = &sels[(i / 8) % sels.len()];
                    rep.violation(format!("output:{class}"), format!(
                        "data {} selection {:?} exclude-mask {} format {f}: {msg}",
                        dss[i / (sels.len() * 8)].describe(), sel, i % 8
                    ), json!({"kind": "case", "index": i, "format": f}));
                }
            }
        }
    }
    // HTTP query path
    let http = util::par_map(dss.len() as u64, util::cores(), |d| {
        let d = d as usize;
        let mut viol = Vec::new();
        let mut n = 0;
        if d % 4 != 0 { return (n, viol) }
        // The server's outputs start from the configuration: a payload
        // type that is switched off there is excluded without being asked
        // for. All four settings for the richest data set, both on else.
        let flags: &[(bool, bool)] = if d == MULTI { &[(true, true), (true, false), (false, true), (false, false)] } else { &[(true, true)] };
        for &(bgpsec, aspa) in flags {
        let mut config = data::mem_config();
        config.enable_bgpsec = bgpsec;
        config.enable_aspa = aspa;
        let by_config = (if bgpsec { 0 } else { 2 }) | (if aspa { 0 } else { 4 });
        let history = SharedHistory::from_config(&config);
        data::install(&history, &config, &dss[d]);
        history.mark_update_done();
        let httpd = Httpd::new(&config, history);
        for (si, sel) in sels.iter().enumerate() {
            if sel.more && sel.prefixes.is_empty() && sel.asns.is_empty() { continue }
            for asked in 0..8u8 {
                let excl = asked | by_config;
                if by_config != 0 && asked & by_config != 0 { continue }
                for f in FORMATS {
                    n += 1;
                    let q = query_for(sel, asked);
                    let uri = if q.is_empty() { format!("/{f}") } else { format!("/{f}?{q}") };
                    let ans = httpd.get(&uri, &[]);
                    let uri = if by_config == 0 { uri } else { format!("{uri} (enable-bgpsec={bgpsec} enable-aspa={aspa})") };
                    if ans.status != 200 {
                        viol.push((format!("http-status:{f}"), format!("{uri}: status {}", ans.status), d, si, excl, f));
                        continue
                    }
                    let text = String::from_utf8_lossy(&ans.body).into_owned();
                    match extract(f, &text) {
                        Err(e) => viol.push((format!("http-malformed:{f}"), format!("{uri}: {e}"), d, si, excl, f)),
                        Ok(got) => {
                            let want = admitted(&dss[d], sel, excl, f);
                            if normalise(f, got) != normalise(f, want) {
                                viol.push((format!("http-items:{f}"), format!("{uri}: listed items differ from the reference selection"), d, si, excl, f));
                            }
                        }
                    }
                }
            }
        }
        }
        (n, viol)
    });
    for (n, viol) in http {
        rep.evaluations += n;
        *rep.extra.entry("http_renderings").or_insert(json!(0)) =
            json!(rep.extra.get("http_renderings").and_then(|x| x.as_u64()).unwrap_or(0) + n);
        for (class, msg, d, si, excl, f) in viol {
            rep.violation(format!("output:{class}"), msg,
                json!({"kind": "http", "data": d, "sel": si, "excl": excl, "format": f}));
        }
    }
    // labels
    let labels = labels_for(_ctx.tier.thorough());
    let jf = ["json", "jsonext", "slurm", "slurm2"];
    let lres = util::par_map((labels.len() * jf.len() * 2) as u64, util::cores(), |i| {
        let i = i as usize;
        let label = &labels[i / (jf.len() * 2)];
        let f = jf[(i / 2) % jf.len()];
        (i, check_label(label, f, i % 2 == 1))
    });
    for (i, r) in lres {
        rep.evaluations += 1;
        rep.nontrivial += 1;
        match r {
            Ok(()) => rep.outcome("ok:label"),
            Err((class, msg)) => {
                rep.outcome(format!("VIOLATION:{class}"));
                rep.violation(format!("output:{class}"), msg, json!({"kind": "label", "index": i}));
            }
        }
    }
    // source chains
    for (pubs, excs) in CHAINS {
        for f in FORMATS {
            rep.evaluations += 1;
            if pubs + excs > 1 { rep.nontrivial += 1; }
            match util::catch(|| check_chain(pubs, excs, f)).unwrap_or_else(|p| Err(("chain:panic".into(), p))) {
                Ok(()) => rep.outcome("ok:chain"),
                Err((class, msg)) => {
                    rep.outcome(format!("VIOLATION:{class}"));
                    rep.violation(format!("output:{class}"), msg, json!({"kind": "chain", "pubs": pubs, "excs": excs, "format": f}));
                }
            }
        }
    }
    rep.sample(json!({"kind": "chain", "pubs": 1, "excs": 2, "format": "jsonext"}));
    rep.sample(json!({"data": dss[37].describe(), "selection": format!("{:?}", sels[5]), "exclude_mask": 2, "format": "slurm2"}));
    rep.sample(json!({"label": "a\"b", "format": "json", "position": "tal"}));
    rep.assumptions.push("selection semantics for router keys and ASPAs \
        (by ASN / customer ASN only) are taken as the documented meaning \
        of select-asn; adversarial labels are only used for the claims the \
        statement makes about them (JSON validity, SLURM round trip)".into());
    rep
}

pub fn replay(_ctx: &Ctx, v: &Value) -> Report {
    let mut rep = Report::new("exploration");
    rep.evaluations = 1; rep.nontrivial = 2;
    let dss = datasets();
    let sels = selections();
    match v["kind"].as_str().unwrap() {
        "case" => {
            let i = v["index"].as_u64().unwrap() as usize;
            let f = v["format"].as_str().unwrap();
            let ds = &dss[i / (sels.len() * 8)];
            let sel = &sels[(i / 8) % sels.len()];
            let snap = Arc::new(snapshot_tal(ds, "ta1"));
            let metrics = Arc::new(Metrics::new());
            let r = check_case(ds, &snap, &metrics, sel, (i % 8) as u8, f);
            println!("{} {:?} excl {} {f}: {r:?}", ds.describe(), sel, i % 8);
            if let Ok((w, _)) = render(output_for(sel, (i % 8) as u8), &snap, &metrics, f) { println!("{w}"); }
            if let Err((class, msg)) = r { rep.violation(format!("output:{class}"), msg, v.clone()); }
        }
        "label" => {
            let labels = labels_for(true);
            let jf = ["json", "jsonext", "slurm", "slurm2"];
            let i = v["index"].as_u64().unwrap() as usize;
            let r = check_label(&labels[i / (jf.len() * 2)], jf[(i / 2) % jf.len()], i % 2 == 1);
            println!("label {:?} format {} comment={}: {r:?}", labels[i / (jf.len() * 2)], jf[(i / 2) % jf.len()], i % 2 == 1);
            if let Err((class, msg)) = r { rep.violation(format!("output:{class}"), msg, v.clone()); }
        }
        "chain" => {
            let (pubs, excs) = (v["pubs"].as_u64().unwrap() as usize, v["excs"].as_u64().unwrap() as usize);
            let f = v["format"].as_str().unwrap();
            let r = check_chain(pubs, excs, f);
            println!("chain {pubs}+{excs} {f}: {r:?}");
            if let Err((class, msg)) = r { rep.violation(format!("output:{class}"), msg, v.clone()); }
        }
        _ => {
            println!("http replay: rerun the check; case {v}");
        }
    }
    rep.sample(v.clone());
    rep
}
