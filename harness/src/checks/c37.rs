//! C37 Each repository is fetched at most once per run.
//!
//! E-SCHED over the real once-per-run bookkeeping of the rsync and RRDP
//! collectors: 2-3 controlled threads request the same and different
//! modules / repositories of one run; the fake rsync logs invocations, the
//! fake HTTPS transport logs notification requests and contains a
//! scheduling point inside the fetch.

use std::cell::RefCell;
use std::collections::BTreeMap;
use std::fs;
use std::path::PathBuf;
use std::str::FromStr;
use std::sync::atomic::{AtomicU64, Ordering};
use std::sync::{Arc, Mutex};
use routinator::collector::verif::{RrdpCollector, RrdpLoadResult, RrdpRun, RsyncCollector, RsyncRun};
use routinator::verif::HttpAnswer;
use rpki::uri;
use serde_json::{json, Value};
use crate::etree::Case;
use crate::report::{Ctx, Report};
use crate::rrdpsrv::{self, Server};
use crate::sched::{self, Config, Execution, Sched, Verdict};
use crate::util;

#[derive(Clone, Copy, Debug, Eq, PartialEq)]
enum Kind { Rsync, Rrdp }

#[derive(Clone, Debug)]
struct Scenario { name: &'static str, kind: Kind, targets: Vec<usize>, bound: usize,
    /// threads that spell the host name in upper case (the same module)
    upper: Vec<usize>,
    /// the RRDP server answers the notification request with an error
    failing: bool }

fn scenarios(thorough: bool) -> Vec<Scenario> {
    // Every rsync fetch is a real child process (about 25 ms in this
    // sandbox), so the rsync scenarios with three threads get a smaller
    // preemption bound in the quick tier.
    let b = if thorough { 3 } else { 2 };
    let mut res = vec![
        Scenario { name: "rsync:AA", kind: Kind::Rsync, targets: vec![0, 0], bound: b, upper: vec![], failing: false },
        Scenario { name: "rsync:AAB", kind: Kind::Rsync, targets: vec![0, 0, 1], bound: b - 1, upper: vec![], failing: false },
        Scenario { name: "rrdp:AA", kind: Kind::Rrdp, targets: vec![0, 0], bound: b, upper: vec![], failing: false },
        Scenario { name: "rrdp:AAB", kind: Kind::Rrdp, targets: vec![0, 0, 1], bound: b, upper: vec![], failing: false },
        // one module under two spellings of its host name
        Scenario { name: "rsync:Aa", kind: Kind::Rsync, targets: vec![0, 0], bound: b, upper: vec![0], failing: false },
        // a repository whose update fails while another user waits for it
        Scenario { name: "rrdp:AA:failing", kind: Kind::Rrdp, targets: vec![0, 0], bound: b, upper: vec![], failing: true },
    ];
    if thorough {
        res.push(Scenario { name: "rrdp:AAA:failing", kind: Kind::Rrdp, targets: vec![0, 0, 0], bound: 3, upper: vec![], failing: true });
        res.push(Scenario { name: "rsync:AAA", kind: Kind::Rsync, targets: vec![0, 0, 0], bound: 2, upper: vec![], failing: false });
        res.push(Scenario { name: "rrdp:AAA", kind: Kind::Rrdp, targets: vec![0, 0, 0], bound: 3, upper: vec![], failing: false });
        res.push(Scenario { name: "rsync:ABA", kind: Kind::Rsync, targets: vec![0, 1, 0], bound: 2, upper: vec![], failing: false });
    }
    res
}

/// Per worker thread: a case directory with collectors that live as long
/// as the worker.
struct Worker {
    case: Case,
    host: String,
    rsync: &'static RsyncCollector,
    rrdp: &'static RrdpCollector,
    servers: Arc<Mutex<Vec<Server>>>,
    notify_log: Arc<Mutex<Vec<String>>>,
    fail_notify: Arc<std::sync::atomic::AtomicBool>,
    _guard: rrdpsrv::HostGuard,
}

static WORKER_SEQ: AtomicU64 = AtomicU64::new(0);

thread_local! {
    static WORKER: RefCell<Option<Worker>> = const { RefCell::new(None) };
}

fn module_uri(host: &str, m: usize) -> String { format!("rsync://{host}/mod{m}/") }
fn file_uri(host: &str, m: usize) -> String { format!("rsync://{host}/mod{m}/obj.bin") }

fn make_worker(scratch: &PathBuf) -> Worker {
    let n = WORKER_SEQ.fetch_add(1, Ordering::SeqCst);
    let case = Case::new(scratch.join(format!("w{n}")));
    let host = format!("w{n}.c37.example");
    // remote rsync content: two modules with one file each
    for m in 0..2 {
        let p = case.remote_path(&file_uri(&host, m));
        fs::create_dir_all(p.parent().unwrap()).unwrap();
        fs::write(&p, format!("content of module {m}")).unwrap();
    }
    let mut config = case.config();
    config.disable_rrdp = false;
    let mut rsync = RsyncCollector::new(&config).ok().flatten().expect("rsync collector");
    rsync.ignite().expect("ignite rsync");
    let mut rrdp = RrdpCollector::new(&config).ok().flatten().expect("rrdp collector");
    rrdp.ignite().expect("ignite rrdp");
    // two RRDP repositories
    let mut servers = Vec::new();
    for r in 0..2 {
        let mut s = Server::new(&format!("https://{host}/r{r}"));
        s.objects.insert(format!("rsync://{host}/rr{r}/obj.bin"), format!("rrdp content {r}").into_bytes());
        s.new_session();
        servers.push(s);
    }
    let servers = Arc::new(Mutex::new(servers));
    let notify_log = Arc::new(Mutex::new(Vec::new()));
    let fail_notify = Arc::new(std::sync::atomic::AtomicBool::new(false));
    let guard = {
        let servers = servers.clone();
        let log = notify_log.clone();
        let fail = fail_notify.clone();
        rrdpsrv::serve_host(&host, Arc::new(move |uri, etag, _lm| {
            if uri.ends_with("/notification.xml") {
                log.lock().unwrap().push(uri.to_string());
            }
            // the fetch takes time: other threads may run meanwhile
            sched::point("http.fetch");
            if fail.load(Ordering::SeqCst) && uri.ends_with("/notification.xml") {
                return Some(HttpAnswer::Response(rrdpsrv::resp(500, vec![], b"oops".to_vec())))
            }
            for s in servers.lock().unwrap().iter() {
                if let Some(r) = s.answer(uri, etag) { return Some(HttpAnswer::Response(r)) }
            }
            Some(HttpAnswer::Unreachable)
        }))
    };
    Worker {
        case, host,
        rsync: Box::leak(Box::new(rsync)),
        rrdp: Box::leak(Box::new(rrdp)),
        servers, notify_log, fail_notify, _guard: guard,
    }
}

fn body(sched: &Arc<Sched>, sc: &Scenario, scratch: &PathBuf) -> (Execution, Verdict) {
    WORKER.with(|w| {
        let mut w = w.borrow_mut();
        if w.is_none() { *w = Some(make_worker(scratch)) }
        let w = w.as_ref().unwrap();
        body_with(sched, sc, w)
    })
}

fn body_with(sched: &Arc<Sched>, sc: &Scenario, w: &Worker) -> (Execution, Verdict) {
    // Fresh local state: nothing fetched yet.
    let cache = w.case.dir.join("cache");
    let _ = fs::remove_dir_all(cache.join("rsync"));
    let _ = fs::remove_dir_all(cache.join("rrdp"));
    fs::create_dir_all(cache.join("rsync")).unwrap();
    fs::create_dir_all(cache.join("rrdp")).unwrap();
    w.case.clear_rsync_log();
    w.notify_log.lock().unwrap().clear();
    w.fail_notify.store(sc.failing, Ordering::SeqCst);
    let failing = sc.failing;
    let errors: Arc<Mutex<Vec<String>>> = Arc::new(Mutex::new(Vec::new()));
    let host = w.host.clone();

    enum RunBox { Rsync(*mut RsyncRun<'static>), Rrdp(*mut RrdpRun<'static>) }
    let run_box = match sc.kind {
        Kind::Rsync => {
            let run: &'static mut RsyncRun<'static> = Box::leak(Box::new(w.rsync.start()));
            let ptr = run as *mut _;
            let run: &'static RsyncRun<'static> = run;
            for (i, t) in sc.targets.iter().enumerate() {
                let errors = errors.clone();
                let spelled = if sc.upper.contains(&i) { host.to_uppercase() } else { host.clone() };
                let furi = uri::Rsync::from_str(&file_uri(&spelled, *t)).unwrap();
                sched.spawn(&format!("t{i}"), move || {
                    run.load_module(&furi);
                    // The fetch must be over: the file has to be there.
                    sched::point("user.read");
                    if run.load_file(&furi).is_none() {
                        errors.lock().unwrap().push(format!(
                            "early-read: t{i} returned from load_module({furi}) but the module's file is not there"
                        ));
                    }
                    if !run.was_updated(&furi) {
                        errors.lock().unwrap().push(format!("was_updated false after load_module in t{i}"));
                    }
                });
            }
            RunBox::Rsync(ptr)
        }
        Kind::Rrdp => {
            let run: &'static mut RrdpRun<'static> = Box::leak(Box::new(w.rrdp.start()));
            let ptr = run as *mut _;
            let run: &'static RrdpRun<'static> = run;
            for (i, t) in sc.targets.iter().enumerate() {
                let errors = errors.clone();
                let notify = uri::Https::from_str(&format!("https://{host}/r{t}/notification.xml")).unwrap();
                let obj = uri::Rsync::from_str(&format!("rsync://{host}/rr{t}/obj.bin")).unwrap();
                let want = format!("rrdp content {t}").into_bytes();
                sched.spawn(&format!("t{i}"), move || {
                    match run.load_repository(&notify) {
                        Ok(RrdpLoadResult::Updated(_)) if failing => errors.lock().unwrap().push(format!(
                            "updated-by-failed-fetch: t{i} got an updated repository although the notification request failed"
                        )),
                        Ok(RrdpLoadResult::Updated(repo)) => {
                            sched::point("user.read");
                            match repo.load_object(&obj) {
                                Ok(Some(data)) if data.as_ref() == &want[..] => { }
                                other => errors.lock().unwrap().push(format!(
                                    "early-read: t{i} got an updated repository but the object reads as {:?}",
                                    other.map(|o| o.map(|d| d.len()))
                                )),
                            }
                        }
                        Ok(_) if failing => { }
                        Ok(other) => errors.lock().unwrap().push(format!(
                            "not-updated: t{i} load_repository returned {}", match other {
                                RrdpLoadResult::Unavailable => "Unavailable",
                                RrdpLoadResult::Stale => "Stale",
                                RrdpLoadResult::Current => "Current",
                                RrdpLoadResult::Updated(_) => unreachable!(),
                            }
                        )),
                        Err(_) => errors.lock().unwrap().push(format!("run-failed: t{i} load_repository failed")),
                    }
                });
            }
            RunBox::Rrdp(ptr)
        }
    };
    let exec = sched.run();
    // All threads are joined: reclaim the run.
    match run_box {
        RunBox::Rsync(p) => unsafe { drop(Box::from_raw(p)) },
        RunBox::Rrdp(p) => unsafe { drop(Box::from_raw(p)) },
    }
    let mut errs = errors.lock().unwrap().clone();
    if let Some(a) = exec.abort.as_ref() { errs.push(a.clone()) }
    for p in &exec.panics { errs.push(format!("panic: {p}")) }
    // fetch counts
    let mut counts: BTreeMap<String, usize> = BTreeMap::new();
    match sc.kind {
        // one module, however its host name is spelled
        Kind::Rsync => for l in w.case.rsync_log() { *counts.entry(l.to_lowercase()).or_insert(0) += 1 },
        Kind::Rrdp => for l in w.notify_log.lock().unwrap().iter() { *counts.entry(l.clone()).or_insert(0) += 1 },
    }
    for (k, n) in &counts {
        if *n > 1 { errs.insert(0, format!("double-fetch: {} fetched {n} times in one run", k.replace(&host, "HOST"))) }
    }
    if exec.abort.is_none() {
        let mut distinct: Vec<usize> = sc.targets.clone();
        distinct.sort(); distinct.dedup();
        if counts.len() != distinct.len() {
            errs.push(format!("fetch-count: {} distinct targets fetched, expected {}", counts.len(), distinct.len()));
        }
    }
    let violation = errs.first().map(|e| {
        let class = e.split(':').next().unwrap_or("other").to_string();
        (format!("once-per-run:{}:{}", if sc.kind == Kind::Rsync { "rsync" } else { "rrdp" }, class), errs.join("; "))
    });
    (exec, Verdict {
        outcome: if violation.is_some() { "VIOLATION".into() } else { format!("fetches={}", counts.values().sum::<usize>()) },
        violation
    })
}

pub fn run(ctx: &Ctx) -> Report {
    util::quiet_panics();
    let mut rep = Report::new("model_checking");
    let bound = if ctx.tier.thorough() { 3 } else { 2 };
    rep.rule = "2-3 controlled threads of one validation run call the real \
        rsync::Run::load_module / rrdp::Run::load_repository for the same \
        and for different modules / repositories (scenarios AA, AAB, \
        the same module under two spellings of its host name, a \
        repository whose update fails while another thread waits for it; \
        thorough AAA, ABA) and then read an object; the fake rsync (real \
        child process) logs every invocation, the fake HTTPS transport \
        logs notification requests and yields inside the fetch; every \
        interleaving of the lock operations on `updated`, `running`, the \
        per-module mutex, the metrics mutex, and the fetch begin/end \
        points with at most `bound` preemptions; oracle: <= 1 fetch per \
        module / repository, exactly one per distinct target, every user \
        finds the fetched object after its call returns, no deadlock".into();
    let scratch = ctx.scratch.clone();
    let mut samples = Vec::new();
    for (idx, sc) in scenarios(ctx.tier.thorough()).into_iter().enumerate() {
        if !ctx.mine(idx as u64) { continue }
        let cfg = Config { bound: sc.bound, max_steps: 5000, max_execs: 2_000_000, workers: 4 };
        let stats = sched::explore(&cfg, |s| body(s, &sc, &scratch));
        rep.extra.insert(format!("bound_{}", sc.name), json!(sc.bound));
        rep.transitions += stats.steps;
        rep.traces += stats.executions;
        rep.evaluations += stats.executions;
        rep.nontrivial += stats.by_preemptions.iter().filter(|(k, _)| **k > 0).map(|(_, v)| *v).sum::<u64>();
        for (k, v) in &stats.outcomes { *rep.outcomes.entry(format!("{}:{k}", sc.name)).or_insert(0) += v; }
        rep.states += stats.outcomes.len() as u64;
        rep.extra.insert(format!("executions_{}", sc.name), json!(stats.executions));
        rep.extra.insert(format!("max_points_{}", sc.name), json!(stats.max_points));
        if let Some(c) = stats.capped { rep.capped = Some(c) }
        if let Some(m) = stats.machinery {
            eprintln!("machinery error: {m}");
            std::process::exit(2)
        }
        if let Some(s) = stats.sample { if samples.len() < 3 { samples.push(json!({"scenario": sc.name, "schedule": s})) } }
        // one violation per fingerprint, minimal first
        let mut seen = std::collections::BTreeSet::new();
        for f in &stats.found {
            if !seen.insert(f.fingerprint.clone()) { continue }
            if let Err(e) = sched::confirm(f, cfg.max_steps, |s| body(s, &sc, &scratch)) {
                eprintln!("machinery error: violation does not replay deterministically: {e}");
                std::process::exit(2)
            }
            rep.violation(f.fingerprint.clone(), format!(
                "scenario {}, {} preemptions: {}; schedule {:?}",
                sc.name, f.preemptions, f.message, f.labels
            ), sched::found_json(sc.name, sc.bound, f));
        }
    }
    for s in samples { rep.sample(s) }
    rep.bound = format!("preemption bound {bound} (three-thread rsync scenarios: {}); all schedules within the bound executed", bound - 1);
    rep.assumptions.push("scheduling points: every acquire of the collectors' utils::sync locks (hooks), rsync fetch begin/end, inside the HTTP fetch, before the user's read; the rsync child process itself runs atomically between begin and end".into());
    rep
}

pub fn replay(ctx: &Ctx, v: &Value) -> Report {
    util::quiet_panics();
    let mut rep = Report::new("model_checking");
    let name = v["harness"].as_str().unwrap_or("");
    let Some(sc) = scenarios(true).into_iter().find(|s| s.name == name) else {
        eprintln!("unknown scenario {name}"); std::process::exit(2)
    };
    let choices: Vec<usize> = v["choices"].as_array().map(|a| a.iter().map(|x| x.as_u64().unwrap() as usize).collect()).unwrap_or_default();
    let scratch = ctx.scratch.clone();
    let (exec, verdict) = sched::replay(&choices, 5000, |s| body(s, &sc, &scratch));
    for l in exec.labels() { println!("  {l}") }
    println!("abort: {:?}", exec.abort);
    rep.states = 1; rep.transitions = exec.points.len() as u64; rep.traces = 1; rep.evaluations = 1;
    if let Some((fp, msg)) = verdict.violation { rep.violation(fp, msg, v.clone()) }
    rep.sample(v.clone());
    rep
}
