//! C33 A failed run never changes the served data.
//!
//! Explicit-state exploration over histories of the server's real update
//! sequence (`Server::process_once`): every event sequence up to a depth
//! over {successful run installing data set 0/1/2, run failing retryably
//! or fatally at the start / after validation / after cleanup}. Around
//! every failing event the complete observable state is compared.

use std::collections::BTreeSet;
use std::future::Future;
use std::str::FromStr;
use std::sync::Arc;
use std::task::{Context, Poll, Wake, Waker};
use routinator::operation::Server;
use routinator::payload::SharedHistory;
use routinator::verif::RunOutcome;
use rpki::rtr::server::{NotifyReceiver, PayloadDiff, PayloadSource};
use rpki::rtr::State;
use serde_json::{json, Value};
use crate::checks::c15::{self, Env};
use crate::data;
use crate::hooks;
use crate::httpd::Httpd;
use crate::report::{Ctx, Report};
use crate::util;

#[derive(Clone, Copy, Debug, Eq, PartialEq)]
pub enum Ev { Ok(usize), Fail(RunOutcome, &'static str), RealFail(&'static str) }

pub fn events() -> Vec<Ev> {
    let mut res = vec![Ev::Ok(0), Ev::Ok(1), Ev::Ok(2)];
    for stage in ["start", "processed", "cleaned"] {
        res.push(Ev::Fail(RunOutcome::Retry, stage));
        res.push(Ev::Fail(RunOutcome::Fatal, stage));
    }
    // runs that fail on their own (no injection): a fatal I/O error while
    // reading a stored publication point
    res.push(Ev::RealFail("stored-point-unreadable"));
    res.push(Ev::RealFail("stored-ta-unreadable"));
    res
}

/// Engines whose runs fail without any injection.
struct RealEnvs {
    /// a TAL without any stored trust anchor certificate: the initial
    /// (store-only) run fails retryably
    no_ta: (routinator::Config, &'static routinator::engine::Engine),
    /// a stored publication point that cannot be read: fatal
    unreadable: (routinator::Config, &'static routinator::engine::Engine),
    /// a stored trust anchor certificate that cannot be read: fatal
    ta_unreadable: (routinator::Config, &'static routinator::engine::Engine),
}

thread_local! {
    static REAL: std::cell::RefCell<Option<RealEnvs>> = const { std::cell::RefCell::new(None) };
}

static REAL_SEQ: std::sync::atomic::AtomicU64 = std::sync::atomic::AtomicU64::new(0);

fn make_real(scratch: &std::path::Path) -> RealEnvs {
    use crate::rpkigen::{Builder, CaSpec, Gen, ObjSpec, Stale, TalSpec, TreeSpec};
    use crate::etree::{self, Case};
    let n = REAL_SEQ.fetch_add(1, std::sync::atomic::Ordering::SeqCst);
    let gen = Gen::load();
    let mut ta = CaSpec::new("ta0", 0, &format!("ta{n}.c33.example"), "repo");
    ta.v4 = vec![(std::net::Ipv4Addr::new(10, 0, 0, 0), 8)];
    ta.asns = vec![(64496, 64511)];
    ta.objs = vec![ObjSpec::roa("r0", 64496, "10.200.0.0", 16, 16)];
    let ta_uri = format!("rsync://ta{n}.c33.example/repo/ta0.cer");
    let spec = TreeSpec { tals: vec![TalSpec { name: "alpha".into(), ta_uri, ca: ta.clone(), wrong_key: false, https_uri: None }] };
    let image = Builder::new(&gen, Stale::Reject).build(&spec);
    // (a) TAL, empty store
    let case_a = Case::new(scratch.join(format!("real-a{n}")));
    case_a.write_tals(&image);
    let config_a = case_a.config();
    let mut engine_a = routinator::engine::Engine::new(&config_a, false).expect("engine");
    engine_a.ignite().expect("ignite");
    // (b) filled store, then the TA's stored point made unreadable
    let case_b = Case::new(scratch.join(format!("real-b{n}")));
    case_b.write_tals(&image);
    case_b.publish(&image);
    let config_b = case_b.config();
    etree::run(&config_b, false, &routinator::slurm::LocalExceptions::empty()).expect("filling run");
    let store = routinator::store::Store::new(&config_b).expect("store");
    let mft = rpki::uri::Rsync::from_str(&ta.mft_uri()).unwrap();
    let path = store.verif_point_path(None, &mft);
    std::fs::remove_file(&path).expect("stored point file exists");
    std::fs::create_dir_all(&path).unwrap();
    let mut engine_b = routinator::engine::Engine::new(&config_b, false).expect("engine");
    engine_b.ignite().expect("ignite");
    // (c) filled store, then the stored TA certificate made unreadable
    let case_c = Case::new(scratch.join(format!("real-c{n}")));
    case_c.write_tals(&image);
    case_c.publish(&image);
    let config_c = case_c.config();
    etree::run(&config_c, false, &routinator::slurm::LocalExceptions::empty()).expect("filling run");
    let store = routinator::store::Store::new(&config_c).expect("store");
    let ta_uri = rpki::repository::tal::TalUri::Rsync(rpki::uri::Rsync::from_str(&spec.tals[0].ta_uri).unwrap());
    let path = store.verif_ta_path(&ta_uri);
    std::fs::remove_file(&path).expect("stored TA file exists");
    std::fs::create_dir_all(&path).unwrap();
    let mut engine_c = routinator::engine::Engine::new(&config_c, false).expect("engine");
    engine_c.ignite().expect("ignite");
    RealEnvs {
        no_ta: (config_a, Box::leak(Box::new(engine_a))),
        unreadable: (config_b, Box::leak(Box::new(engine_b))),
        ta_unreadable: (config_c, Box::leak(Box::new(engine_c))),
    }
}

fn with_real<R>(scratch: &std::path::Path, f: impl FnOnce(&RealEnvs) -> R) -> R {
    REAL.with(|r| {
        let mut r = r.borrow_mut();
        if r.is_none() { *r = Some(make_real(scratch)) }
        f(r.as_ref().unwrap())
    })
}

struct Noop;
impl Wake for Noop { fn wake(self: Arc<Self>) { } }

fn poll_notified(rx: &mut NotifyReceiver) -> bool {
    let waker = Waker::from(Arc::new(Noop));
    let mut cx = Context::from_waker(&waker);
    let fut = rx.recv();
    let mut fut = std::pin::pin!(fut);
    matches!(fut.as_mut().poll(&mut cx), Poll::Ready(()))
}

/// Everything a client can observe (except the start time of the last
/// run attempt, which a failed run legitimately moves).
fn observe(history: &SharedHistory, httpd: &Httpd) -> Vec<String> {
    let mut res = Vec::new();
    res.push(format!("ready={}", history.ready()));
    let n = history.notify();
    res.push(format!("notify={}/{}", n.session(), n.serial()));
    let (state, set) = history.full();
    res.push(format!("full={}/{}:{:?}", state.session(), state.serial(), c15::collect_set(set)));
    let cur = u32::from(state.serial());
    for s in 0..=cur.saturating_add(1) {
        let d = history.diff(State::from_parts(state.session(), s.into()));
        res.push(format!("diff[{s}]={}", match d {
            None => "refused".to_string(),
            Some((st, mut diff)) => {
                let mut actions = Vec::new();
                while let Some((p, a)) = diff.next() { actions.push((data::to_owned(p), a)); }
                format!("{}:{:?}", st.serial(), data::fmt_actions(&actions))
            }
        }));
    }
    for uri in ["/json", "/csv", "/json-delta"] {
        let a = httpd.get(uri, &[]);
        res.push(format!(
            "{uri}: {} etag={:?} last-modified={:?} body={}", a.status,
            a.header("etag"), a.header("last-modified"), String::from_utf8_lossy(&a.body)
        ));
    }
    let timing = history.timing();
    res.push(format!("timing.retry={} expire={}", timing.retry, timing.expire));
    res
}

fn run_seq(env: &Env, seq: &[Ev], states: &mut BTreeSet<String>) -> Result<(u64, u64), (String, String)> {
    let sets = c15::sets();
    let h = hooks::hooks();
    let history = SharedHistory::from_config(&env.config);
    let httpd = Httpd::new(&env.config, history.clone());
    let mut notify = httpd.notify.clone();
    let mut rx = httpd.notify.subscribe();
    let cache = env.config.cache_dir.clone();
    let mut failing = 0;
    let mut transitions = 0;
    let mut cur_data: Option<usize> = None;
    for (i, ev) in seq.iter().enumerate() {
        let hist = format!("{:?}", &seq[..=i]);
        while poll_notified(&mut rx) { }
        let before = observe(&history, &httpd);
        // a long-poll for the current version, subscribed before the event
        let (session, serial) = history.read().session_and_serial();
        let uri = format!("/json-delta/notify?session={session}&serial={serial}");
        let waker = Waker::from(Arc::new(Noop));
        let mut lp = Box::pin(routinator::http::verif::handle(&httpd.state, "GET", &uri, &[]));
        let mut cx = Context::from_waker(&waker);
        let lp_before = lp.as_mut().poll(&mut cx).is_ready();
        transitions += 1;
        match ev {
            Ev::Ok(d) => {
                let exc = data::exceptions_for(&sets[*d]);
                if Server::verif_process_once(&env.config, env.engine, &history, &mut notify, &exc, i == 0).is_err() {
                    return Err(("harness".into(), format!("history {hist}: unforced run failed")))
                }
                let changed = cur_data != Some(*d); // the first data set counts as a change
                cur_data = Some(*d);
                // control: a change is notified, a non-change is not
                let notified = poll_notified(&mut rx);
                if notified != changed {
                    return Err(("notify-control".into(), format!(
                        "history {hist}: successful run, data changed={changed}, notification pending={notified}"
                    )))
                }
            }
            Ev::RealFail(kind) => {
                failing += 1;
                let scratch = env.config.cache_dir.parent().unwrap().to_path_buf();
                // the very first run of a server is the initial one: there
                // the TAL without a stored certificate fails the run
                let (fatal_expected, res) = with_real(&scratch, |real| {
                    let exc = data::exceptions_for(&sets[3]);
                    if i == 0 {
                        (false, Server::verif_process_once(&real.no_ta.0, real.no_ta.1, &history, &mut notify, &exc, true))
                    }
                    else if *kind == "stored-ta-unreadable" {
                        (true, Server::verif_process_once(&real.ta_unreadable.0, real.ta_unreadable.1, &history, &mut notify, &exc, false))
                    }
                    else {
                        (true, Server::verif_process_once(&real.unreadable.0, real.unreadable.1, &history, &mut notify, &exc, false))
                    }
                });
                let what = if i == 0 { "initial run with a TAL whose trust anchor certificate is not stored" } else { *kind };
                match res {
                    Ok(()) => return Err((format!("failing-run-reported-success:{}", if i == 0 { "initial-no-ta" } else { kind }), format!(
                        "history {hist}: a run that cannot complete ({what}) was reported successful and its result published"
                    ))),
                    Err(e) => if e.is_fatal() != fatal_expected {
                        return Err(("harness".into(), format!("history {hist}: unexpected failure kind for {what}")))
                    }
                }
                let after = observe(&history, &httpd);
                if before != after {
                    return Err(("served-state-changed".into(), format!("history {hist}: the failed run ({what}) changed what is served")))
                }
                if poll_notified(&mut rx) {
                    return Err(("notification-after-failed-run".into(), format!("history {hist}: a notification is pending after the failed run ({what})")))
                }
            }
            Ev::Fail(outcome, stage) => {
                failing += 1;
                if *stage == "start" {
                    h.outcomes.lock().unwrap().entry(cache.clone()).or_default().push_back(*outcome);
                }
                else {
                    h.stage_outcomes.lock().unwrap().insert(cache.clone(), (*stage, *outcome));
                }
                // data the failing run would have installed: something new
                let exc = data::exceptions_for(&sets[3]);
                let res = Server::verif_process_once(&env.config, env.engine, &history, &mut notify, &exc, i == 0);
                h.stage_outcomes.lock().unwrap().remove(&cache);
                match res {
                    Ok(()) => return Err(("harness".into(), format!("history {hist}: forced failure did not fail the run"))),
                    Err(e) => {
                        if e.is_fatal() != (*outcome == RunOutcome::Fatal) {
                            return Err(("harness".into(), format!("history {hist}: wrong failure kind")))
                        }
                    }
                }
                let after = observe(&history, &httpd);
                if before != after {
                    let diff: Vec<String> = before.iter().zip(after.iter()).filter(|(a, b)| a != b)
                        .map(|(a, b)| format!("before <{}> after <{}>", cut(a), cut(b))).collect();
                    return Err((format!("served-state-changed:{outcome:?}@{stage}"), format!(
                        "history {hist}: the failed run changed what is served: {}", diff.join("; ")
                    )))
                }
                if poll_notified(&mut rx) {
                    return Err(("notification-after-failed-run".into(), format!(
                        "history {hist}: a notification is pending after the failed run"
                    )))
                }
                let mut cx = Context::from_waker(&waker);
                if !lp_before && cur_data.is_some() && lp.as_mut().poll(&mut cx).is_ready() {
                    return Err(("long-poll-released-by-failed-run".into(), format!(
                        "history {hist}: a notify long-poll for the current version returned after the failed run"
                    )))
                }
            }
        }
        let s = history.read();
        states.insert(format!("serial={} data={:?} active={}", s.serial(), cur_data, s.is_active()));
    }
    Ok((failing, transitions))
}

fn cut(s: &str) -> String { if s.len() > 160 { format!("{}…", &s[..160]) } else { s.to_string() } }

fn all_seqs(depth: usize) -> Vec<Vec<Ev>> {
    let evs = events();
    let mut res: Vec<Vec<Ev>> = vec![vec![]];
    for _ in 0..depth {
        let mut next = Vec::new();
        for s in &res { for e in &evs { let mut t = s.clone(); t.push(*e); next.push(t); } }
        res = next;
    }
    res
}

fn ev_json(seq: &[Ev]) -> Value {
    json!(seq.iter().map(|e| match e {
        Ev::Ok(d) => format!("ok:{d}"),
        Ev::Fail(RunOutcome::Retry, s) => format!("retry:{s}"),
        Ev::Fail(_, s) => format!("fatal:{s}"),
        Ev::RealFail(k) => format!("real:{k}"),
    }).collect::<Vec<_>>())
}

fn ev_parse(v: &Value) -> Vec<Ev> {
    v.as_array().map(|a| a.iter().filter_map(|x| {
        let s = x.as_str()?;
        let (k, r) = s.split_once(':')?;
        let stage = ["start", "processed", "cleaned"].into_iter().find(|st| *st == r);
        match k {
            "ok" => Some(Ev::Ok(r.parse().ok()?)),
            "retry" => Some(Ev::Fail(RunOutcome::Retry, stage?)),
            "fatal" => Some(Ev::Fail(RunOutcome::Fatal, stage?)),
            "real" => Some(Ev::RealFail(if r == "stored-ta-unreadable" { "stored-ta-unreadable" } else { "stored-point-unreadable" })),
            _ => None
        }
    }).collect()).unwrap_or_default()
}

pub fn run(ctx: &Ctx) -> Report {
    util::quiet_panics();
    let mut rep = Report::new("model_checking");
    let depth = if ctx.tier.thorough() { 6 } else { 4 };
    // Sequences of exactly `depth` events cover all shorter ones as prefixes.
    let seqs = all_seqs(depth);
    rep.rule = "every sequence of `depth` events over {successful run \
        installing data set 0, 1 or 2; run failing retryably or fatally at \
        the start, after validation, or after cleanup (forced through the \
        run-outcome hooks); run failing on its own: as first event the \
        initial store-only run of an engine with a TAL whose trust anchor \
        certificate is not stored (retryable), later a run of an engine \
        whose stored publication point, resp. stored trust anchor \
        certificate, cannot be read (fatal)} executed through the server's real update \
        sequence on a fresh history; around every failing event the full \
        observable state is compared: readiness, notify state, reset \
        answer, serial-query answer for every serial 0..current+1, the \
        complete /json, /csv and /json-delta responses incl. ETag and \
        Last-Modified, RTR timing, a subscribed notification receiver and \
        a pending /json-delta/notify long-poll; control: successful \
        changing runs do notify; states = distinct (serial, data, active)".into();
    rep.bound = format!("all {} event sequences of length {depth} (every prefix checked)", seqs.len());
    let scratch = ctx.scratch.clone();
    let threads = util::cores().min(12);
    let chunks: Vec<&[Vec<Ev>]> = seqs.chunks(seqs.len().div_ceil(threads * 8)).collect();
    let res = util::par_map(chunks.len() as u64, threads, |ci| {
        c15::with_env(&scratch, |env| {
            let mut states = BTreeSet::new();
            let mut out = Vec::new();
            for seq in chunks[ci as usize] {
                let r = util::catch(|| run_seq(env, seq, &mut states))
                    .unwrap_or_else(|p| Err(("panic".into(), p)));
                // leave no forced outcome behind
                hooks::hooks().outcomes.lock().unwrap().remove(&env.config.cache_dir);
                out.push((seq.clone(), r));
            }
            (states, out)
        })
    });
    let mut states = BTreeSet::new();
    for (st, out) in res {
        states.extend(st);
        for (seq, r) in out {
            rep.evaluations += 1;
            rep.traces += 1;
            match r {
                Ok((failing, transitions)) => {
                    rep.transitions += transitions;
                    if failing > 0 { rep.nontrivial += 1 }
                    rep.outcome(format!("failing-events={failing}"));
                }
                Err((class, msg)) => {
                    rep.outcome(format!("VIOLATION:{class}"));
                    // shortest failing prefix is in the message; fingerprint by class and failing event kind
                    rep.violation(format!("failed-run:{class}"), msg, json!({"events": ev_json(&seq)}));
                }
            }
        }
    }
    rep.states = states.len() as u64;
    rep.sample(json!({"events": ["ok:0", "retry:processed", "ok:1", "fatal:cleaned"]}));
    rep.assumptions.push("failures are injected at three points of ValidationReport::process (before the run, after validation, after cleanup); data sets are SLURM assertions over a TAL-less offline engine".into());
    rep
}

pub fn replay(ctx: &Ctx, v: &Value) -> Report {
    util::quiet_panics();
    let mut rep = Report::new("model_checking");
    let seq = ev_parse(&v["events"]);
    let mut states = BTreeSet::new();
    let r = c15::with_env(&ctx.scratch, |env| run_seq(env, &seq, &mut states));
    println!("{seq:?}: {r:?}");
    if let Err((class, msg)) = r { rep.violation(format!("failed-run:{class}"), msg, v.clone()) }
    rep.states = 1; rep.transitions = seq.len() as u64; rep.traces = 1; rep.evaluations = 1;
    rep.sample(v.clone());
    rep
}
