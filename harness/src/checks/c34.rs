//! C34 Next-run scheduling respects refresh and min-refresh.
//!
//! Complete grid of refresh x min-refresh x data-set expiry; the data set
//! (with its refresh deadline) is installed through the real
//! `SharedHistory::update`, then `mark_update_done` and `refresh_wait` are
//! observed with bracketing clocks.

use std::time::{Duration, SystemTime, UNIX_EPOCH};
use routinator::payload::SharedHistory;
use rpki::repository::x509::Time;
use serde_json::{json, Value};
use crate::data;
use crate::report::{Ctx, Report};
use crate::util;

#[derive(Clone, Debug)]
pub struct Case { refresh: u64, min: Option<u64>, expiry: Option<i64>,
    /// a second, longer-lived publication point: 0 none, 1 processed before, 2 after the one under test
    others: u8 }

fn cases(thorough: bool) -> Vec<Case> {
    let refreshes: &[u64] = if thorough { &[1, 2, 10, 100, 600, 86400] } else { &[1, 10, 100, 600] };
    let mins: &[Option<u64>] = if thorough { &[None, Some(1), Some(2), Some(10), Some(100), Some(600), Some(86400)] }
        else { &[None, Some(1), Some(10), Some(100), Some(600)] };
    let exps: &[Option<i64>] = if thorough {
        &[None, Some(-5), Some(0), Some(1), Some(2), Some(5), Some(9), Some(10), Some(11), Some(50), Some(99), Some(100), Some(101), Some(500), Some(599), Some(600), Some(601), Some(1000), Some(100000)]
    } else {
        &[None, Some(-5), Some(0), Some(5), Some(10), Some(50), Some(100), Some(500), Some(1000)]
    };
    let mut res = Vec::new();
    for r in refreshes { for m in mins { for e in exps {
        for others in [0u8, 1, 2] {
            if e.is_none() && others != 0 { continue }
            res.push(Case { refresh: *r, min: *m, expiry: *e, others });
        }
    }}}
    res
}

fn unix(t: SystemTime) -> f64 { t.duration_since(UNIX_EPOCH).unwrap().as_secs_f64() }

fn run_case(c: &Case) -> Result<String, (String, String)> {
    let mut config = data::mem_config();
    config.refresh = Duration::from_secs(c.refresh);
    config.min_refresh = c.min.map(Duration::from_secs);
    config.enable_aspa = true;
    let history = SharedHistory::from_config(&config);
    // The initial run already serves the same payload, with a far expiry
    // when the run under test carries one: the regular run then changes
    // nothing but the expiry.
    let tal = rpki::repository::tal::TalInfo::from_name("verif".into()).into_arc();
    let base = Time::now();
    let make = |expiry_abs: Option<i64>| {
        let report = routinator::payload::ValidationReport::new(&config);
        let mut metrics = routinator::metrics::Metrics::new();
        metrics.tals.push(routinator::metrics::TalMetrics::new(tal.clone()));
        if let Some(e) = expiry_abs {
            let not_after = Time::new(chrono::DateTime::from_timestamp(e, 0).unwrap());
            // a second publication point that lives much longer, before or
            // after the one under test: the data set expires with the
            // earliest of its points
            let far = Time::new(chrono::DateTime::from_timestamp(e + 2_000_000, 0).unwrap());
            let other = |when: Time| report.verif_push_point(
                tal.clone(), when, vec![data::origin_universe()[1]], Vec::new(),
                Vec::<(rpki::resources::Asn, Vec<rpki::resources::Asn>)>::new()
            );
            if c.others == 1 { other(far) }
            report.verif_push_point(
                tal.clone(), not_after, vec![data::origin_universe()[2]], Vec::new(),
                Vec::<(rpki::resources::Asn, Vec<rpki::resources::Asn>)>::new()
            );
            if c.others == 2 { other(far) }
        }
        (report, metrics)
    };
    // the same local exceptions in both runs (origins and keys only)
    let fixed = { let mut ds = data::history_sets()[1].clone(); ds.aspas.clear(); ds };
    let expiry_abs = c.expiry.map(|e| base.timestamp() + e);
    let (report, metrics) = make(expiry_abs.map(|_| base.timestamp() + 1_000_000));
    history.update(report, &data::exceptions_for(&fixed), metrics);
    history.mark_update_done();
    // the regular run with the data set under test
    let (report, metrics) = make(expiry_abs);
    history.mark_update_start();
    history.update(report, &data::exceptions_for(&fixed), metrics);
    let t0 = unix(SystemTime::now());
    history.mark_update_done();
    let wait = history.read().refresh_wait().as_secs_f64();
    let t1 = unix(SystemTime::now());
    let r = c.refresh as f64;
    let floor = c.min.unwrap_or(c.refresh) as f64;
    let ceil = r.max(c.min.unwrap_or(0) as f64);
    let desc = format!("refresh {} s, min-refresh {:?}, data set expiry {}", c.refresh, c.min,
        c.expiry.map(|e| format!("now{e:+} s")).unwrap_or("none".into()));
    const EPS: f64 = 0.002;
    if wait + EPS < floor {
        return Err(("below-minimum".into(), format!("{desc}: next run in {wait:.3} s, less than {floor} s")))
    }
    if wait > ceil + EPS {
        return Err(("above-maximum".into(), format!("{desc}: next run in {wait:.3} s, more than {ceil} s")))
    }
    if let (Some(m), Some(e)) = (c.min, expiry_abs) {
        let m = m as f64;
        let e = e as f64;
        // target = min(expiry, done + refresh), done in [t0, t1]; now in [t0, t1]
        let lo = m.max(e.min(t0 + r) - t1);
        let hi = m.max(e.min(t1 + r) - t0);
        if wait + EPS < lo || wait > hi + EPS {
            return Err((
                if wait > hi { "expiry-ignored" } else { "too-early" }.into(),
                format!("{desc}: next run in {wait:.3} s, expected between {lo:.3} and {hi:.3} s")
            ))
        }
        let class = if e - t1 < m { "expiry<min" } else if e - t0 < r { "expiry-brings-forward" } else { "expiry>=refresh" };
        return Ok(class.into())
    }
    Ok(if c.min.is_none() { "no-min:refresh".into() } else { "min:no-expiry".into() })
}

//------------ the server's actual waits --------------------------------------

const SERVER_REFRESH: f64 = 4.0;

/// Runs the real server (no TALs, collectors off, refresh 4 s), sends it
/// SIGUSR2 (log rotation) at the given offsets into its first wait after a
/// regular run, and measures when the validation runs start (from the run
/// log the binary writes under the verification cfg).
fn server_wait(dir: &std::path::Path, signals_at: &[f64]) -> Result<String, (String, String)> {
    use std::process::{Command, Stdio};
    let harness = |e: String| ("harness".to_string(), e);
    let _ = std::fs::remove_dir_all(dir);
    std::fs::create_dir_all(dir.join("cache")).map_err(|e| harness(e.to_string()))?;
    std::fs::create_dir_all(dir.join("tals")).map_err(|e| harness(e.to_string()))?;
    let conf = dir.join("routinator.conf");
    std::fs::write(&conf, format!(
        "repository-dir = \"{}\"\nno-rir-tals = true\nextra-tals-dir = \"{}\"\ndisable-rsync = true\ndisable-rrdp = true\nrefresh = {}\n",
        dir.join("cache").display(), dir.join("tals").display(), SERVER_REFRESH as u64
    )).map_err(|e| harness(e.to_string()))?;
    let log = dir.join("runs.log");
    let bin = std::env::var_os("VERIF_BIN").map(std::path::PathBuf::from).unwrap_or_else(|| "/verif/target-bin/release/routinator".into());
    let mut child = Command::new(&bin).arg("--config").arg(&conf).arg("server")
        .env("VERIF_RUN_OUTCOMES", "").env("VERIF_RUN_LOG", &log).stdin(Stdio::null()).stdout(Stdio::null()).stderr(Stdio::null())
        .spawn().map_err(|e| harness(format!("cannot start {}: {e}", bin.display())))?;
    let count = || std::fs::read_to_string(&log).map(|s| s.lines().count()).unwrap_or(0);
    let started = std::time::Instant::now();
    let mut starts: Vec<f64> = Vec::new();
    let mut pending: Vec<f64> = signals_at.to_vec();
    let horizon = 6.0 + 3.0 * SERVER_REFRESH;
    // the second observed run is the first regular one; the wait after it is measured
    while starts.len() < 3 && started.elapsed().as_secs_f64() < horizon {
        let n = count();
        while starts.len() < n { starts.push(started.elapsed().as_secs_f64()); }
        if starts.len() == 2 {
            let since = started.elapsed().as_secs_f64() - starts[1];
            if let Some(at) = pending.first().copied() {
                if since >= at {
                    unsafe { libc::kill(child.id() as i32, libc::SIGUSR2); }
                    pending.remove(0);
                }
            }
        }
        if child.try_wait().map_err(|e| harness(e.to_string()))?.is_some() {
            return Err(harness("the server exited".into()))
        }
        std::thread::sleep(Duration::from_millis(5));
    }
    let _ = child.kill();
    let _ = child.wait();
    let _ = std::fs::remove_dir_all(dir);
    if starts.len() < 3 {
        let seen: Vec<String> = starts.iter().map(|t| format!("{t:.2}")).collect();
        return Err(("above-maximum".into(), format!(
            "server with refresh {SERVER_REFRESH} s and SIGUSR2 at {signals_at:?} s into the wait: no third validation run within {horizon} s (runs started at {seen:?})"
        )))
    }
    let wait = starts[2] - starts[1];
    // runs take milliseconds here; polling and process start-up add a little
    if wait > SERVER_REFRESH + 0.8 {
        return Err(("above-maximum".into(), format!(
            "server with refresh {SERVER_REFRESH} s and SIGUSR2 at {signals_at:?} s into the wait: the next run started {wait:.2} s after the previous one"
        )))
    }
    if wait < SERVER_REFRESH - 0.3 {
        return Err(("below-minimum".into(), format!(
            "server with refresh {SERVER_REFRESH} s and SIGUSR2 at {signals_at:?} s into the wait: the next run started only {wait:.2} s after the previous one"
        )))
    }
    Ok(format!("server:signals={}:waited-refresh", signals_at.len()))
}

pub fn run(ctx: &Ctx) -> Report {
    util::quiet_panics();
    let mut rep = Report::new("exploration");
    let cases = cases(ctx.tier.thorough());
    rep.rule = "full grid refresh x min-refresh (unset and set) x expiry \
        of the installed data set (none, already past, now, and values \
        below / at / above min-refresh and refresh) x a second publication \
        point with a much later expiry (absent / processed before / after); an initial run \
        serving the same payload with a far expiry, then a regular run \
        installing the data set (same payload, the expiry under test) through \
        SharedHistory::update, mark_update_done, refresh_wait; oracle \
        (bracketing wall clocks): wait >= min-refresh (or refresh), wait \
        <= max(refresh, min-refresh), and with min-refresh set wait == \
        max(min-refresh, min(expiry, done + refresh) - now); and the real \
        server binary (refresh 4 s, nothing to validate) with SIGUSR2 \
        arriving at 0 / 1 / 2 points of its wait after a regular run: the \
        next run starts 4 s (-0.3 / +0.8) after the previous one; non-trivial \
        = cases with min-refresh and an expiry before done + refresh".into();
    rep.bound = format!("{} grid points (complete product)", cases.len());
    for c in &cases {
        rep.evaluations += 1;
        match util::catch(|| run_case(c)).unwrap_or_else(|p| Err(("panic".into(), p))) {
            Ok(o) => {
                if o == "expiry-brings-forward" || o == "expiry<min" { rep.nontrivial += 1 }
                rep.outcome(o)
            }
            Err((class, msg)) => {
                rep.outcome(format!("VIOLATION:{class}"));
                rep.violation(format!("schedule:{class}:min={}", if c.min.is_some() { "set" } else { "unset" }), msg,
                    json!({"refresh": c.refresh, "min": c.min, "expiry": c.expiry, "others": c.others}));
            }
        }
    }
    // the waits the server really makes, with and without signals arriving meanwhile
    let signal_cases: Vec<Vec<f64>> = vec![vec![], vec![1.5], vec![0.5, 2.5], vec![3.5]];
    let res = util::par_map(signal_cases.len() as u64, signal_cases.len(), |i| {
        util::catch(|| server_wait(&ctx.scratch.join(format!("server-{i}")), &signal_cases[i as usize])).unwrap_or_else(|p| Err(("panic".into(), p)))
    });
    for (i, r) in res.into_iter().enumerate() {
        rep.evaluations += 1;
        if !signal_cases[i].is_empty() { rep.nontrivial += 1 }
        match r {
            Ok(o) => rep.outcome(o),
            Err((class, msg)) if class == "harness" => { eprintln!("machinery error: {msg}"); std::process::exit(2) }
            Err((class, msg)) => {
                rep.outcome(format!("VIOLATION:{class}"));
                rep.violation(format!("schedule:{class}:server"), msg, json!({"server_signals": signal_cases[i]}));
            }
        }
    }
    rep.sample(json!({"refresh": 100, "min": 10, "expiry": 50, "meaning": "data expires 50 s from now: next run in 50 s"}));
    rep.assumptions.push("the data set's refresh deadline is set through the cfg-only verif_push_point (same field real objects' expiry ends up in); real clock, interval oracle with 2 ms slack".into());
    rep
}

pub fn replay(_ctx: &Ctx, v: &Value) -> Report {
    let mut rep = Report::new("exploration");
    if let Some(sig) = v["server_signals"].as_array() {
        let at: Vec<f64> = sig.iter().filter_map(|x| x.as_f64()).collect();
        let r = server_wait(&_ctx.scratch.join("replay-server"), &at);
        println!("server waits with SIGUSR2 at {at:?}: {r:?}");
        if let Err((class, msg)) = r { rep.violation(format!("schedule:{class}:server"), msg, v.clone()); }
        rep.evaluations = 1; rep.nontrivial = 2;
        rep.sample(v.clone());
        return rep
    }
    let c = Case { refresh: v["refresh"].as_u64().unwrap_or(1), min: v["min"].as_u64(), expiry: v["expiry"].as_i64(), others: v["others"].as_u64().unwrap_or(0) as u8 };
    let r = run_case(&c);
    println!("{c:?}: {r:?}");
    if let Err((class, msg)) = r {
        rep.violation(format!("schedule:{class}:min={}", if c.min.is_some() { "set" } else { "unset" }), msg, v.clone());
    }
    rep.evaluations = 1; rep.nontrivial = 2;
    rep.sample(v.clone());
    rep
}
