//! C34 Next-run scheduling respects refresh and min-refresh.
//!
//! Complete grid of refresh x min-refresh x data-set expiry; the data set
//! (with its refresh deadline) is installed through the real
//! `SharedHistory::update`, then `mark_update_done` and `refresh_wait` are
//! observed with bracketing clocks.

use std::time::{Duration, SystemTime, UNIX_EPOCH};
use routinator::payload::SharedHistory;
use rpki::repository::x509::Time;
use serde_json::{json, Value};
use crate::data;
use crate::report::{Ctx, Report};
use crate::util;

#[derive(Clone, Debug)]
pub struct Case { refresh: u64, min: Option<u64>, expiry: Option<i64> }

fn cases(thorough: bool) -> Vec<Case> {
    let refreshes: &[u64] = if thorough { &[1, 2, 10, 100, 600, 86400] } else { &[1, 10, 100, 600] };
    let mins: &[Option<u64>] = if thorough { &[None, Some(1), Some(2), Some(10), Some(100), Some(600), Some(86400)] }
        else { &[None, Some(1), Some(10), Some(100), Some(600)] };
    let exps: &[Option<i64>] = if thorough {
        &[None, Some(-5), Some(0), Some(1), Some(2), Some(5), Some(9), Some(10), Some(11), Some(50), Some(99), Some(100), Some(101), Some(500), Some(599), Some(600), Some(601), Some(1000), Some(100000)]
    } else {
        &[None, Some(-5), Some(0), Some(5), Some(10), Some(50), Some(100), Some(500), Some(1000)]
    };
    let mut res = Vec::new();
    for r in refreshes { for m in mins { for e in exps {
        res.push(Case { refresh: *r, min: *m, expiry: *e });
    }}}
    res
}

fn unix(t: SystemTime) -> f64 { t.duration_since(UNIX_EPOCH).unwrap().as_secs_f64() }

fn run_case(c: &Case) -> Result<String, (String, String)> {
    let mut config = data::mem_config();
    config.refresh = Duration::from_secs(c.refresh);
    config.min_refresh = c.min.map(Duration::from_secs);
    config.enable_aspa = true;
    let history = SharedHistory::from_config(&config);
    // The initial run already serves the same payload, with a far expiry
    // when the run under test carries one: the regular run then changes
    // nothing but the expiry.
    let tal = rpki::repository::tal::TalInfo::from_name("verif".into()).into_arc();
    let base = Time::now();
    let make = |expiry_abs: Option<i64>| {
        let report = routinator::payload::ValidationReport::new(&config);
        let mut metrics = routinator::metrics::Metrics::new();
        metrics.tals.push(routinator::metrics::TalMetrics::new(tal.clone()));
        if let Some(e) = expiry_abs {
            let not_after = Time::new(chrono::DateTime::from_timestamp(e, 0).unwrap());
            report.verif_push_point(
                tal.clone(), not_after, vec![data::origin_universe()[2]], Vec::new(),
                Vec::<(rpki::resources::Asn, Vec<rpki::resources::Asn>)>::new()
            );
        }
        (report, metrics)
    };
    let expiry_abs = c.expiry.map(|e| base.timestamp() + e);
    let (report, metrics) = make(expiry_abs.map(|_| base.timestamp() + 1_000_000));
    history.update(report, &data::exceptions_for(&data::history_sets()[1]), metrics);
    history.mark_update_done();
    // the regular run with the data set under test
    let (report, metrics) = make(expiry_abs);
    history.mark_update_start();
    history.update(report, &data::exceptions_for(&data::history_sets()[1]), metrics);
    let t0 = unix(SystemTime::now());
    history.mark_update_done();
    let wait = history.read().refresh_wait().as_secs_f64();
    let t1 = unix(SystemTime::now());
    let r = c.refresh as f64;
    let floor = c.min.unwrap_or(c.refresh) as f64;
    let ceil = r.max(c.min.unwrap_or(0) as f64);
    let desc = format!("refresh {} s, min-refresh {:?}, data set expiry {}", c.refresh, c.min,
        c.expiry.map(|e| format!("now{e:+} s")).unwrap_or("none".into()));
    const EPS: f64 = 0.002;
    if wait + EPS < floor {
        return Err(("below-minimum".into(), format!("{desc}: next run in {wait:.3} s, less than {floor} s")))
    }
    if wait > ceil + EPS {
        return Err(("above-maximum".into(), format!("{desc}: next run in {wait:.3} s, more than {ceil} s")))
    }
    if let (Some(m), Some(e)) = (c.min, expiry_abs) {
        let m = m as f64;
        let e = e as f64;
        // target = min(expiry, done + refresh), done in [t0, t1]; now in [t0, t1]
        let lo = m.max(e.min(t0 + r) - t1);
        let hi = m.max(e.min(t1 + r) - t0);
        if wait + EPS < lo || wait > hi + EPS {
            return Err((
                if wait > hi { "expiry-ignored" } else { "too-early" }.into(),
                format!("{desc}: next run in {wait:.3} s, expected between {lo:.3} and {hi:.3} s")
            ))
        }
        let class = if e - t1 < m { "expiry<min" } else if e - t0 < r { "expiry-brings-forward" } else { "expiry>=refresh" };
        return Ok(class.into())
    }
    Ok(if c.min.is_none() { "no-min:refresh".into() } else { "min:no-expiry".into() })
}

pub fn run(ctx: &Ctx) -> Report {
    util::quiet_panics();
    let mut rep = Report::new("exploration");
    let cases = cases(ctx.tier.thorough());
    rep.rule = "full grid refresh x min-refresh (unset and set) x expiry \
        of the installed data set (none, already past, now, and values \
        below / at / above min-refresh and refresh); an initial run \
        serving the same payload with a far expiry, then a regular run \
        installing the data set (same payload, the expiry under test) through \
        SharedHistory::update, mark_update_done, refresh_wait; oracle \
        (bracketing wall clocks): wait >= min-refresh (or refresh), wait \
        <= max(refresh, min-refresh), and with min-refresh set wait == \
        max(min-refresh, min(expiry, done + refresh) - now); non-trivial \
        = cases with min-refresh and an expiry before done + refresh".into();
    rep.bound = format!("{} grid points (complete product)", cases.len());
    for c in &cases {
        rep.evaluations += 1;
        match util::catch(|| run_case(c)).unwrap_or_else(|p| Err(("panic".into(), p))) {
            Ok(o) => {
                if o == "expiry-brings-forward" || o == "expiry<min" { rep.nontrivial += 1 }
                rep.outcome(o)
            }
            Err((class, msg)) => {
                rep.outcome(format!("VIOLATION:{class}"));
                rep.violation(format!("schedule:{class}:min={}", if c.min.is_some() { "set" } else { "unset" }), msg,
                    json!({"refresh": c.refresh, "min": c.min, "expiry": c.expiry}));
            }
        }
    }
    rep.sample(json!({"refresh": 100, "min": 10, "expiry": 50, "meaning": "data expires 50 s from now: next run in 50 s"}));
    rep.assumptions.push("the data set's refresh deadline is set through the cfg-only verif_push_point (same field real objects' expiry ends up in); real clock, interval oracle with 2 ms slack".into());
    rep
}

pub fn replay(_ctx: &Ctx, v: &Value) -> Report {
    let mut rep = Report::new("exploration");
    let c = Case { refresh: v["refresh"].as_u64().unwrap_or(1), min: v["min"].as_u64(), expiry: v["expiry"].as_i64() };
    let r = run_case(&c);
    println!("{c:?}: {r:?}");
    if let Err((class, msg)) = r {
        rep.violation(format!("schedule:{class}:min={}", if c.min.is_some() { "set" } else { "unset" }), msg, v.clone());
    }
    rep.evaluations = 1; rep.nontrivial = 2;
    rep.sample(v.clone());
    rep
}
