//! C26 The object archive behaves like a map and stays consistent.
//!
//! Explicit-state BFS: a state is the complete archive file (with one fixed
//! hash key for the whole exploration) plus the reference map; every
//! transition writes the state to a fresh file, opens it with the real
//! `Archive`, applies one operation and reads the file back. States are
//! deduplicated on the file content (the archive's future behaviour is a
//! function of the file content only).

use std::collections::{BTreeMap, HashMap, HashSet};
use std::hash::Hasher;
use std::path::{Path, PathBuf};
use std::fs;
use routinator::utils::archive::{
    AccessError, Archive, ArchiveError, FetchError, ObjectMeta, PublishError,
    StorageRead, StorageWrite,
};
use serde_json::{json, Value};
use crate::report::{Ctx, Report};
use crate::util;

const MAGIC_LEN: usize = 6;
const BUCKETS: usize = 1024;
const INDEX_START: usize = MAGIC_LEN + 16 + 8;
const BODY_START: usize = INDEX_START + (BUCKETS + 1) * 8;
const HEADER: usize = 8 + 8 + 1 + 8 + 8;
const PAGE: u64 = 256;

#[derive(Clone, Copy, Debug, Eq, PartialEq)]
pub struct Meta(pub u32);

impl ObjectMeta for Meta {
    const SIZE: usize = 4;
    type ConsistencyError = u32;

    fn write(&self, write: &mut StorageWrite) -> Result<(), ArchiveError> {
        write.write(&self.0.to_be_bytes())
    }

    fn read(read: &mut StorageRead) -> Result<Self, ArchiveError> {
        Ok(Meta(u32::from_be_bytes(read.read_array()?)))
    }
}

const SIZES: [usize; 5] = [1, 256 - HEADER - 2 - 4, 256 - HEADER - 2 - 4 + 1, 512 - HEADER - 2 - 4, 768 - HEADER - 2 - 4];

#[derive(Clone, Copy, Debug, Eq, Hash, PartialEq)]
pub enum Op {
    Publish(usize, usize),
    Update(usize, usize, bool),
    Delete(usize, bool),
    Fetch(usize),
    FetchIf(usize, bool),
    Reopen,
}

pub fn alphabet(names: usize) -> Vec<Op> {
    let mut res = Vec::new();
    for n in 0..names { res.push(Op::Fetch(n)); }
    for n in 0..names { for s in 0..SIZES.len() { res.push(Op::Publish(n, s)); } }
    for n in 0..names { res.push(Op::Delete(n, true)); }
    for n in 0..names { for s in 0..SIZES.len() { res.push(Op::Update(n, s, true)); } }
    for n in 0..names { res.push(Op::FetchIf(n, true)); res.push(Op::FetchIf(n, false)); }
    for n in 0..names { res.push(Op::Delete(n, false)); res.push(Op::Update(n, 0, false)); }
    res.push(Op::Reopen);
    res
}

fn content(name: usize, size: usize) -> (Meta, Vec<u8>) {
    (Meta(0xA000 + (name as u32) * 16 + size as u32),
     vec![0x40 + (name as u8) * 8 + size as u8; SIZES[size]])
}

/// The reference model.
pub type Model = BTreeMap<usize, usize>; // name -> size class

//------------ Independent file parser ---------------------------------------

#[derive(Clone, Debug, Eq, Hash, PartialEq)]
struct Tile { start: u64, size: u64, empty: bool, name: Vec<u8>, data_len: usize, next: u64 }

fn u64_at(b: &[u8], pos: usize) -> Option<u64> {
    Some(u64::from_ne_bytes(b.get(pos..pos + 8)?.try_into().ok()?))
}

fn parse_tile(b: &[u8], start: u64) -> Option<Tile> {
    let p = start as usize;
    let size = u64_at(b, p)?;
    let next = u64_at(b, p + 8)?;
    let empty = match *b.get(p + 16)? { 0 => false, 1 => true, _ => return None };
    let name_len = u64_at(b, p + 17)? as usize;
    let data_len = u64_at(b, p + 25)? as usize;
    let name = b.get(p + HEADER..p + HEADER + name_len)?.to_vec();
    Some(Tile { start, size, empty, name, data_len, next })
}

fn bucket_of(key: &[u8; 16], name: &[u8]) -> u64 {
    let mut h = siphasher::sip::SipHasher24::new_with_key(key);
    h.write(name);
    h.finish() % BUCKETS as u64
}

/// Independent consistency check: index + chains + exact tiling.
fn tiling(b: &[u8], model: &Model, names: &[Vec<u8>]) -> Result<Vec<Tile>, String> {
    if b.len() < BODY_START { return Err("file shorter than header+index".into()) }
    let key: [u8; 16] = b[MAGIC_LEN..MAGIC_LEN + 16].try_into().unwrap();
    let mut tiles: Vec<Tile> = Vec::new();
    let mut seen = HashSet::new();
    for bucket in 0..=BUCKETS {
        let mut pos = u64_at(b, INDEX_START + bucket * 8).unwrap();
        let mut steps = 0;
        while pos != 0 {
            steps += 1;
            if steps > 1000 { return Err(format!("cycle in chain of bucket {bucket}")) }
            let t = parse_tile(b, pos).ok_or_else(|| format!("unreadable object at {pos}"))?;
            if !seen.insert(pos) { return Err(format!("object at {pos} linked twice")) }
            if bucket == BUCKETS {
                if !t.empty { return Err(format!("non-empty object at {pos} in the empty chain")) }
            }
            else {
                if t.empty { return Err(format!("empty object at {pos} in bucket {bucket}")) }
                if bucket_of(&key, &t.name) != bucket as u64 {
                    return Err(format!("object at {pos} in wrong bucket"))
                }
                let min = (HEADER + t.name.len() + 4 + t.data_len) as u64;
                if t.size < min || t.size != min.next_multiple_of(PAGE) {
                    return Err(format!("object at {pos}: size {} for minimal size {min}", t.size))
                }
            }
            pos = t.next;
            tiles.push(t);
        }
    }
    tiles.sort_by_key(|t| t.start);
    let mut at = BODY_START as u64;
    for t in &tiles {
        if t.start != at {
            return Err(format!("gap or overlap: expected object at {at}, found {}", t.start))
        }
        if t.size < HEADER as u64 { return Err(format!("object at {at} smaller than a header")) }
        at += t.size;
    }
    if at != b.len() as u64 {
        return Err(format!("objects end at {at} but file length is {}", b.len()))
    }
    // live objects are exactly the model
    let live: Vec<&Tile> = tiles.iter().filter(|t| !t.empty).collect();
    if live.len() != model.len() {
        return Err(format!("{} live objects, model has {}", live.len(), model.len()))
    }
    for (n, s) in model {
        let (meta, data) = content(*n, *s);
        let t = live.iter().find(|t| t.name == names[*n]).ok_or("model name missing in file")?;
        let p = t.start as usize + HEADER + t.name.len();
        if b[p..p + 4] != meta.0.to_be_bytes() || b[p + 4..p + 4 + t.data_len] != data[..] {
            return Err(format!("stored bytes of name {n} differ from the model"))
        }
    }
    Ok(tiles)
}

//------------ Exploration ---------------------------------------------------

struct Env { names: Vec<Vec<u8>>, scratch: PathBuf, crumb: Option<PathBuf> }

/// Applies `op`; returns an observation string or a violation.
fn apply(
    env: &Env, path: &Path, model: &mut Model, op: Op
) -> Result<String, (String, String)> {
    let mut ar: Archive<Meta> = Archive::open(path, true).map_err(|e| {
        ("open".to_string(), format!("cannot open archive: {e}"))
    })?;
    apply_on(env, &mut ar, model, op)
}

fn apply_on(
    env: &Env, ar: &mut Archive<Meta>, model: &mut Model, op: Op
) -> Result<String, (String, String)> {
    let v = |class: &str, msg: String| (class.to_string(), msg);
    let obs = match op {
        Op::Publish(n, s) => {
            let (meta, data) = content(n, s);
            let r = ar.publish(&env.names[n], &meta, &data);
            match (model.contains_key(&n), r) {
                (true, Err(PublishError::AlreadyExists)) => "publish:exists",
                (false, Ok(())) => { model.insert(n, s); "publish:ok" }
                (have, r) => return Err(v("publish", format!("publish with name present={have} returned {r:?}")))
            }
        }
        Op::Update(n, s, accept) => {
            let (meta, data) = content(n, s);
            let expect_meta = model.get(&n).map(|os| content(n, *os).0);
            let mut seen = None;
            let r = ar.update(&env.names[n], &meta, &data, |m| {
                seen = Some(*m);
                if accept { Ok(()) } else { Err(7) }
            });
            if seen.is_some() && seen != expect_meta {
                return Err(v("update-meta", format!("check closure saw {seen:?}, model {expect_meta:?}")))
            }
            match (model.contains_key(&n), accept, r) {
                (false, _, Err(AccessError::NotFound)) => "update:notfound",
                (true, false, Err(AccessError::Inconsistent(7))) => "update:rejected",
                (true, true, Ok(())) => { model.insert(n, s); "update:ok" }
                (have, _, r) => return Err(v("update", format!("update with name present={have} accept={accept} returned {r:?}")))
            }
        }
        Op::Delete(n, accept) => {
            let expect_meta = model.get(&n).map(|os| content(n, *os).0);
            let mut seen = None;
            let r = ar.delete(&env.names[n], |m| {
                seen = Some(*m);
                if accept { Ok(()) } else { Err(7) }
            });
            if seen.is_some() && seen != expect_meta {
                return Err(v("delete-meta", format!("check closure saw {seen:?}, model {expect_meta:?}")))
            }
            match (model.contains_key(&n), accept, r) {
                (false, _, Err(AccessError::NotFound)) => "delete:notfound",
                (true, false, Err(AccessError::Inconsistent(7))) => "delete:rejected",
                (true, true, Ok(())) => { model.remove(&n); "delete:ok" }
                (have, _, r) => return Err(v("delete", format!("delete with name present={have} accept={accept} returned {r:?}")))
            }
        }
        Op::Fetch(n) => {
            match (model.get(&n), ar.fetch(&env.names[n])) {
                (None, Err(FetchError::NotFound)) => "fetch:notfound",
                (Some(s), Ok(d)) if d.as_ref() == &content(n, *s).1[..] => "fetch:ok",
                (m, r) => return Err(v("fetch", format!("fetch with model {m:?} returned {:?}", r.map(|d| d.len()))))
            }
        }
        Op::FetchIf(n, accept) => {
            let expect_meta = model.get(&n).map(|os| content(n, *os).0);
            let mut seen = None;
            let r = ar.fetch_if(&env.names[n], |m| {
                seen = Some(*m);
                if accept { Ok(()) } else { Err(7) }
            });
            if seen.is_some() && seen != expect_meta {
                return Err(v("fetch-if-meta", format!("check closure saw {seen:?}, model {expect_meta:?}")))
            }
            match (model.get(&n), accept, r) {
                (None, _, Err(AccessError::NotFound)) => "fetch_if:notfound",
                (Some(_), false, Err(AccessError::Inconsistent(7))) => "fetch_if:rejected",
                (Some(s), true, Ok(d)) if d.as_ref() == &content(n, *s).1[..] => "fetch_if:ok",
                (m, _, r) => return Err(v("fetch_if", format!("fetch_if with model {m:?} accept={accept} returned {:?}", r.map(|d| d.len()))))
            }
        }
        Op::Reopen => "reopen",
    };
    // After every operation: the archive's own verify, the listing, and
    // every name fetched.
    ar.verify().map_err(|e| v("verify", format!("verify() fails after {op:?}: {e}")))?;
    let mut listed: HashMap<Vec<u8>, (Meta, Vec<u8>)> = HashMap::new();
    for item in ar.objects().map_err(|e| v("objects", format!("{e}")))? {
        let (name, meta, data) = item.map_err(|e| v("objects", format!("{e}")))?;
        if listed.insert(name.to_vec(), (meta, data.to_vec())).is_some() {
            return Err(v("objects-dup", "objects() lists a name twice".into()))
        }
    }
    if listed.len() != model.len() {
        return Err(v("objects-len", format!("objects() lists {} items, model has {}", listed.len(), model.len())))
    }
    for (n, s) in model.iter() {
        let (meta, data) = content(*n, *s);
        if listed.get(&env.names[*n]) != Some(&(meta, data)) {
            return Err(v("objects-content", format!("objects() content of name {n} differs")))
        }
    }
    Ok(obs.to_string())
}

fn write_state(path: &Path, bytes: &[u8]) {
    // Overwrite in place (no truncation: keeps the pages allocated).
    use std::io::Write;
    let mut f = fs::OpenOptions::new().write(true).create(true).truncate(false)
        .open(path).expect("open state file");
    f.write_all(bytes).expect("write state file");
    f.set_len(bytes.len() as u64).expect("set_len state file");
}

/// Returns (names, initial file bytes).
fn setup(scratch: &Path) -> (Vec<Vec<u8>>, Vec<u8>) {
    let path = scratch.join("init.bin");
    let _ = fs::remove_file(&path);
    drop(Archive::<Meta>::create(&path).expect("create archive"));
    let bytes = fs::read(&path).unwrap();
    let key: [u8; 16] = bytes[MAGIC_LEN..MAGIC_LEN + 16].try_into().unwrap();
    // name 0: alone in its bucket; names 1 and 2 share a bucket
    let cands: Vec<Vec<u8>> = (0..4000u32).map(|i| format!("{:02}", i).into_bytes())
        .filter(|n| n.len() == 2).collect();
    let cands: Vec<Vec<u8>> = if cands.len() > 50 { cands } else {
        (0..=255u8).flat_map(|a| (b'a'..=b'z').map(move |b| vec![a, b])).collect()
    };
    let mut by_bucket: HashMap<u64, Vec<Vec<u8>>> = HashMap::new();
    for c in &cands { by_bucket.entry(bucket_of(&key, c)).or_default().push(c.clone()); }
    let mut pair = None;
    for c in &cands {
        let v = &by_bucket[&bucket_of(&key, c)];
        if v.len() >= 2 { pair = Some((v[0].clone(), v[1].clone())); break }
    }
    let (x, y) = pair.expect("no colliding names found");
    let a = cands.iter().find(|c| bucket_of(&key, c) != bucket_of(&key, &x)).unwrap().clone();
    (vec![a, x, y], bytes)
}

fn canon_sample(tiles: &[Tile], names: &[Vec<u8>]) -> Vec<String> {
    tiles.iter().map(|t| {
        if t.empty { format!("empty[{}]", t.size) }
        else {
            let n = names.iter().position(|n| *n == t.name).unwrap();
            format!("{}[{} data {}]", ["a", "x", "y"][n], t.size, t.data_len)
        }
    }).collect()
}

// Only the body after the index and the non-zero index entries vary;
// states are stored compactly: non-zero index entries + body.
fn compact(b: &[u8]) -> Vec<u8> {
    let mut res = Vec::new();
    for i in 0..=BUCKETS {
        let v = &b[INDEX_START + i * 8..INDEX_START + i * 8 + 8];
        if v != [0u8; 8] { res.extend_from_slice(&(i as u16).to_be_bytes()); res.extend_from_slice(v); }
    }
    res.extend_from_slice(&[0xff, 0xff]);
    res.extend_from_slice(&b[BODY_START..]);
    res
}

fn expand(header: &[u8], c: &[u8]) -> Vec<u8> {
    let mut res = header[..INDEX_START].to_vec();
    res.resize(BODY_START, 0);
    let mut p = 0;
    loop {
        let i = u16::from_be_bytes([c[p], c[p + 1]]) as usize;
        p += 2;
        if i == 0xffff { break }
        res[INDEX_START + i * 8..INDEX_START + i * 8 + 8].copy_from_slice(&c[p..p + 8]);
        p += 8;
    }
    res.extend_from_slice(&c[p..]);
    res
}

#[derive(Clone, Debug)]
struct State { bytes: Vec<u8>, model: Model, hist: Vec<u16> }

#[derive(Default)]
struct Expansion {
    transitions: u64,
    outcomes: BTreeMap<String, u64>,
    max_tiles: usize,
    max_file: usize,
    /// distinct successors (first history that reached them)
    succ: Vec<State>,
    violations: Vec<(String, String, Vec<u16>)>,
}

/// Expands a list of states with every operation (single-threaded: the
/// archive memory-maps its file and concurrent threads only fight for the
/// address space lock; parallelism is by process).
fn crumb(env: &Env, hist: &[u16], oi: usize) {
    if let Some(path) = env.crumb.as_ref() {
        let mut h: Vec<u16> = hist.to_vec();
        h.push(oi as u16);
        let _ = fs::write(path, serde_json::to_vec(&h).unwrap());
    }
}

fn expand_states(env: &Env, header: &[u8], states: &[State]) -> Expansion {
    let ops = alphabet(3);
    let mut ex = Expansion::default();
    let mut local: HashSet<(Vec<u8>, Model)> = HashSet::new();
    let path = env.scratch.join(format!("st-{}.bin", std::process::id()));
    for st in states {
        let bytes = expand(header, &st.bytes);
        // Operations that must not change anything (by the model) run on
        // one restored copy; the file is compared once afterwards.
        let mutating = |op: &Op| match op {
            Op::Publish(n, _) => !st.model.contains_key(n),
            Op::Update(n, _, true) | Op::Delete(n, true) => st.model.contains_key(n),
            _ => false
        };
        // pass 0: read-only operations on one open archive
        write_state(&path, &bytes);
        {
            let mut results = Vec::new();
            let opened = Archive::<Meta>::open(&path, true);
            match opened {
                Err(e) => results.push((0usize, Ok(Err(("open".to_string(), format!("cannot open archive: {e}")))))),
                Ok(mut ar) => {
                    for (oi, op) in ops.iter().enumerate() {
                        if mutating(op) { continue }
                        let mut m = st.model.clone();
                        crumb(env, &st.hist, oi);
                        let r = util::catch(|| apply_on(env, &mut ar, &mut m, *op));
                        let r = match r {
                            Ok(Ok(_)) if m != st.model => Ok(Err(("readonly-op-changed-model".to_string(), format!("{op:?}")))),
                            r => r
                        };
                        results.push((oi, r));
                    }
                }
            }
            let after = fs::read(&path).unwrap_or_default();
            let unchanged = after == bytes;
            let ntiles = tiling(&after, &st.model, &env.names);
            for (oi, r) in results {
                ex.transitions += 1;
                let mut h = st.hist.clone();
                h.push(oi as u16);
                let r = match r {
                    Err(p) => Err(("panic".to_string(), format!("{:?} panicked: {p}", ops[oi]))),
                    Ok(Err(e)) => Err(e),
                    Ok(Ok(obs)) => Ok(obs),
                };
                match r {
                    Ok(obs) => { *ex.outcomes.entry(obs).or_insert(0) += 1; }
                    Err((class, msg)) => {
                        *ex.outcomes.entry(format!("VIOLATION:{class}")).or_insert(0) += 1;
                        if ex.violations.len() < 20 { ex.violations.push((class, msg, h)); }
                    }
                }
            }
            if !unchanged || ntiles.is_err() {
                *ex.outcomes.entry("VIOLATION:readonly-ops-changed-file".into()).or_insert(0) += 1;
                ex.violations.push(("readonly-ops-changed-file".into(),
                    format!("operations that the model says change nothing changed the file ({:?})", ntiles.err()),
                    st.hist.clone()));
            }
        }
        // pass 1: mutating operations, each on a freshly restored file
        for (oi, op) in ops.iter().enumerate() {
            if !mutating(op) { continue }
            write_state(&path, &bytes);
            let mut m = st.model.clone();
            crumb(env, &st.hist, oi);
            let r = util::catch(|| apply(env, &path, &mut m, *op));
            ex.transitions += 1;
            let mut h = st.hist.clone();
            h.push(oi as u16);
            let after = fs::read(&path).unwrap_or_default();
            let r = match r {
                Err(p) => Err(("panic".to_string(), format!("{op:?} panicked: {p}"))),
                Ok(Err(e)) => Err(e),
                Ok(Ok(obs)) => match tiling(&after, &m, &env.names) {
                    Ok(tiles) => Ok((obs, tiles.len())),
                    Err(e) => Err(("tiling".to_string(), format!("after {op:?}: {e}"))),
                }
            };
            match r {
                Ok((obs, ntiles)) => {
                    *ex.outcomes.entry(obs).or_insert(0) += 1;
                    ex.max_tiles = ex.max_tiles.max(ntiles);
                    ex.max_file = ex.max_file.max(after.len());
                    let c = compact(&after);
                    if local.insert((c.clone(), m.clone())) {
                        ex.succ.push(State { bytes: c, model: m, hist: h });
                    }
                }
                Err((class, msg)) => {
                    *ex.outcomes.entry(format!("VIOLATION:{class}")).or_insert(0) += 1;
                    if ex.violations.len() < 20 { ex.violations.push((class, msg, h)); }
                }
            }
        }
    }
    let _ = fs::remove_file(&path);
    ex
}

//--- tiny binary (de)serialisation for worker processes

fn put(buf: &mut Vec<u8>, b: &[u8]) {
    buf.extend_from_slice(&(b.len() as u32).to_le_bytes());
    buf.extend_from_slice(b);
}

struct Rd<'a>(&'a [u8], usize);
impl<'a> Rd<'a> {
    fn get(&mut self) -> &'a [u8] {
        let n = u32::from_le_bytes(self.0[self.1..self.1 + 4].try_into().unwrap()) as usize;
        let r = &self.0[self.1 + 4..self.1 + 4 + n];
        self.1 += 4 + n;
        r
    }
    fn done(&self) -> bool { self.1 >= self.0.len() }
}

fn put_state(buf: &mut Vec<u8>, s: &State) {
    put(buf, &s.bytes);
    let m: Vec<u8> = s.model.iter().flat_map(|(k, v)| [*k as u8, *v as u8]).collect();
    put(buf, &m);
    let h: Vec<u8> = s.hist.iter().flat_map(|x| x.to_le_bytes()).collect();
    put(buf, &h);
}

fn get_state(rd: &mut Rd) -> State {
    let bytes = rd.get().to_vec();
    let model = rd.get().chunks(2).map(|c| (c[0] as usize, c[1] as usize)).collect();
    let hist = rd.get().chunks(2).map(|c| u16::from_le_bytes([c[0], c[1]])).collect();
    State { bytes, model, hist }
}

/// Worker entry point: `rtv --aux c26-expand <in> <out> <scratch>`.
pub fn aux_expand(args: &[String]) -> i32 {
    util::quiet_panics();
    let data = fs::read(&args[0]).expect("chunk file");
    let mut rd = Rd(&data, 0);
    let header = rd.get().to_vec();
    let names: Vec<Vec<u8>> = (0..3).map(|_| rd.get().to_vec()).collect();
    let mut states = Vec::new();
    while !rd.done() { states.push(get_state(&mut rd)); }
    // A corrupted archive may make the code under test loop or allocate
    // without bound: cap the address space so that this is a clean death
    // of this worker, which the parent reports with the breadcrumb.
    unsafe {
        let lim = libc::rlimit { rlim_cur: 6 << 30, rlim_max: 6 << 30 };
        libc::setrlimit(libc::RLIMIT_AS, &lim);
    }
    let env = Env {
        names, scratch: PathBuf::from(&args[2]),
        crumb: Some(PathBuf::from(format!("{}.crumb", args[1]))),
    };
    let ex = expand_states(&env, &header, &states);
    let mut out = Vec::new();
    put(&mut out, &ex.transitions.to_le_bytes());
    put(&mut out, &(ex.max_tiles as u64).to_le_bytes());
    put(&mut out, &(ex.max_file as u64).to_le_bytes());
    put(&mut out, serde_json::to_string(&ex.outcomes).unwrap().as_bytes());
    put(&mut out, serde_json::to_string(&ex.violations).unwrap().as_bytes());
    for s in &ex.succ { put_state(&mut out, s); }
    fs::write(&args[1], out).expect("write result");
    0
}

fn expand_parallel(env: &Env, header: &[u8], layer: &[State]) -> Expansion {
    // Always in worker processes: the code under test runs on archive
    // files it produced itself; if a change makes it loop or allocate
    // without bound on such a file, that must end one worker (address
    // space cap, wall cap), not the exploration.
    let workers: usize = std::env::var("C26_WORKERS").ok().and_then(|s| s.parse().ok()).unwrap_or(1);
    let workers = if layer.len() < 64 { 1 } else { workers.max(1) };
    let exe = std::env::current_exe().unwrap();
    let per = layer.len().div_ceil(workers).max(1);
    let mut children = Vec::new();
    for (w, chunk) in layer.chunks(per).enumerate() {
        let mut buf = Vec::new();
        put(&mut buf, header);
        for n in &env.names { put(&mut buf, n); }
        for s in chunk { put_state(&mut buf, s); }
        let inp = env.scratch.join(format!("chunk-{w}.in"));
        let outp = env.scratch.join(format!("chunk-{w}.out"));
        fs::write(&inp, buf).unwrap();
        let child = std::process::Command::new(&exe)
            .arg("--aux").arg("c26-expand").arg(&inp).arg(&outp).arg(&env.scratch)
            .spawn().expect("spawn worker");
        children.push((child, inp, outp, chunk.len()));
    }
    let mut total = Expansion::default();
    for (mut child, inp, outp, n) in children {
        // generous: 50 ms per state plus a minute
        let limit = std::time::Duration::from_millis(60_000 + 50 * n as u64);
        let started = std::time::Instant::now();
        let st = loop {
            match child.try_wait().unwrap() {
                Some(st) => break Some(st),
                None if started.elapsed() > limit => {
                    let _ = child.kill();
                    let _ = child.wait();
                    break None
                }
                None => std::thread::sleep(std::time::Duration::from_millis(20)),
            }
        };
        if st.map(|st| !st.success()).unwrap_or(true) {
            let crumb_path = PathBuf::from(format!("{}.crumb", outp.display()));
            let hist: Option<Vec<u16>> = fs::read(&crumb_path).ok()
                .and_then(|d| serde_json::from_slice(&d).ok());
            match hist {
                Some(h) => {
                    let (class, what) = match st {
                        None => ("hang", format!("did not finish within {limit:?}")),
                        Some(st) => ("crash", format!("worker died with {st} (address space capped at 6 GiB)")),
                    };
                    *total.outcomes.entry(format!("VIOLATION:{class}")).or_insert(0) += 1;
                    total.violations.push((class.into(), format!(
                        "the archive code {what} while executing the last operation of this sequence"
                    ), h));
                }
                None => {
                    eprintln!("machinery error: C26 worker died without a breadcrumb: {st:?}");
                    std::process::exit(2)
                }
            }
            continue
        }
        let data = fs::read(&outp).unwrap();
        let mut rd = Rd(&data, 0);
        total.transitions += u64::from_le_bytes(rd.get().try_into().unwrap());
        total.max_tiles = total.max_tiles.max(u64::from_le_bytes(rd.get().try_into().unwrap()) as usize);
        total.max_file = total.max_file.max(u64::from_le_bytes(rd.get().try_into().unwrap()) as usize);
        let o: BTreeMap<String, u64> = serde_json::from_slice(rd.get()).unwrap();
        for (k, v) in o { *total.outcomes.entry(k).or_insert(0) += v; }
        let v: Vec<(String, String, Vec<u16>)> = serde_json::from_slice(rd.get()).unwrap();
        total.violations.extend(v);
        while !rd.done() { total.succ.push(get_state(&mut rd)); }
        let _ = fs::remove_file(inp);
        let _ = fs::remove_file(outp);
    }
    total
}

/// Operation sequences whose end states are additional roots of the
/// search ("start from non-initial states too"): fragmented archives with
/// free blocks of different sizes in both free-list orders.
fn root_sequences() -> Vec<Vec<Op>> {
    let full = vec![Op::Publish(0, 4), Op::Publish(1, 1), Op::Publish(2, 3)];
    let mut r2 = full.clone(); r2.push(Op::Delete(2, true)); r2.push(Op::Delete(0, true));
    let mut r3 = full.clone(); r3.push(Op::Delete(0, true)); r3.push(Op::Delete(2, true));
    let chain = vec![Op::Publish(1, 3), Op::Publish(2, 4), Op::Publish(0, 1), Op::Delete(1, true)];
    vec![full, r2, r3, chain]
}

fn build_root(env: &Env, init: &[u8], seq: &[Op], ops: &[Op]) -> Result<State, String> {
    let path = env.scratch.join("root.bin");
    write_state(&path, init);
    let mut model = Model::new();
    let mut hist = Vec::new();
    for op in seq {
        let r = util::catch(|| apply(env, &path, &mut model, *op));
        match r {
            Ok(Ok(_)) => { }
            other => return Err(format!("{op:?}: {other:?}")),
        }
        hist.push(ops.iter().position(|o| o == op).expect("root op in alphabet") as u16);
    }
    let bytes = fs::read(&path).map_err(|e| e.to_string())?;
    tiling(&bytes, &model, &env.names).map_err(|e| format!("tiling of root: {e}"))?;
    Ok(State { bytes: compact(&bytes), model, hist })
}

fn key128(s: &State) -> (u64, u64) {
    use std::hash::Hash;
    let mut h1 = siphasher::sip::SipHasher24::new_with_keys(1, 2);
    let mut h2 = siphasher::sip::SipHasher24::new_with_keys(3, 4);
    s.bytes.hash(&mut h1); s.model.hash(&mut h1);
    s.bytes.hash(&mut h2); s.model.hash(&mut h2);
    (h1.finish(), h2.finish())
}

pub fn run(ctx: &Ctx) -> Report {
    util::quiet_panics();
    let mut rep = Report::new("model_checking");
    let max_depth = if ctx.tier.thorough() { 64 } else { 4 };
    let state_cap = if ctx.tier.thorough() { 6_000_000usize } else { 1_000_000 };
    let wall_cap = std::time::Duration::from_secs(if ctx.tier.thorough() { 900 } else { 45 });
    let started = std::time::Instant::now();
    let (names, init) = setup(&ctx.scratch);
    let ops = alphabet(3);
    rep.rule = format!("explicit-state BFS over archive files: names a (own \
        bucket), x and y (forced into one bucket by searching the archive's \
        SipHash key); data sizes {:?} (1 byte, exactly one page, one page \
        + 1, exactly two pages, exactly three pages; page = 256); roots: \
        the empty archive and four fragmented archives built by fixed \
        operation sequences (free blocks of different sizes in both \
        free-list orders, a shortened bucket chain); {} operations (publish, \
        update and delete with accepting and rejecting meta checks, fetch, \
        fetch_if, reopen); every transition runs the real Archive on a \
        file restored from the state; oracle = BTreeMap model for results \
        and errors, verify(), objects(), and an independent parser checking \
        bucket membership, chain shape and exact tiling of \
        [index end, file length); dedup key = 128-bit SipHash of (file \
        content with one fixed hash key for the whole run, model)", SIZES, ops.len());
    let env = Env { names: names.clone(), scratch: ctx.scratch.clone(), crumb: None };
    let header = init[..INDEX_START].to_vec();
    let mut seen: HashSet<(u64, u64)> = HashSet::new();
    let first = State { bytes: compact(&init), model: Model::new(), hist: Vec::new() };
    seen.insert(key128(&first));
    let mut frontier = vec![first];
    // Additional roots: states reached by fixed operation sequences. A
    // failure while building them is a violation with that sequence.
    for seq in root_sequences() {
        match build_root(&env, &init, &seq, &ops) {
            Ok(st) => { if seen.insert(key128(&st)) { frontier.push(st) } }
            Err(e) => {
                let h: Vec<u16> = seq.iter().map(|op| ops.iter().position(|o| o == op).unwrap() as u16).collect();
                rep.violation("archive:root", format!("root sequence {seq:?} fails: {e}"), json!({"ops": h}));
            }
        }
    }
    rep.extra.insert("roots".into(), json!(frontier.len()));
    let mut depth: usize = 0;
    let mut max_file = init.len();
    let mut max_tiles = 0usize;
    let mut capped: Option<String> = None;
    let mut fixpoint = false;
    while depth < max_depth {
        if frontier.is_empty() { fixpoint = true; break }
        if started.elapsed() > wall_cap {
            capped = Some(format!("wall cap {:?} reached before expanding depth {depth}", wall_cap));
            break
        }
        let ex = expand_parallel(&env, &header, &frontier);
        rep.transitions += ex.transitions;
        max_tiles = max_tiles.max(ex.max_tiles);
        max_file = max_file.max(ex.max_file);
        for (k, v) in ex.outcomes { *rep.outcomes.entry(k).or_insert(0) += v; }
        for (class, msg, h) in ex.violations {
            let seq: Vec<String> = h.iter().map(|i| format!("{:?}", ops[*i as usize])).collect();
            rep.violation(format!("archive:{class}"), format!("after {seq:?}: {msg}"), json!({"ops": h}));
        }
        let mut next = Vec::new();
        for s in ex.succ {
            if seen.len() >= state_cap {
                capped = Some(format!("state cap {state_cap} hit while collecting depth {}", depth + 1));
                break
            }
            if seen.insert(key128(&s)) { next.push(s); }
        }
        depth += 1;
        frontier = next;
        rep.extra.insert(format!("states_after_depth_{depth}"), json!(seen.len()));
        if !rep.violations.is_empty() || capped.is_some() { break }
    }
    if frontier.is_empty() && capped.is_none() { fixpoint = true; }
    rep.states = seen.len() as u64;
    rep.traces = rep.transitions;
    rep.evaluations = rep.transitions;
    rep.nontrivial = rep.outcomes.iter().filter(|(k, _)| k.ends_with(":ok")).map(|(_, v)| *v).sum();
    rep.bound = format!("BFS from {} roots: every operation sequence up to length {depth} from every root executed (all states at depth < {depth} fully expanded); {} distinct states; fixpoint reached: {fixpoint}", rep.extra.get("roots").and_then(|v| v.as_u64()).unwrap_or(1), seen.len());
    rep.capped = capped;
    rep.exhaustive = fixpoint;
    rep.extra.insert("depth_completed".into(), json!(depth));
    rep.extra.insert("fixpoint".into(), json!(fixpoint));
    rep.extra.insert("frontier_left".into(), json!(frontier.len()));
    rep.extra.insert("max_file_len".into(), json!(max_file));
    rep.extra.insert("max_tiles".into(), json!(max_tiles));
    for st in frontier.iter().take(2) {
        if let Ok(t) = tiling(&expand(&header, &st.bytes), &st.model, &names) {
            rep.sample(json!({"ops": st.hist.iter().map(|i| format!("{:?}", ops[*i as usize])).collect::<Vec<_>>(),
                "layout": canon_sample(&t, &names)}));
        }
    }
    rep.sample(json!({"ops": ["Publish(1, 3)", "Publish(2, 0)", "Delete(1, true)", "Publish(0, 1)"],
        "meaning": "two-page object x, colliding y, delete x leaves a 512 byte hole, a one-page object reuses half of it"}));
    rep.assumptions.push("one SipHash key for the whole exploration; names \
        chosen so that the collision structure (a alone; x,y together) is \
        the same in every run; state identity by 128-bit hash".into());
    rep
}

pub fn replay(ctx: &Ctx, v: &Value) -> Report {
    let mut rep = Report::new("model_checking");
    let (names, init) = setup(&ctx.scratch);
    let env = Env { names: names.clone(), scratch: ctx.scratch.clone(), crumb: None };
    let ops = alphabet(3);
    let path = ctx.scratch.join("replay.bin");
    fs::write(&path, &init).unwrap();
    let mut model = Model::new();
    for i in v["ops"].as_array().unwrap() {
        let op = ops[i.as_u64().unwrap() as usize];
        let r = util::catch(|| apply(&env, &path, &mut model, op));
        let after = fs::read(&path).unwrap();
        let t = tiling(&after, &model, &names);
        println!("{op:?}: {r:?}; layout {:?}", t.as_ref().map(|t| canon_sample(t, &names)));
        rep.transitions += 1;
        match (r, t) {
            (Err(p), _) => rep.violation("archive:panic", p, v.clone()),
            (Ok(Err((c, m))), _) => rep.violation(format!("archive:{c}"), m, v.clone()),
            (_, Err(e)) => rep.violation("archive:tiling", e, v.clone()),
            _ => { }
        }
    }
    rep.states = 1; rep.traces = 1; rep.evaluations = 1;
    rep.sample(v.clone());
    rep
}
