//! C36 RTR client metrics stay consistent under concurrent connections.
//!
//! E-SCHED: every thread sets up a real RTR connection the way the listener
//! does (`RtrStream::new` via the cfg-only `VerifConnection`), looks at the
//! registry, and closes it again. All interleavings of the lock-free
//! registry accesses and its write mutex up to a preemption bound.

use std::net::{IpAddr, Ipv4Addr, SocketAddr, TcpStream};
use std::sync::{Arc, Mutex, OnceLock};
use routinator::metrics::RtrServerMetrics;
use routinator::rtr::VerifConnection;
use serde_json::{json, Value};
use crate::report::{Ctx, Report};
use crate::sched::{self, Config, Execution, Sched, Verdict};
use crate::util;

fn runtime() -> &'static tokio::runtime::Runtime {
    static RT: OnceLock<tokio::runtime::Runtime> = OnceLock::new();
    RT.get_or_init(|| {
        tokio::runtime::Builder::new_multi_thread().worker_threads(1)
            .enable_all().build().expect("tokio runtime")
    })
}

fn ip(n: u8) -> IpAddr { IpAddr::V4(Ipv4Addr::new(192, 0, 2, n)) }

/// Address lists per scenario: the threads' client addresses.
fn scenarios(thorough: bool) -> Vec<(&'static str, Vec<u8>)> {
    let mut res = vec![
        ("AAB", vec![10, 10, 20]),
        ("ABC", vec![10, 20, 30]),
        ("CBA", vec![30, 20, 10]),
        ("AAA", vec![10, 10, 10]),
        ("BAB", vec![20, 10, 20]),
    ];
    // Addresses >= 100 mark connections whose set-up fails (a keepalive
    // time the kernel rejects): they must leave no trace in the counts.
    res.push(("AfA", vec![10, 110, 10]));
    res.push(("fB", vec![120, 20]));
    if thorough {
        res.push(("ACB", vec![10, 30, 20]));
        res.push(("BCA", vec![20, 30, 10]));
        res.push(("ABAB", vec![10, 20, 10, 20]));
    }
    res
}

/// Returns a fresh descriptor for the server end of a loopback connection.
///
/// One real connection is made per process and its server end duplicated
/// for every set-up (thousands of executions per second would otherwise
/// exhaust the ephemeral port range with sockets in TIME_WAIT).
fn socket_pair() -> ((), TcpStream) {
    static PAIR: OnceLock<(TcpStream, TcpStream)> = OnceLock::new();
    let pair = PAIR.get_or_init(crate::util::loopback_pair);
    ((), pair.1.try_clone().expect("dup socket"))
}

fn check_list(metrics: &RtrServerMetrics) -> Result<Vec<(IpAddr, usize)>, String> {
    let list = metrics.clients().ok_or("per-client metrics disabled")?;
    let mut res = Vec::new();
    for w in list.windows(2) {
        if w[0].0 >= w[1].0 {
            return Err(format!("client list not strictly sorted: {:?}",
                list.iter().map(|x| x.0).collect::<Vec<_>>()))
        }
    }
    for (a, d) in list.iter() { res.push((*a, d.current_connections())) }
    Ok(res)
}

fn body(sched: &Arc<Sched>, addrs: &[u8], pre: bool) -> (Execution, Verdict) {
    let metrics = Arc::new(RtrServerMetrics::new(true));
    let errors: Arc<Mutex<Vec<String>>> = Arc::new(Mutex::new(Vec::new()));
    if pre {
        // an already known address (existing entry path)
        let _g = runtime().enter();
        let (_c, s) = socket_pair();
        drop(VerifConnection::new(s, SocketAddr::new(ip(10), 1), None, &metrics));
    }
    for (i, a) in addrs.iter().enumerate() {
        let metrics = metrics.clone();
        let errors = errors.clone();
        let fails = *a >= 100;
        let addr = ip(*a % 100);
        sched.spawn(&format!("c{i}"), move || {
            let _g = runtime().enter();
            let (_client, server) = socket_pair();
            let keepalive = fails.then(|| std::time::Duration::from_secs(40000));
            let conn = match VerifConnection::new(
                server, SocketAddr::new(addr, 4000 + i as u16), keepalive, &metrics
            ) {
                Ok(_) if fails => {
                    errors.lock().unwrap().push("harness: set-up with an invalid keepalive time succeeded".into());
                    return
                }
                Ok(conn) => conn,
                Err(_) if fails => return,
                Err(err) => {
                    errors.lock().unwrap().push(format!("setup failed: {err}"));
                    return
                }
            };
            sched::point("conn.open");
            // While this connection is open its address must be listed
            // exactly once with at least one open connection.
            match check_list(&metrics) {
                Err(e) => errors.lock().unwrap().push(e),
                Ok(list) => {
                    let mine: Vec<_> = list.iter().filter(|x| x.0 == addr).collect();
                    if mine.len() != 1 {
                        errors.lock().unwrap().push(format!(
                            "address {addr} listed {} times while its connection is open", mine.len()
                        ));
                    }
                    else if mine[0].1 == 0 || mine[0].1 > 8 {
                        errors.lock().unwrap().push(format!(
                            "address {addr} has {} open connections in its listed entry while one is open",
                            mine[0].1 as isize
                        ));
                    }
                }
            }
            if metrics.global().current_connections() == 0 {
                errors.lock().unwrap().push("global open-connection count is 0 while a connection is open".into());
            }
            sched::point("conn.close");
            drop(conn);
        });
    }
    let exec = sched.run();
    let mut errs = errors.lock().unwrap().clone();
    if let Some(a) = exec.abort.as_ref() { errs.push(a.clone()) }
    for p in &exec.panics { errs.push(format!("panic: {p}")) }
    let mut outcome = String::new();
    if exec.abort.is_none() {
        match check_list(&metrics) {
            Err(e) => errs.push(e),
            Ok(list) => {
                let mut want: Vec<IpAddr> = addrs.iter().filter(|a| **a < 100).map(|a| ip(*a)).collect();
                if pre { want.push(ip(10)) }
                want.sort(); want.dedup();
                // an address whose only connections failed may or may not be listed
                let optional: Vec<IpAddr> = addrs.iter().filter(|a| **a >= 100).map(|a| ip(*a % 100)).collect();
                let have: Vec<IpAddr> = list.iter().map(|x| x.0).filter(|a| want.contains(a) || !optional.contains(a)).collect();
                if have != want {
                    errs.push(format!("final client list {have:?}, expected {want:?}"));
                }
                for (a, n) in &list {
                    if *n != 0 {
                        errs.push(format!("{a} has {} open connections after all closed", *n as isize));
                    }
                }
                outcome = format!("clients={}", list.len());
            }
        }
        let g = metrics.global().current_connections();
        if g != 0 { errs.push(format!("global open connections {} after all closed", g as isize)) }
    }
    let violation = errs.first().map(|e| {
        let class = if e.contains("not strictly sorted") { "unsorted-or-duplicate" }
            else if e.contains("final client list") || e.contains("listed 0 times") { "address-lost" }
            else if e.contains("open connections") || e.contains("open-connection") { "count" }
            else if e.starts_with("deadlock") { "deadlock" }
            else { "other" };
        (format!("rtr-metrics:{class}"), errs.join("; "))
    });
    (exec, Verdict { outcome: if violation.is_some() { "VIOLATION".into() } else { outcome }, violation })
}

pub fn run(ctx: &Ctx) -> Report {
    util::quiet_panics();
    let mut rep = Report::new("model_checking");
    // Bound 2 is always completed; thorough goes on to bound 3 under an
    // execution cap per scenario (reported when hit).
    let passes: Vec<(usize, u64)> = if ctx.tier.thorough() { vec![(2, 3_000_000), (3, 40_000)] } else { vec![(2, 3_000_000)] };
    let bound = passes.last().unwrap().0;
    let mut capped_in: Vec<String> = Vec::new();
    rep.rule = "2-4 threads each perform the listener's real connection \
        set-up (RtrStream::new on a real socket: registry lookup, \
        double-checked insert under the write mutex, connection count +1), \
        inspect the registry while open, and close (count -1); client \
        addresses per scenario as listed in `scenarios`, with and without \
        a previously known address; every interleaving of the scheduling \
        points (two registry loads, registry store, write mutex, open, \
        close) with at most `bound` preemptions; oracle: list strictly \
        sorted at all times, own address listed exactly once with a \
        positive count while open, final list == set of addresses, all \
        counts 0 after close".into();
    let mut samples = Vec::new();
    for (bound, max_execs) in passes.iter().copied() {
    let cfg = Config { bound, max_steps: 2000, max_execs, workers: util::cores().min(12) };
    for (name, addrs) in scenarios(ctx.tier.thorough()) {
        for pre in [false, true] {
            let stats = sched::explore(&cfg, |s| body(s, &addrs, pre));
            rep.transitions += stats.steps;
            rep.traces += stats.executions;
            rep.evaluations += stats.executions;
            rep.nontrivial += stats.by_preemptions.iter().filter(|(k, _)| **k > 0).map(|(_, v)| *v).sum::<u64>();
            for (k, v) in &stats.outcomes { *rep.outcomes.entry(format!("{name}:{k}")).or_insert(0) += v; }
            rep.states += stats.outcomes.len() as u64;
            rep.extra.insert(format!("executions_bound{bound}_{name}_{}", if pre { "known" } else { "fresh" }), json!(stats.executions));
            if stats.capped.is_some() { capped_in.push(format!("{name}/{}", if pre { "known" } else { "fresh" })) }
            if let Some(m) = stats.machinery {
                eprintln!("machinery error: {m}");
                std::process::exit(2)
            }
            if let Some(s) = stats.sample { if samples.len() < 3 { samples.push(json!({"scenario": name, "schedule": s})) } }
            if let Some(f) = stats.found.first() {
                if let Err(e) = sched::confirm(f, cfg.max_steps, |s| body(s, &addrs, pre)) {
                    eprintln!("machinery error: violation does not replay deterministically: {e}");
                    std::process::exit(2)
                }
                let mut r = sched::found_json(name, bound, f);
                r["pre"] = json!(pre);
                rep.violation(f.fingerprint.clone(), format!(
                    "scenario {name} (known address first: {pre}), {} preemptions: {}; schedule {:?}",
                    f.preemptions, f.message, f.labels
                ), r);
            }
        }
    }
    }
    for s in samples { rep.sample(s) }
    if capped_in.is_empty() {
        rep.bound = format!("preemption bound {bound}; all schedules within the bound executed");
    }
    else {
        rep.bound = format!("preemption bound 2: all schedules executed; bound 3: all schedules in the scenarios not listed as capped, the first 40000 in the others");
        rep.capped = Some(format!("bound 3: execution cap 40000 reached in {}", capped_in.join(", ")));
    }
    rep.assumptions.push("scheduling points at the registry's two loads, its store and its write mutex (hooks) and at open/close; the atomic counters are single RMW operations".into());
    rep
}

pub fn replay(_ctx: &Ctx, v: &Value) -> Report {
    util::quiet_panics();
    let mut rep = Report::new("model_checking");
    let name = v["harness"].as_str().unwrap_or("");
    let pre = v["pre"].as_bool().unwrap_or(false);
    let addrs = scenarios(true).into_iter().find(|s| s.0 == name).map(|s| s.1).unwrap_or_default();
    let choices: Vec<usize> = v["choices"].as_array().map(|a| a.iter().map(|x| x.as_u64().unwrap() as usize).collect()).unwrap_or_default();
    let (exec, verdict) = sched::replay(&choices, 2000, |s| body(s, &addrs, pre));
    for l in exec.labels() { println!("  {l}") }
    println!("abort: {:?}", exec.abort);
    rep.states = 1; rep.transitions = exec.points.len() as u64; rep.traces = 1; rep.evaluations = 1;
    if let Some((fp, msg)) = verdict.violation { rep.violation(fp, msg, v.clone()) }
    rep.sample(v.clone());
    rep
}
