//! C23 A crash at any point never corrupts the store or blocks later runs.
//!
//! E-CRASH on the real binary: an LD_PRELOAD shim raises a real SIGKILL on
//! entry to the N-th mutating libc call (write, open with O_CREAT/O_TRUNC,
//! rename, link, unlink, mkdir, rmdir, ftruncate) below the cache
//! directory, for every N of a validation run. Every crash state is then
//! handed to the recovery commands.

use std::collections::BTreeSet;
use std::fs;
use std::net::Ipv4Addr;
use std::os::unix::process::ExitStatusExt;
use std::path::{Path, PathBuf};
use std::process::{Command, Stdio};
use serde_json::{json, Value};
use crate::etree::Case;
use crate::report::{Ctx, Report};
use crate::rpkigen::{Builder, CaSpec, Fault, Gen, Image, ObjSpec, Stale, TalSpec, TreeSpec};
use crate::util;

const HOST_TA: &str = "ta.c23.example";
const HOST_CA: &str = "ca.c23.example";

fn bin() -> PathBuf {
    std::env::var_os("VERIF_BIN").map(PathBuf::from).unwrap_or_else(|| PathBuf::from("/verif/target-bin/release/routinator"))
}

fn shim() -> PathBuf {
    let verif = std::env::var_os("VERIF_DIR").map(PathBuf::from).unwrap_or_else(|| PathBuf::from("/verif"));
    verif.join("target").join("killpoint.so")
}

fn tree(version: u32, broken: bool) -> TreeSpec {
    let mut ta = CaSpec::new("ta0", 0, HOST_TA, "repo");
    ta.v4 = vec![(Ipv4Addr::new(10, 0, 0, 0), 8)];
    ta.asns = vec![(64496, 64600)];
    ta.mft_number = version as u64;
    ta.mft_this_update = -7200 + 600 * version as i64;
    ta.objs = vec![ObjSpec::roa(&format!("t{version}"), 64500 + version, &format!("10.0.{version}.0"), 24, 24)];
    let mut ca = CaSpec::new("ca1", 1, HOST_CA, "repo");
    ca.v4 = vec![(Ipv4Addr::new(10, 1, 0, 0), 16)];
    ca.asns = vec![(64510, 64530)];
    ca.mft_number = version as u64;
    ca.mft_this_update = -7200 + 600 * version as i64;
    let mut roa = ObjSpec::roa(&format!("c{version}"), 64510 + version, &format!("10.1.{version}.0"), 24, 24);
    let mut extra = ObjSpec::roa(&format!("d{version}"), 64520 + version, &format!("10.1.{}.0", 100 + version), 24, 24);
    if broken { extra.fault = Some(Fault::Missing); }
    let _ = &mut roa;
    ca.objs = vec![roa, extra];
    ta.children.push(ca);
    TreeSpec { tals: vec![TalSpec { name: "alpha".into(), ta_uri: format!("rsync://{HOST_TA}/repo/ta0.cer"), ca: ta, wrong_key: false, https_uri: None }] }
}

/// The CSV lines (without header) a version contributes: (TA lines, CA lines).
fn expected(version: u32) -> (BTreeSet<String>, BTreeSet<String>) {
    let ta: BTreeSet<String> = [format!("AS{},10.0.{version}.0/24,24,alpha", 64500 + version)].into();
    let ca: BTreeSet<String> = [
        format!("AS{},10.1.{version}.0/24,24,alpha", 64510 + version),
        format!("AS{},10.1.{}.0/24,24,alpha", 64520 + version, 100 + version),
    ].into();
    (ta, ca)
}

fn copy_tree(src: &Path, dst: &Path) {
    let _ = fs::remove_dir_all(dst);
    fs::create_dir_all(dst).unwrap();
    for e in fs::read_dir(src).unwrap() {
        let e = e.unwrap();
        let to = dst.join(e.file_name());
        if e.file_type().unwrap().is_dir() { copy_tree(&e.path(), &to) } else { fs::copy(e.path(), &to).unwrap(); }
    }
}

struct Env { case: Case, conf: PathBuf }

fn setup(dir: PathBuf, image: &Image) -> Env {
    let case = Case::new(dir);
    case.write_tals(image);
    let conf = case.dir.join("routinator.conf");
    let fakersync = std::env::current_exe().unwrap().with_file_name("fakersync");
    fs::write(&conf, format!(
        "repository-dir = \"{}\"\nno-rir-tals = true\nextra-tals-dir = \"{}\"\ndisable-rrdp = true\n\
         rsync-command = \"{}\"\nrsync-args = [\"{}\"]\nvalidation-threads = 1\n",
        case.dir.join("cache").display(), case.dir.join("tals").display(), fakersync.display(), case.dir.display()
    )).unwrap();
    Env { case, conf }
}

struct Outcome { code: Option<i32>, signal: Option<i32>, lines: BTreeSet<String>, stderr: String }

fn routinator(env: &Env, args: &[&str], kill_at: Option<(usize, bool)>, log: Option<&Path>) -> Outcome {
    let out = env.case.dir.join(format!("out-{}.csv", std::process::id()));
    let _ = fs::remove_file(&out);
    let mut c = Command::new(bin());
    c.arg("--config").arg(&env.conf);
    for a in args { if *a == "@OUT" { c.arg(&out); } else { c.arg(a); } }
    if kill_at.is_some() || log.is_some() {
        c.env("LD_PRELOAD", shim()).env("KILLPOINT_DIR", env.case.dir.join("cache")).env("KILLPOINT_EXE", "routinator")
            .env("KILLPOINT_AT", kill_at.map(|k| k.0).unwrap_or(0).to_string())
            .env("KILLPOINT_AFTER", if kill_at.map(|k| k.1).unwrap_or(false) { "1" } else { "0" });
        if let Some(l) = log { c.env("KILLPOINT_LOG", l); }
    }
    c.stdin(Stdio::null()).stdout(Stdio::null()).stderr(Stdio::piped());
    let o = c.output().expect("run routinator");
    let lines: BTreeSet<String> = fs::read_to_string(&out).unwrap_or_default().lines().skip(1).map(String::from).collect();
    let _ = fs::remove_file(&out);
    Outcome { code: o.status.code(), signal: o.status.signal(), lines, stderr: String::from_utf8_lossy(&o.stderr).into_owned() }
}

#[derive(Clone, Debug)]
struct History { name: &'static str, versions: Vec<(u32, bool)> }

fn histories(thorough: bool) -> Vec<History> {
    let _ = thorough;
    vec![
        History { name: "update-v1-to-v2", versions: vec![(1, false), (2, false)] },
        History { name: "first-run", versions: vec![(1, false)] },
        History { name: "after-abandoned-update", versions: vec![(1, false), (2, true), (3, false)] },
    ]
}

const RECOVERIES: [&str; 5] = ["vrps-noupdate", "vrps", "vrps-update-after", "update", "validate"];

fn run_history(gen: &Gen, scratch: &Path, h: &History, quick: bool, rep: &mut Report) {
    let images: Vec<Image> = h.versions.iter().map(|(v, b)| Builder::new(gen, Stale::Reject).build(&tree(*v, *b))).collect();
    let env = setup(scratch.join(format!("h-{}", h.name)), &images[0]);
    // uninterrupted prefix of the history
    for img in &images[..images.len() - 1] {
        env.case.publish(img);
        let o = routinator(&env, &["vrps", "-o", "@OUT"], None, None);
        if o.code != Some(0) { eprintln!("machinery error: preparing run of {} failed: {}", h.name, o.stderr); std::process::exit(2) }
    }
    env.case.publish(images.last().unwrap());
    let pre = scratch.join(format!("pre-{}", h.name));
    copy_tree(&env.case.dir.join("cache"), &pre);
    // dry run: count the mutating calls and get the uninterrupted result
    let log = scratch.join(format!("ops-{}.log", h.name));
    let _ = fs::remove_file(&log);
    let full = routinator(&env, &["vrps", "-o", "@OUT"], None, Some(&log));
    if full.code != Some(0) { eprintln!("machinery error: uninterrupted run of {} failed: {}", h.name, full.stderr); std::process::exit(2) }
    let ops: Vec<String> = fs::read_to_string(&log).unwrap_or_default().lines().map(String::from).collect();
    let m = ops.len();
    if m < 5 { eprintln!("machinery error: the kill shim counted only {m} calls (not loaded?)"); std::process::exit(2) }
    rep.extra.insert(format!("kill_points_{}", h.name), json!(m));
    rep.extra.insert(format!("kill_point_list_{}", h.name), json!(ops));
    // what complete versions look like
    let last_good = h.versions.iter().rev().skip(1).find(|v| !v.1).map(|v| v.0);
    let new_v = h.versions.last().unwrap().0;
    let (new_ta, new_ca) = expected(new_v);
    // The TA's own point is complete in every version; only the CA's
    // update is abandoned in a broken version.
    let prev_any = h.versions.iter().rev().nth(1).map(|v| v.0);
    let old_ta = prev_any.map(|v| expected(v).0).unwrap_or_default();
    let old_ca = last_good.map(|v| expected(v).1).unwrap_or_default();
    let want_full: BTreeSet<String> = new_ta.union(&new_ca).cloned().collect();
    if full.lines != want_full {
        eprintln!("machinery error: uninterrupted run of {} yields {:?}", h.name, full.lines); std::process::exit(2)
    }
    let recoveries: Vec<&str> = if quick { vec!["vrps-noupdate", "vrps", "vrps-update-after"] } else { RECOVERIES.to_vec() };
    // every counted call is a kill point twice: on entry, and right after
    // it returned (in front of operations the shim cannot see, such as the
    // rename that the temporary-file library makes by raw system call)
    let points: Vec<(usize, bool)> = (1..=m).flat_map(|n| [(n, false), (n, true)]).collect();
    let res = util::par_map(points.len() as u64, 12, |i| {
        let (n, after) = points[i as usize];
        let wdir = scratch.join(format!("k-{}-{n}-{after}", h.name));
        let wenv = Env { case: Case { dir: wdir.clone() }, conf: wdir.join("routinator.conf") };
        // a private copy of the case (remote data, TALs, config) with the pre-state cache
        let _ = fs::remove_dir_all(&wdir);
        fs::create_dir_all(&wdir).unwrap();
        for sub in ["remote", "tals"] { copy_tree(&env.case.dir.join(sub), &wdir.join(sub)); }
        copy_tree(&pre, &wdir.join("cache"));
        let conf = fs::read_to_string(&env.conf).unwrap().replace(&env.case.dir.display().to_string(), &wdir.display().to_string());
        fs::write(&wenv.conf, conf).unwrap();
        let killed = routinator(&wenv, &["vrps", "-o", "@OUT"], Some((n, after)), None);
        let mut out: Vec<(String, Result<String, (String, String)>)> = Vec::new();
        if killed.signal != Some(9) {
            out.push(("kill".into(), Ok(format!("not-killed:code={:?}", killed.code))));
            let _ = fs::remove_dir_all(&wdir);
            return (n, after, out)
        }
        let crash = wdir.join("crash-state");
        copy_tree(&wdir.join("cache"), &crash);
        for r in &recoveries {
            copy_tree(&crash, &wdir.join("cache"));
            let o = match *r {
                "vrps-noupdate" => routinator(&wenv, &["vrps", "--noupdate", "-o", "@OUT"], None, None),
                "vrps" => routinator(&wenv, &["vrps", "-o", "@OUT"], None, None),
                "vrps-update-after" => routinator(&wenv, &["vrps", "--update-after", "10", "-o", "@OUT"], None, None),
                "update" => routinator(&wenv, &["update"], None, None),
                _ => routinator(&wenv, &["validate", "--asn", &format!("{}", 64500 + new_v), "--prefix", &format!("10.0.{new_v}.0/24")], None, None),
            };
            let desc = format!("history {}, killed {} mutating call {n} of {m} ({}), then `{r}`", h.name, if after { "right after" } else { "on entry to" }, ops.get(n - 1).cloned().unwrap_or_default());
            let last_err = o.stderr.lines().filter(|l| l.contains("ERROR") || l.contains("panicked")).last().unwrap_or("").to_string();
            let verdict = if o.signal.is_some() {
                Err(("crashed".to_string(), format!("{desc}: died with signal {:?}; {last_err}", o.signal)))
            }
            else if o.code != Some(0) {
                Err(("command-fails".to_string(), format!("{desc}: exit status {:?}; {last_err}", o.code)))
            }
            else {
                // No run ever completed before the killed one: nothing
                // entitles `--update-after` to skip the update.
                let must_update = *r == "vrps" || (*r == "vrps-update-after" && h.versions.len() == 1);
                match *r {
                    _ if must_update => if o.lines == want_full { Ok("same-as-uninterrupted".to_string()) } else {
                        Err(("different-data".to_string(), format!("{desc}: output {:?}, an uninterrupted run gives {:?}", o.lines, want_full)))
                    },
                    "vrps-noupdate" | "vrps-update-after" => {
                        let ta: BTreeSet<String> = o.lines.iter().filter(|l| l.contains(",10.0.")).cloned().collect();
                        let ca: BTreeSet<String> = o.lines.iter().filter(|l| l.contains(",10.1.")).cloned().collect();
                        let ta_ok = ta == new_ta || ta == old_ta;
                        // without the TA's point nothing below can be reached
                        let ca_ok = ca == new_ca || ca == old_ca || (ta.is_empty() && ca.is_empty());
                        if ta_ok && ca_ok {
                            Ok(format!("ta={} ca={}", if ta == new_ta { "new" } else if ta.is_empty() { "none" } else { "old" }, if ca == new_ca { "new" } else if ca.is_empty() { "none" } else { "old" }))
                        }
                        else {
                            Err(("mixed-version".to_string(), format!("{desc}: output {:?} is neither the previous nor the new complete version of each publication point", o.lines)))
                        }
                    }
                    _ => Ok("exit-0".to_string()),
                }
            };
            out.push((r.to_string(), verdict));
        }
        let _ = fs::remove_dir_all(&wdir);
        (n, after, out)
    });
    for (n, after, out) in res {
        for (r, v) in out {
            rep.evaluations += 1;
            match v {
                Ok(o) => { if r != "kill" { rep.nontrivial += 1 } rep.outcome(format!("{}:{r}:{o}", h.name)) }
                Err((class, msg)) => {
                    rep.outcome(format!("VIOLATION:{class}"));
                    // operation kind and path of the kill point identify the finding
                    let op = ops.get(n - 1).map(|l| {
                        let mut it = l.splitn(3, ' ');
                        let _ = it.next();
                        let kind = it.next().unwrap_or("");
                        let path = it.next().unwrap_or("");
                        let file = path.rsplit('/').next().unwrap_or("");
                        let file = if file.len() > 20 || file.starts_with(".tmp") { "<tmp-or-hashed>" } else { file };
                        format!("{kind}:{file}")
                    }).unwrap_or_default();
                    rep.violation(format!("crash:{class}:{}:{}{op}:{r}", h.name, if after { "after-" } else { "" }), msg, json!({"history": h.name, "kill_at": n, "after": after, "recovery": r}));
                }
            }
        }
    }
}

pub fn run(ctx: &Ctx) -> Report {
    util::quiet_panics();
    let gen = Gen::load();
    let mut rep = Report::new("fault_enumeration");
    if !shim().exists() {
        eprintln!("machinery error: {} missing (run ./check --build)", shim().display());
        std::process::exit(2)
    }
    rep.rule = "the real routinator binary on a generated two-CA tree \
        served by the fake rsync; history: a complete run on version 1, \
        then the run that fetches version 2 is killed by SIGKILL on entry \
        to its N-th mutating libc call (write, creating open, rename, link, \
        unlink, mkdir, rmdir, ftruncate) below the cache directory, for \
        every N (thorough: also the very first run, and a run after an \
        abandoned update); every crash state is handed to `vrps \
        --noupdate`, `vrps`, `vrps --update-after 10` (thorough: also \
        `update`, `validate`); oracle: each exits 0; `vrps` yields exactly \
        the data of an uninterrupted run (so does --update-after when no \
        run had completed before the killed one); with --noupdate / --update-after \
        every publication point shows its previous or its new complete \
        version; non-trivial = recoveries after a kill that happened".into();
    for h in histories(ctx.tier.thorough()) {
        run_history(&gen, &ctx.scratch, &h, !ctx.tier.thorough(), &mut rep);
    }
    let total: u64 = rep.extra.iter().filter(|(k, _)| k.starts_with("kill_points_")).filter_map(|(_, v)| v.as_u64()).sum();
    rep.bound = format!("{} kill points (entry to and return from every one of the {total} mutating calls of the interrupted runs)", 2 * total);
    rep.sample(json!({"history": "update-v1-to-v2", "kill_at": 17, "recovery": "vrps-update-after"}));
    rep.assumptions.push("process kill, not power loss (the page cache survives); single validation thread so that the sequence of file-system calls is the same in every run; the shim counts only calls of the routinator process itself".into());
    rep
}

pub fn replay(ctx: &Ctx, v: &Value) -> Report {
    util::quiet_panics();
    let gen = Gen::load();
    let mut rep = Report::new("fault_enumeration");
    let name = v["history"].as_str().unwrap_or("");
    let Some(h) = histories(true).into_iter().find(|h| h.name == name) else { eprintln!("unknown history"); std::process::exit(2) };
    let mut tmp = Report::new("fault_enumeration");
    run_history(&gen, &ctx.scratch, &h, false, &mut tmp);
    let n = v["kill_at"].as_u64().unwrap_or(0);
    for x in tmp.violations {
        if x.replay["kill_at"].as_u64() == Some(n) {
            println!("{}", x.what);
            rep.violation(x.fingerprint, x.what, v.clone());
        }
    }
    rep.evaluations = 1; rep.nontrivial = 2;
    rep.sample(v.clone());
    rep
}
