//! C22 Status and metrics documents are always well-formed.

use std::str::FromStr;
use std::time::Duration;
use rpki::repository::tal::TalInfo;
use routinator::log::LogBookWriter;
use routinator::metrics::{
    Metrics, RepositoryMetrics, RrdpRepositoryMetrics, RsyncModuleMetrics, TalMetrics,
};
use routinator::payload::{SharedHistory, ValidationReport};
use routinator::slurm::LocalExceptions;
use serde_json::{json, Value};
use crate::data;
use crate::httpd::Httpd;
use crate::prom;
use crate::report::{Ctx, Report};
use crate::util;

struct AcceptAll;
impl log::Log for AcceptAll {
    fn enabled(&self, _: &log::Metadata) -> bool { true }
    fn log(&self, _: &log::Record) { }
    fn flush(&self) { }
}
static LOGGER: AcceptAll = AcceptAll;

pub fn install_logger() {
    let _ = log::set_logger(&LOGGER);
    log::set_max_level(log::LevelFilter::Trace);
}

fn book(msg: &str) -> routinator::log::LogBook {
    let mut w = LogBookWriter::new(None);
    w.warn(format_args!("{}", msg));
    w.error(format_args!("prefix {} suffix", msg));
    w.into_book()
}

#[derive(Clone, Debug)]
pub struct Case {
    pub tal: String,
    pub tal2: String,
    pub rsync_msg: String,
    pub rrdp_msg: String,
    pub point_msg: String,
    pub repo_uri: String,
    /// which variants the non-string fields of the metrics take (bit
    /// field, see `metrics_for`); 0 = the plain values
    pub shape: u32,
}

impl Case {
    fn base() -> Self {
        Case {
            tal: "ta".into(), tal2: "other".into(), rsync_msg: "rsync failed".into(),
            rrdp_msg: "rrdp failed".into(), point_msg: "manifest stale".into(),
            repo_uri: "rsync://example.net/repo/".into(),
            shape: 0,
        }
    }
    fn set(&mut self, pos: usize, s: &str) {
        match pos {
            0 => self.tal = s.into(), 1 => self.rsync_msg = s.into(),
            2 => self.rrdp_msg = s.into(), 3 => self.point_msg = s.into(),
            4 => self.repo_uri = s.into(), 5 => self.tal2 = s.into(),
            _ => unreachable!()
        }
    }
}

const POS: [&str; 6] = ["tal-name", "rsync-log", "rrdp-log", "pub-point-log", "repository-uri", "second-tal-name"];

fn metrics_for(c: &Case) -> Metrics {
    let mut m = Metrics::new();
    m.tals.push(TalMetrics::new(TalInfo::from_name(c.tal.clone()).into_arc()));
    m.tals.push(TalMetrics::new(TalInfo::from_name(c.tal2.clone()).into_arc()));
    m.repositories.push(RepositoryMetrics::new(c.repo_uri.clone()));
    m.repositories.push(RepositoryMetrics::new("https://rrdp.example.net/notify.xml".into()));
    // Variants of the structured fields, one bit each: every Result and
    // Option in both forms, every status kind.
    let bit = |n: u32| c.shape & (1 << n) != 0;
    let clock_went_back = || std::time::SystemTime::now().duration_since(
        std::time::SystemTime::now() + Duration::from_secs(3600)
    ).map(|_| Duration::from_secs(0));
    m.rsync.push(RsyncModuleMetrics {
        module: rpki::uri::Rsync::from_str("rsync://example.net/repo/").unwrap(),
        status: if bit(0) {
            Ok(std::os::unix::process::ExitStatusExt::from_raw(if bit(1) { 0 } else { 256 }))
        } else { Err(std::io::Error::other(c.rsync_msg.clone())) },
        duration: if bit(2) { clock_went_back() } else { Ok(Duration::from_secs(1)) },
        log_book: Some(book(&c.rsync_msg)),
    });
    m.rsync.push(RsyncModuleMetrics {
        module: rpki::uri::Rsync::from_str("rsync://example.org/other/").unwrap(),
        status: Ok(std::os::unix::process::ExitStatusExt::from_raw(0)),
        duration: Ok(Duration::from_secs(2)),
        log_book: None,
    });
    // three RRDP repositories; the variants go to the middle one, so that
    // whatever it leaves unfinished is followed by more output
    for (i, uri) in ["https://rrdp.example.net/notify.xml", "https://rrdp.example.org/n.xml", "https://rrdp.example.com/n.xml"].iter().enumerate() {
        let mut rrdp = RrdpRepositoryMetrics::new(rpki::uri::Https::from_str(uri).unwrap());
        if i == 0 { rrdp.log_book = Some(book(&c.rrdp_msg)); }
        if i == 1 {
            use routinator::collector::{HttpStatus, SnapshotReason};
            rrdp.notify_status = match (bit(3), bit(4)) {
                (false, false) => HttpStatus::Error,
                (false, true) => HttpStatus::Rejected,
                (true, false) => HttpStatus::Response(hyper::StatusCode::OK),
                (true, true) => HttpStatus::Response(hyper::StatusCode::NOT_MODIFIED),
            };
            if bit(5) { rrdp.session = Some(uuid::Uuid::from_u128(0x0123456789abcdef0123456789abcdef)); rrdp.serial = Some(u64::MAX); }
            if bit(6) { rrdp.snapshot_reason = Some(if bit(7) { SnapshotReason::CorruptArchive } else { SnapshotReason::NewRepository }); }
            if bit(7) { rrdp.payload_status = Some(if bit(6) { HttpStatus::Response(hyper::StatusCode::INTERNAL_SERVER_ERROR) } else { HttpStatus::Error }); }
            if bit(8) { rrdp.duration = clock_went_back(); }
        }
        m.rrdp.push(rrdp);
    }
    m.pub_point_logs.push((
        rpki::uri::Rsync::from_str("rsync://example.net/repo/ca/").unwrap(),
        book(&c.point_msg)
    ));
    m
}

fn contains_str(v: &Value, s: &str) -> bool {
    match v {
        Value::String(x) => x.contains(s),
        Value::Array(a) => a.iter().any(|x| contains_str(x, s)),
        Value::Object(o) => o.iter().any(|(k, x)| k.contains(s) || contains_str(x, s)),
        _ => false
    }
}

pub fn check_case(c: &Case) -> Result<(), (String, String)> {
    let config = data::mem_config();
    let history = SharedHistory::from_config(&config);
    let mut ds = data::DataSet::default();
    ds.origins.insert(data::v4(10, 0, 0, 0, 8, 8, 1));
    history.update(
        ValidationReport::new(&config), &data::exceptions_for(&ds), metrics_for(c)
    );
    history.mark_update_done();
    let _ = LocalExceptions::empty();
    let httpd = Httpd::new(&config, history);

    // status JSON
    let ans = util::catch(|| httpd.get("/api/v1/status", &[]))
        .map_err(|e| ("status-panic".to_string(), e))?;
    if ans.status != 200 { return Err(("status-code".into(), format!("status {}", ans.status))) }
    let v: Value = serde_json::from_slice(&ans.body).map_err(|e| {
        ("status-json".to_string(), format!("/api/v1/status is not valid JSON: {e}"))
    })?;
    for (what, s) in [("tal", &c.tal), ("tal2", &c.tal2), ("rsync message", &c.rsync_msg),
                      ("rrdp message", &c.rrdp_msg), ("point message", &c.point_msg),
                      ("repository uri", &c.repo_uri)] {
        if !contains_str(&v, s) {
            return Err(("status-echo".into(), format!(
                "/api/v1/status does not carry the {what} {s:?} intact"
            )))
        }
    }
    // plain text status must at least be produced
    let ans = util::catch(|| httpd.get("/status", &[]))
        .map_err(|e| ("status-text-panic".to_string(), e))?;
    if ans.status != 200 { return Err(("status-text-code".into(), format!("status {}", ans.status))) }

    // metrics
    let ans = util::catch(|| httpd.get("/metrics", &[]))
        .map_err(|e| ("metrics-panic".to_string(), e))?;
    if ans.status != 200 { return Err(("metrics-code".into(), format!("status {}", ans.status))) }
    let text = String::from_utf8(ans.body).map_err(|_| {
        ("metrics-utf8".to_string(), "/metrics is not UTF-8".to_string())
    })?;
    let samples = prom::parse(&text).map_err(|e| {
        ("metrics-parse".to_string(), format!("/metrics does not parse: {e}"))
    })?;
    for (what, s) in [("tal", &c.tal), ("tal2", &c.tal2), ("repository uri", &c.repo_uri)] {
        if !samples.iter().any(|x| x.labels.iter().any(|l| &l.1 == s)) {
            return Err(("metrics-echo".into(), format!(
                "/metrics has no sample labelled with the {what} {s:?}"
            )))
        }
    }
    Ok(())
}

pub fn alphabet() -> Vec<String> {
    let mut res = Vec::new();
    for c in 0u8..0x80 {
        res.push((c as char).to_string());
        res.push(format!("a{}b", c as char));
    }
    for s in ["\\\"", "\"\\", "\u{1F600}", "\u{0085}", "\u{2028}", "} 1\nx{y=\"", "\\n", "a\\", "\r\n", "# HELP"] {
        res.push(s.to_string());
    }
    res
}

/// Characters legal in rsync/https URIs (rpki-rs `is_u8_uri_ascii`).
fn uri_alphabet() -> Vec<String> {
    let mut res = Vec::new();
    for c in 0x21u8..0x7f {
        let ok = matches!(c, b'!' | b'$'..=b';' | b'=' | b'A'..=b'Z' | b'_' | b'a'..=b'z' | b'~');
        if ok { res.push(format!("rsync://example.net/repo/x{}y/", c as char)); }
    }
    res
}

pub fn cases(thorough: bool) -> Vec<(String, Case)> {
    let mut res = vec![("base".to_string(), Case::base())];
    let alpha = alphabet();
    for pos in [0usize, 1, 2, 3] {
        for (i, s) in alpha.iter().enumerate() {
            let mut c = Case::base();
            c.set(pos, s);
            res.push((format!("single:{}:{i}", POS[pos]), c));
        }
    }
    for (i, s) in uri_alphabet().iter().enumerate() {
        let mut c = Case::base();
        c.set(4, s);
        res.push((format!("single:{}:{i}", POS[4]), c));
    }
    // every combination of the variants of the structured fields
    for shape in 1..(1u32 << 9) {
        let mut c = Case::base();
        c.shape = shape;
        res.push((format!("shape:{shape:09b}"), c));
    }
    // pairs of positions with the hostile core alphabet
    let core: Vec<&str> = if thorough {
        vec!["\"", "\\", "\n", "\0", "\u{1f}", "a\"b\\c\nd", "\t", "\r", "}", "\u{7f}"]
    } else {
        vec!["\"", "\\", "\n", "\0"]
    };
    for p in 0..6usize { for q in p + 1..6 {
        if p == 4 || q == 4 { continue }
        for a in &core { for b in &core {
            let mut c = Case::base();
            c.set(p, a); c.set(q, b);
            res.push((format!("pair:{}={a:?}:{}={b:?}", POS[p], POS[q]), c));
        }}
    }}
    res
}

fn class_of(c: &Case) -> &'static str {
    let all = [&c.tal, &c.tal2, &c.rsync_msg, &c.rrdp_msg, &c.point_msg, &c.repo_uri];
    if all.iter().any(|s| s.contains('"') || s.contains('\\')) { "quote-or-backslash" }
    else if all.iter().any(|s| s.chars().any(|c| (c as u32) < 0x20)) { "control-char" }
    else { "other" }
}

pub fn run(ctx: &Ctx) -> Report {
    util::quiet_panics();
    install_logger();
    let mut rep = Report::new("exploration");
    let cases = cases(ctx.tier.thorough());
    rep.rule = "metrics values built from public fields (two TALs, rsync / \
        RRDP / publication point log books, repository URIs), installed \
        through SharedHistory::update and served by the real dispatcher; \
        one deviation at a time: every ASCII character alone and embedded \
        plus quote/backslash/newline combinations in TAL name and each of \
        the three log books, every legal URI character in the repository \
        URI; then all pairs of positions over a hostile core alphabet; \
        then all 511 combinations of the variants of the structured \
        fields (rsync status error / exit 0 / exit 1, durations Ok / Err \
        as after a clock step, RRDP notify status error / rejected / 200 / \
        304, session and serial absent / present, snapshot reason, payload \
        status), placed in the middle of three RRDP repositories; \
        /api/v1/status must parse as strict JSON and carry the strings, \
        /metrics must parse with a Prometheus text-format parser and carry \
        the names as label values; non-trivial = cases with a deviation".into();
    rep.bound = format!("{} documents x 3 endpoints", cases.len());
    let res = util::par_map(cases.len() as u64, util::cores(), |i| check_case(&cases[i as usize].1));
    for (i, r) in res.into_iter().enumerate() {
        rep.evaluations += 3;
        if i > 0 { rep.nontrivial += 1; }
        match r {
            Ok(()) => rep.outcome("ok"),
            Err((class, msg)) => {
                let pos = cases[i].0.split(':').nth(1).unwrap_or("").split('=').next().unwrap_or("").to_string();
                let fp = format!("doc:{class}:{}:{}", class_of(&cases[i].1),
                    if cases[i].0.starts_with("single") { pos } else { "pair".into() });
                rep.outcome(format!("VIOLATION:{class}"));
                rep.violation(fp, format!("{}: {msg}", cases[i].0), json!({"case": cases[i].0}));
            }
        }
    }
    rep.sample(json!({"case": "single:rrdp-log:20", "meaning": "RRDP log message is a single newline character"}));
    rep.sample(json!({"case": "pair:tal-name=\"\\\"\":rsync-log=\"\\n\""}));
    rep.assumptions.push("repository URIs are restricted to characters \
        rpki-rs accepts in rsync/https URIs (they originate from validated \
        URI types); TAL names and log messages are arbitrary strings".into());
    rep
}

pub fn replay(_ctx: &Ctx, v: &Value) -> Report {
    install_logger();
    let mut rep = Report::new("exploration");
    let name = v["case"].as_str().unwrap();
    let cases = cases(true);
    let (_, c) = cases.iter().find(|x| x.0 == name).expect("case");
    let r = check_case(c);
    println!("{c:?}: {r:?}");
    if let Err((class, msg)) = r { rep.violation(format!("doc:{class}"), msg, v.clone()); }
    rep.evaluations = 3; rep.nontrivial = 2;
    rep.sample(v.clone());
    rep
}
