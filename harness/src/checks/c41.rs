//! C41 A broken repository affects only its own subtree.
//!
//! E-TREE with three repositories (A: the TA, rsync; B: CA1 and its child;
//! C: CA2), B and C each once RRDP and once rsync; one fault placed in B or
//! in C; the payload of every CA outside the faulty repository's subtree
//! must equal the fault-free run's.

use std::collections::{BTreeMap, BTreeSet};
use std::fs;
use std::net::Ipv4Addr;
use std::sync::{Arc, Mutex};
use routinator::config::FilterPolicy;
use routinator::slurm::LocalExceptions;
use routinator::verif::HttpAnswer;
use rpki::rtr::payload::RouteOrigin;
use serde_json::{json, Value};
use crate::data;
use crate::etree::{self, Case};
use crate::report::{Ctx, Report};
use crate::rpkigen::{Builder, CaSpec, Gen, Image, ObjSpec, PointFault, Stale, TalSpec, TreeSpec};
use crate::rrdpsrv::{self, Server};
use crate::util;

#[derive(Clone, Copy, Debug, Eq, PartialEq)]
pub enum Fault { Unreachable, NotifyGarbage, ArchiveCorrupt, ObjectsGarbage, StaleManifests, MissingManifest, SnapshotGarbage, TooDeep,
    /// The repository also serves a copy of the trust anchor certificate,
    /// which the TAL names first; the copy is an expired one. No CA is
    /// published there on account of that, so nothing may change.
    TaCopyExpired }
const FAULTS: [Fault; 9] = [Fault::Unreachable, Fault::NotifyGarbage, Fault::ArchiveCorrupt, Fault::ObjectsGarbage, Fault::StaleManifests, Fault::MissingManifest, Fault::SnapshotGarbage, Fault::TooDeep, Fault::TaCopyExpired];

/// The CA depth limit of every run (the TA is level 0).
const MAX_DEPTH: usize = 3;

#[derive(Clone, Debug)]
pub struct CaseSpec { b_rrdp: bool, c_rrdp: bool, in_b: bool, fault: Fault, policy: FilterPolicy, threads: usize }

fn hosts(idx: usize) -> (String, String, String) {
    (format!("a{idx}.c41.example"), format!("b{idx}.c41.example"), format!("c{idx}.c41.example"))
}

fn tree(idx: usize, c: &CaseSpec, with_fault: bool) -> TreeSpec {
    let (ha, hb, hc) = hosts(idx);
    // Address space: besides 10/8, CA1 holds 2001:db8::/32 and CA2 the
    // IPv4 host route made of the same leading 32 bits (32.1.13.184), and
    // vice versa with 2001:db9::/32 - disjoint resources that only a
    // confusion of the two address families makes overlap.
    let mut ta = CaSpec::new("ta0", 0, &ha, "repo");
    ta.v4 = vec![(Ipv4Addr::new(10, 0, 0, 0), 8), (Ipv4Addr::new(32, 1, 13, 0), 24)];
    ta.v6 = vec![("2001:db8::".parse().unwrap(), 31)];
    ta.asns = vec![(64496, 64600)];
    // besides its own space the TA has VRPs for the space it delegated to
    // CA1 and CA2: they overlap a rejected CA's resources, which only the
    // unsafe-vrps reject policy may hold against them
    ta.objs = vec![ObjSpec::roa("rta", 64496, "10.0.0.0", 16, 16),
        ObjSpec::roa("rov1", 64497, "10.1.0.0", 16, 16), ObjSpec::roa("rov2", 64498, "10.2.0.0", 16, 16)];
    let mut ca1 = CaSpec::new("ca1", 1, &hb, "repo");
    ca1.v4 = vec![(Ipv4Addr::new(10, 1, 0, 0), 16), (Ipv4Addr::new(32, 1, 13, 185), 32)];
    ca1.v6 = vec![("2001:db8::".parse().unwrap(), 32)];
    ca1.asns = vec![(64500, 64509)];
    ca1.objs = vec![ObjSpec::roa("r1", 64500, "10.1.0.0", 20, 24), ObjSpec::roa("r1m", 64501, "32.1.13.185", 32, 32),
        ObjSpec::roa("r1v6", 64502, "2001:db8::", 32, 48)];
    if c.b_rrdp { ca1.rpki_notify = Some(format!("https://{hb}/r/notification.xml")); }
    let mut ca1c = CaSpec::new("ca1c", 2, &hb, "repo");
    ca1c.v4 = vec![(Ipv4Addr::new(10, 1, 128, 0), 17)];
    ca1c.asns = vec![(64505, 64505)];
    ca1c.objs = vec![ObjSpec::roa("r1c", 64505, "10.1.128.0", 24, 24)];
    ca1c.rpki_notify = ca1.rpki_notify.clone();
    let mut ca2 = CaSpec::new("ca2", 3, &hc, "repo");
    ca2.v4 = vec![(Ipv4Addr::new(10, 2, 0, 0), 16), (Ipv4Addr::new(32, 1, 13, 184), 32)];
    ca2.v6 = vec![("2001:db9::".parse().unwrap(), 32)];
    ca2.asns = vec![(64510, 64519)];
    ca2.objs = vec![ObjSpec::roa("r2", 64510, "10.2.0.0", 16, 16), ObjSpec::roa("r2b", 64511, "10.2.3.0", 24, 24),
        ObjSpec::roa("r2m", 64512, "32.1.13.184", 32, 32), ObjSpec::roa("r2v6", 64513, "2001:db9::", 32, 48)];
    if c.c_rrdp { ca2.rpki_notify = Some(format!("https://{hc}/r/notification.xml")); }
    if with_fault {
        let pf = match c.fault { Fault::StaleManifests => Some(PointFault::MftStale), Fault::MissingManifest => Some(PointFault::NoManifest), _ => None };
        if c.in_b { ca1.point_fault = pf; ca1c.point_fault = pf; } else { ca2.point_fault = pf; }
        if c.fault == Fault::TooDeep {
            // the faulty repository publishes a chain of further, otherwise
            // valid CAs that runs past the depth limit
            let (host, notify, a, b, parent_level) = if c.in_b { (&hb, ca1c.rpki_notify.clone(), 10u8, 1u8, 2) } else { (&hc, ca2.rpki_notify.clone(), 10, 2, 1) };
            let mut chain: Option<CaSpec> = None;
            for k in (1..=3usize).rev() {
                let mut d = CaSpec::new(&format!("deep{k}"), 3 + k, host, "repo");
                d.v4 = vec![(Ipv4Addr::new(a, b, 200, 0), 24)];
                d.asns = vec![(if c.in_b { 64505 } else { 64519 }, if c.in_b { 64505 } else { 64519 })];
                d.objs = vec![ObjSpec::roa(&format!("rdeep{k}"), if c.in_b { 64505 } else { 64519 }, &format!("{a}.{b}.200.{}", k * 16), 28, 28)];
                d.rpki_notify = notify.clone();
                if let Some(child) = chain.take() { d.children.push(child); }
                chain = Some(d);
            }
            let _ = parent_level;
            if c.in_b { ca1c.children.push(chain.unwrap()); } else { ca2.children.push(chain.unwrap()); }
        }
    }
    ca1.children.push(ca1c);
    ta.children.push(ca1);
    ta.children.push(ca2);
    TreeSpec { tals: vec![TalSpec { name: "alpha".into(), ta_uri: format!("rsync://{ha}/repo/ta0.cer"), ca: ta, wrong_key: false, https_uri: None }] }
}

fn origins_of(image: &Image, cas: &[&str]) -> BTreeSet<RouteOrigin> {
    image.truth.iter().filter(|t| cas.contains(&t.ca.as_str())).filter_map(|t| match &t.payload {
        rpki::rtr::payload::Payload::Origin(o) => Some(*o), _ => None
    }).collect()
}

fn server_for(image: &Image, host: &str) -> Server {
    let mut s = Server::new(&format!("https://{host}/r"));
    for (uri, data) in &image.files {
        if uri.starts_with(&format!("rsync://{host}/")) { s.objects.insert(uri.clone(), data.clone()); }
    }
    s.new_session();
    s
}

/// Runs once, repeating once after a retryable failure (the documented retry).
fn run_with_retry(config: &routinator::Config) -> Result<etree::RunOut, String> {
    match etree::run(config, false, &LocalExceptions::empty()) {
        Ok(o) => Ok(o),
        Err(e) if e.contains("fatal=false") => etree::run(config, false, &LocalExceptions::empty()).map_err(|e| format!("retry failed too: {e}")),
        Err(e) => Err(e),
    }
}

fn run_case(gen: &Gen, dir: std::path::PathBuf, idx: usize, c: &CaseSpec) -> Result<String, (String, String)> {
    let (_ha, hb, hc) = hosts(idx);
    let stale = if c.fault == Fault::StaleManifests { Stale::Reject } else { Stale::Reject };
    let clean = Builder::new(gen, stale).build(&tree(idx, c, false));
    let faulty = Builder::new(gen, stale).build(&tree(idx, c, true));
    let case = Case::new(dir);
    case.write_tals(&clean);
    let mut config = case.config();
    config.disable_rrdp = false;
    config.unsafe_vrps = c.policy;
    config.validation_threads = c.threads;
    config.max_ca_depth = MAX_DEPTH;
    let fhost = if c.in_b { hb.clone() } else { hc.clone() };
    let f_rrdp = if c.in_b { c.b_rrdp } else { c.c_rrdp };
    let copy_uri = format!("rsync://{fhost}/repo/ta0-copy.cer");
    if c.fault == Fault::TaCopyExpired {
        // the TAL names the copy in the other repository first
        let text = format!("{copy_uri}\n{}", clean.tals.iter().find(|(n, _)| n == "alpha").unwrap().1);
        fs::write(case.dir.join("tals").join("alpha.tal"), text).unwrap();
    }
    // transport state
    #[derive(Clone, Copy, PartialEq)]
    enum Net { Ok, Unreachable, NotifyGarbage, SnapshotGarbage }
    let net: Arc<Mutex<BTreeMap<String, Net>>> = Arc::new(Mutex::new(BTreeMap::new()));
    let servers: Arc<Mutex<BTreeMap<String, Server>>> = Arc::new(Mutex::new(BTreeMap::new()));
    let mut guards = Vec::new();
    for h in [&hb, &hc] {
        let (net, servers, host) = (net.clone(), servers.clone(), h.clone());
        guards.push(rrdpsrv::serve_host(h, Arc::new(move |uri, etag, _lm| {
            let mode = net.lock().unwrap().get(&host).copied().unwrap_or(Net::Ok);
            if mode == Net::Unreachable { return Some(HttpAnswer::Unreachable) }
            let servers = servers.lock().unwrap();
            let Some(s) = servers.get(&host) else { return Some(HttpAnswer::Unreachable) };
            if mode == Net::NotifyGarbage && uri.ends_with("notification.xml") {
                return Some(HttpAnswer::Response(rrdpsrv::resp(200, vec![], b"<notification this is not xml".to_vec())))
            }
            if mode == Net::SnapshotGarbage && uri.ends_with("snapshot.xml") {
                return Some(HttpAnswer::Response(rrdpsrv::resp(200, vec![], b"<snapshot xmlns=\"http://www.ripe.net/rpki/rrdp\" version=\"1\" garbage".to_vec())))
            }
            s.answer(uri, etag).map(HttpAnswer::Response)
        })));
    }
    let publish = |image: &Image| {
        case.publish(image);
        let mut s = servers.lock().unwrap();
        s.clear();
        if c.b_rrdp { s.insert(hb.clone(), server_for(image, &hb)); }
        if c.c_rrdp { s.insert(hc.clone(), server_for(image, &hc)); }
    };
    let err = |e: String| ("run-failed".to_string(), format!("{c:?}: {e}"));
    // fault-free reference run (own cache)
    publish(&clean);
    if c.fault == Fault::TaCopyExpired {
        let p = case.remote_path(&copy_uri);
        fs::create_dir_all(p.parent().unwrap()).unwrap();
        fs::write(p, &clean.ta_certs["alpha"]).unwrap();
    }
    let base = run_with_retry(&config).map_err(err)?;
    let all = origins_of(&clean, &["ta0", "ca1", "ca1c", "ca2"]);
    if base.data.origins != all {
        return Err(("harness".into(), format!("{c:?}: fault-free run serves {:?}", base.data.origins.iter().map(data::fmt_origin).collect::<Vec<_>>())))
    }
    // the run under test
    let fresh_cache = c.fault != Fault::ArchiveCorrupt;
    if fresh_cache {
        let _ = fs::remove_dir_all(case.dir.join("cache"));
        fs::create_dir_all(case.dir.join("cache")).unwrap();
    }
    match c.fault {
        Fault::Unreachable => {
            net.lock().unwrap().insert(fhost.clone(), Net::Unreachable);
            case.set_unreachable(&fhost, "repo", true);
            publish_keep(&case, &clean);
        }
        Fault::NotifyGarbage => { net.lock().unwrap().insert(fhost.clone(), Net::NotifyGarbage); case.set_unreachable(&fhost, "repo", true); }
        Fault::SnapshotGarbage => { net.lock().unwrap().insert(fhost.clone(), Net::SnapshotGarbage); case.set_unreachable(&fhost, "repo", true); }
        Fault::ArchiveCorrupt => {
            // damage every RRDP archive file of the faulty host, then let
            // the server move on so that the archive gets touched
            let dirp = case.dir.join("cache").join("rrdp").join(&fhost);
            if let Ok(rd) = fs::read_dir(&dirp) {
                for e in rd.flatten() {
                    let mut bytes = fs::read(e.path()).unwrap_or_default();
                    let n = bytes.len();
                    for b in bytes[n / 3..n / 3 + 64.min(n / 3)].iter_mut() { *b ^= 0xa5; }
                    bytes.truncate(n - n / 5);
                    fs::write(e.path(), bytes).unwrap();
                }
            }
            case.set_unreachable(&fhost, "repo", true);
            if let Some(s) = servers.lock().unwrap().get_mut(&fhost) {
                s.set(&format!("rsync://{fhost}/repo/extra.bin"), Some(b"new object"));
            }
        }
        Fault::ObjectsGarbage => {
            let mut img = clean.clone();
            for (uri, data) in img.files.iter_mut() {
                if uri.starts_with(&format!("rsync://{fhost}/")) { *data = b"garbage instead of an RPKI object".to_vec(); }
            }
            publish(&img);
        }
        Fault::StaleManifests | Fault::MissingManifest | Fault::TooDeep => publish(&faulty),
        Fault::TaCopyExpired => {
            let mut t = tree(idx, c, false);
            t.tals[0].ca.cert_fault = Some(crate::rpkigen::Fault::Expired);
            let expired = Builder::new(gen, stale).build(&t).ta_certs["alpha"].clone();
            if expired == clean.ta_certs["alpha"] {
                return Err(("harness".into(), "the expired copy is the good certificate".into()))
            }
            fs::write(case.remote_path(&copy_uri), expired).unwrap();
        }
    }
    let out = run_with_retry(&config).map_err(err)?;
    // CAs outside the faulty repository's subtree
    let unaffected: Vec<&str> = if c.fault == Fault::TaCopyExpired { vec!["ta0", "ca1", "ca1c", "ca2"] }
        else if c.in_b { vec!["ta0", "ca2"] } else { vec!["ta0", "ca1", "ca1c"] };
    let affected: Vec<&str> = if c.fault == Fault::TaCopyExpired { vec![] } else if c.in_b { vec!["ca1", "ca1c"] } else { vec!["ca2"] };
    let mut want = origins_of(&clean, &unaffected);
    let mut maybe = origins_of(&clean, &affected);
    if c.policy == FilterPolicy::Reject {
        // documented: under reject, VRPs overlapping a rejected CA's
        // resources may go - the TA's two covering VRPs are then undetermined
        for o in want.clone() {
            let asn = o.asn.into_u32();
            if (asn == 64497 || asn == 64498) && c.fault != Fault::TaCopyExpired { want.remove(&o); maybe.insert(o); }
        }
    }
    maybe.extend(origins_of(&faulty, &["deep1", "deep2", "deep3"]));
    let got: BTreeSet<RouteOrigin> = out.data.origins.iter().copied().filter(|o| !maybe.contains(o)).collect();
    let fmt = |s: &BTreeSet<RouteOrigin>| s.iter().map(data::fmt_origin).collect::<Vec<_>>();
    if got != want {
        let missing: BTreeSet<RouteOrigin> = want.difference(&got).copied().collect();
        let extra: BTreeSet<RouteOrigin> = got.difference(&want).copied().collect();
        return Err((if !missing.is_empty() { "unrelated-payload-lost" } else { "unexpected-payload" }.into(), format!(
            "{c:?} (faulty repository on {}): payload of CAs outside its subtree: missing {:?}, unexpected {:?}",
            if f_rrdp { "RRDP" } else { "rsync" }, fmt(&missing), fmt(&extra)
        )))
    }
    let kept = out.data.origins.iter().filter(|o| maybe.contains(o)).count();
    drop(guards);
    let _ = fs::remove_dir_all(&case.dir);
    Ok(format!("{:?}:affected-kept={kept}", c.fault))
}

fn publish_keep(_case: &Case, _image: &Image) { }

fn cases(thorough: bool) -> Vec<CaseSpec> {
    let mut res = Vec::new();
    for (b_rrdp, c_rrdp) in [(true, false), (false, true), (true, true), (false, false)] {
        for in_b in [true, false] {
            for fault in FAULTS {
                let f_rrdp = if in_b { b_rrdp } else { c_rrdp };
                if !f_rrdp && matches!(fault, Fault::NotifyGarbage | Fault::ArchiveCorrupt | Fault::SnapshotGarbage) { continue }
                for policy in [FilterPolicy::Reject, FilterPolicy::Accept] {
                    for threads in if thorough { vec![1, 4] } else { vec![1] } {
                        if !thorough && (b_rrdp == c_rrdp) && policy == FilterPolicy::Accept { continue }
                        res.push(CaseSpec { b_rrdp, c_rrdp, in_b, fault, policy, threads });
                    }
                }
            }
        }
    }
    res
}

pub fn run(ctx: &Ctx) -> Report {
    util::quiet_panics();
    let gen = Gen::load();
    let mut rep = Report::new("exploration");
    let cases = cases(ctx.tier.thorough());
    rep.rule = "TA (repository A, rsync) with CA1 + child (repository B) and \
        CA2 (repository C); B and C each RRDP or rsync (all four \
        arrangements); one fault in B or in C from {repository unreachable \
        (both transports), notification file garbage, snapshot garbage, \
        RRDP archive file damaged on disk before an update, every object \
        replaced by garbage, stale manifests under reject, missing \
        manifest, a CA chain running past max-ca-depth, an expired copy \
        of the TA certificate that the TAL names before the real one (no \
        CA is published there for that: nothing at all may change)} x unsafe-vrps {reject, accept} (thorough: x validation \
        threads {1, 4}); oracle: the route origins of every CA outside the \
        faulty repository's subtree are exactly those of the fault-free \
        run, and the run succeeds (after at most the one documented \
        retry); the TA also publishes VRPs covering the space delegated \
        to B and C, which must survive under accept (under reject they are \
        left undetermined); otherwise the CAs' resources are disjoint - each of B and C also holds an IPv6 /32 while \
        the other holds the IPv4 host route with the same leading 32 bits \
        and a VRP for it, still disjoint; the depth limit is 3 and the \
        fault 'too deep' adds three nested, otherwise valid CAs below the \
        faulty repository's leaf CA; non-trivial = all (every case carries a fault)".into();
    rep.bound = format!("{} (arrangement, repository, fault, policy) cases", cases.len());
    let threads = std::env::var("ETREE_THREADS").ok().and_then(|s| s.parse().ok()).unwrap_or(8);
    let res = util::par_map(cases.len() as u64, threads, |i| {
        util::catch(|| run_case(&gen, ctx.scratch.join(format!("c{i}")), i as usize, &cases[i as usize]))
            .unwrap_or_else(|p| Err(("panic".into(), p)))
    });
    for (i, r) in res.into_iter().enumerate() {
        let c = &cases[i];
        rep.evaluations += 1; rep.nontrivial += 1;
        match r {
            Ok(o) => rep.outcome(o),
            Err((class, msg)) if class == "harness" => { eprintln!("machinery error: {msg}"); std::process::exit(2) }
            Err((class, msg)) => {
                rep.outcome(format!("VIOLATION:{class}"));
                rep.violation(format!("isolation:{class}:{:?}:{}", c.fault, if (if c.in_b { c.b_rrdp } else { c.c_rrdp }) { "rrdp" } else { "rsync" }), msg,
                    json!({"b_rrdp": c.b_rrdp, "c_rrdp": c.c_rrdp, "in_b": c.in_b, "fault": format!("{:?}", c.fault), "policy": c.policy.to_string(), "threads": c.threads}));
            }
        }
    }
    rep.sample(json!({"b_rrdp": true, "c_rrdp": false, "in_b": true, "fault": "ArchiveCorrupt", "policy": "reject"}));
    rep.assumptions.push("generated objects as for C01; RRDP through the cfg-only fake transport; the damaged archive is produced by a real earlier update and then corrupted in the middle and truncated".into());
    rep
}

pub fn replay(ctx: &Ctx, v: &Value) -> Report {
    let gen = Gen::load();
    let mut rep = Report::new("exploration");
    let fault = FAULTS.iter().find(|f| format!("{f:?}") == v["fault"].as_str().unwrap_or("")).copied().unwrap_or(Fault::Unreachable);
    let c = CaseSpec {
        b_rrdp: v["b_rrdp"].as_bool().unwrap_or(true), c_rrdp: v["c_rrdp"].as_bool().unwrap_or(false),
        in_b: v["in_b"].as_bool().unwrap_or(true), fault,
        policy: if v["policy"].as_str() == Some("accept") { FilterPolicy::Accept } else { FilterPolicy::Reject },
        threads: v["threads"].as_u64().unwrap_or(1) as usize,
    };
    let r = run_case(&gen, ctx.scratch.join("replay"), 99999, &c);
    println!("{c:?}: {r:?}");
    if let Err((class, msg)) = r { rep.violation(format!("isolation:{class}"), msg, v.clone()) }
    rep.evaluations = 1; rep.nontrivial = 2;
    rep.sample(v.clone());
    rep
}
