//! One module per property.

use crate::CheckDef;
use crate::report::Tier;

pub mod c11;

fn one(_: Tier) -> usize { 1 }

pub fn all() -> Vec<CheckDef> {
    vec![
        CheckDef { id: "C11", shards: one, run: c11::run, replay: Some(c11::replay) },
    ]
}

pub fn aux(_args: &[String]) -> i32 {
    eprintln!("unknown aux command");
    2
}
