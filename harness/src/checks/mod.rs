//! One module per property.

use crate::CheckDef;
use crate::report::Tier;

pub mod c01;
pub mod c03;
pub mod c05;
pub mod c06;
pub mod c07;
pub mod c08;
pub mod c09;
pub mod c10;
pub mod c11;
pub mod c39;
pub mod c40;
pub mod c41;
pub mod c12;
pub mod c13;
pub mod c14;
pub mod c15;
pub mod c18;
pub mod c20;
pub mod c21;
pub mod c22;
pub mod c23;
pub mod c24;
pub mod c25;
pub mod c26;
pub mod c27;
pub mod c28;
pub mod c19;
pub mod c29;
pub mod c30;
pub mod c32;
pub mod c34;
pub mod c35;
pub mod c38;
pub mod c33;
pub mod c36;
pub mod c37;

fn one(_: Tier) -> usize { 1 }
fn four(_: Tier) -> usize { 4 }
fn eight(_: Tier) -> usize { 8 }

pub fn all() -> Vec<CheckDef> {
    vec![
        CheckDef { id: "C01", shards: one, run: c01::run_c01, replay: Some(c01::replay) },
        CheckDef { id: "C02", shards: one, run: c01::run_c02, replay: Some(c01::replay) },
        CheckDef { id: "C03", shards: eight, run: c03::run, replay: Some(c03::replay) },
        CheckDef { id: "C04", shards: one, run: c05::run_c04, replay: Some(c05::replay_c04) },
        CheckDef { id: "C05", shards: one, run: c05::run_c05, replay: Some(c05::replay_c05) },
        CheckDef { id: "C06", shards: one, run: c06::run, replay: Some(c06::replay) },
        CheckDef { id: "C07", shards: one, run: c07::run, replay: Some(c07::replay) },
        CheckDef { id: "C08", shards: one, run: c08::run, replay: Some(c08::replay) },
        CheckDef { id: "C09", shards: one, run: c09::run, replay: Some(c09::replay) },
        CheckDef { id: "C10", shards: one, run: c10::run, replay: Some(c10::replay) },
        CheckDef { id: "C11", shards: one, run: c11::run, replay: Some(c11::replay) },
        CheckDef { id: "C12", shards: one, run: c12::run, replay: Some(c12::replay) },
        CheckDef { id: "C13", shards: one, run: c13::run, replay: Some(c13::replay) },
        CheckDef { id: "C14", shards: one, run: c14::run, replay: Some(c14::replay) },
        CheckDef { id: "C15", shards: four, run: c15::run_c15, replay: Some(c15::replay_c15) },
        CheckDef { id: "C16", shards: four, run: c15::run_c16, replay: Some(c15::replay_c16) },
        CheckDef { id: "C17", shards: four, run: c15::run_c17, replay: Some(c15::replay_c17) },
        CheckDef { id: "C18", shards: one, run: c18::run, replay: Some(c18::replay) },
        CheckDef { id: "C20", shards: one, run: c20::run, replay: Some(c20::replay) },
        CheckDef { id: "C21", shards: one, run: c21::run, replay: Some(c21::replay) },
        CheckDef { id: "C22", shards: one, run: c22::run, replay: Some(c22::replay) },
        CheckDef { id: "C23", shards: one, run: c23::run, replay: Some(c23::replay) },
        CheckDef { id: "C24", shards: one, run: c24::run, replay: Some(c24::replay) },
        CheckDef { id: "C25", shards: one, run: c25::run, replay: Some(c25::replay) },
        CheckDef { id: "C26", shards: one, run: c26::run, replay: Some(c26::replay) },
        CheckDef { id: "C39", shards: one, run: c39::run, replay: Some(c39::replay) },
        CheckDef { id: "C36", shards: one, run: c36::run, replay: Some(c36::replay) },
        CheckDef { id: "C37", shards: four, run: c37::run, replay: Some(c37::replay) },
        CheckDef { id: "C32", shards: one, run: c32::run, replay: Some(c32::replay) },
        CheckDef { id: "C33", shards: one, run: c33::run, replay: Some(c33::replay) },
        CheckDef { id: "C19", shards: one, run: c19::run, replay: Some(c19::replay) },
        CheckDef { id: "C34", shards: one, run: c34::run, replay: Some(c34::replay) },
        CheckDef { id: "C29", shards: one, run: c29::run_c29, replay: Some(c29::replay_c29) },
        CheckDef { id: "C30", shards: one, run: c30::run, replay: Some(c30::replay) },
        CheckDef { id: "C31", shards: one, run: c29::run_c31, replay: Some(c29::replay_c31) },
        CheckDef { id: "C35", shards: one, run: c35::run, replay: Some(c35::replay) },
        CheckDef { id: "C38", shards: one, run: c38::run, replay: Some(c38::replay) },
        CheckDef { id: "C40", shards: one, run: c40::run, replay: Some(c40::replay) },
        CheckDef { id: "C41", shards: one, run: c41::run, replay: Some(c41::replay) },
        CheckDef { id: "C27", shards: one, run: c27::run, replay: Some(c27::replay) },
        CheckDef { id: "C28", shards: one, run: c28::run, replay: Some(c28::replay) },
    ]
}

pub fn aux(args: &[String]) -> i32 {
    match args.first().map(|s| s.as_str()) {
        Some("c26-expand") => c26::aux_expand(&args[1..]),
        Some("c27-worker") => c27::aux_worker(&args[1..]),
        Some("fake-rsync") => crate::etree::fake_rsync(&args[1..]),
        _ => { eprintln!("unknown aux command"); 2 }
    }
}
