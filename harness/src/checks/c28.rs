//! C28 Every persisted record reads back as written.

use std::collections::HashMap;
use std::io::Read;
use std::str::FromStr;
use bytes::Bytes;
use rpki::crypto::DigestAlgorithm;
use rpki::repository::manifest::ManifestHash;
use rpki::repository::x509::{Serial, Time};
use rpki::{rrdp, uri};
use routinator::collector::RepositoryState;
use routinator::store::{StoredManifest, StoredObject, StoredPointHeader, StoredStatus};
use serde_json::{json, Value};
use uuid::Uuid;
use crate::report::{Ctx, Report};
use crate::util;

const SENTINEL: [u8; 5] = [0xAA, 0x55, 0xAA, 0x55, 0x00];

fn rsync_uris() -> Vec<uri::Rsync> {
    let mut v = vec![
        "rsync://a/m/".to_string(),
        "rsync://a/m/x".to_string(),
        "rsync://Host.EXAMPLE.net/Module/Dir/File.MFT".to_string(),
        "rsync://192.0.2.1:8873/m/p".to_string(),
        "rsync://h/m/!$&'()*+,-.0123456789:;=_~".to_string(),
        format!("rsync://h/m/{}", "d/".repeat(700)),
        format!("rsync://{}.example/m/f", "l".repeat(63)),
        "rsync://h/m/%2e%2e/%00".to_string(),
    ];
    v.push(format!("rsync://h/m/{}", "x".repeat(70000)));
    v.into_iter().map(|s| uri::Rsync::from_str(&s).expect("rsync uri")).collect()
}

fn https_uris() -> Vec<uri::Https> {
    [
        "https://a/".to_string(),
        "https://rrdp.example.net/notification.xml".to_string(),
        "https://Host.EXAMPLE:8443/Path/N.xml".to_string(),
        "https://h/!$&'()*+,-.0123456789:;=_~".to_string(),
        format!("https://h/{}", "p/".repeat(600)),
        "https://192.0.2.1/n.xml".to_string(),
    ].iter().map(|s| uri::Https::from_str(s).expect("https uri")).collect()
}

fn times() -> Vec<Time> {
    vec![
        Time::utc(1970, 1, 1, 0, 0, 0), Time::utc(1970, 1, 1, 0, 0, 1),
        Time::utc(1969, 12, 31, 23, 59, 59), Time::utc(9999, 12, 31, 23, 59, 59),
        Time::utc(2038, 1, 19, 3, 14, 8), Time::utc(1, 1, 1, 0, 0, 0),
    ]
}

fn serials() -> Vec<Serial> {
    let mut max = [0xffu8; 20]; max[0] = 0x7f;
    let mut mid = [0u8; 20]; mid[12] = 0x80;
    let mut one = [0u8; 20]; one[19] = 1;
    vec![
        Serial::from_array([0; 20]).unwrap(), Serial::from_array(one).unwrap(),
        Serial::from_array(mid).unwrap(), Serial::from_array(max).unwrap(),
    ]
}

fn blobs() -> Vec<Bytes> {
    vec![Bytes::new(), Bytes::from_static(b"\x00"), Bytes::from(vec![0xffu8; 70000]),
         Bytes::from_static(b"\xff\xff\xff\xff\xff\xff\xff\xff\x01")]
}

/// A reader that ends every read at the next multiple of `cap` (what a
/// buffered file reader does at its buffer boundary): `Read::read` may
/// return fewer bytes than asked for at any position.
pub struct Frag<'a> { data: &'a [u8], pos: usize, cap: usize }

impl<'a> std::io::Read for Frag<'a> {
    fn read(&mut self, buf: &mut [u8]) -> std::io::Result<usize> {
        let to_boundary = if self.cap == usize::MAX { usize::MAX } else { self.cap - self.pos % self.cap };
        let n = buf.len().min(self.data.len() - self.pos).min(to_boundary);
        buf[..n].copy_from_slice(&self.data[self.pos..self.pos + n]);
        self.pos += n;
        Ok(n)
    }
}

thread_local! {
    static CAPS: std::cell::RefCell<Vec<usize>> = const { std::cell::RefCell::new(Vec::new()) };
    static DECODES: std::cell::Cell<u64> = const { std::cell::Cell::new(0) };
}

/// Round trip with sentinel, through an unfragmented reader and through
/// readers fragmenting at every multiple of each capacity in `CAPS`.
fn trip<T: PartialEq + std::fmt::Debug>(
    what: &str, value: &T,
    write: impl Fn(&T, &mut Vec<u8>) -> Result<(), std::io::Error>,
    read: impl Fn(&mut dyn Read) -> Result<T, String>,
) -> Result<(), (String, String)> {
    let mut buf = Vec::new();
    write(value, &mut buf).map_err(|e| (format!("{what}:write"), format!("write failed: {e}")))?;
    let len = buf.len();
    buf.extend_from_slice(&SENTINEL);
    let caps = CAPS.with(|c| c.borrow().clone());
    for cap in std::iter::once(usize::MAX).chain(caps) {
        // tiny fragments of very long records only repeat what the
        // fragments of the short ones show
        if cap < 8 && len > 4096 { continue }
        let how = if cap == usize::MAX { String::new() } else { format!(" (reads ending at multiples of {cap})") };
        let class = |c: &str| if cap == usize::MAX { format!("{what}:{c}") } else { format!("{what}:{c}:short-reads") };
        let mut rd = Frag { data: &buf, pos: 0, cap };
        DECODES.with(|d| d.set(d.get() + 1));
        let back = util::catch(|| read(&mut rd))
            .map_err(|e| (class("panic"), format!("read panicked{how}: {e}")))?
            .map_err(|e| (class("read"), format!("read of own encoding failed{how}: {e}")))?;
        if &back != value {
            let (a, b) = (format!("{value:?}"), format!("{back:?}"));
            let cut = |x: &str| x.chars().take(300).collect::<String>();
            return Err((class("value"), format!("wrote {} read {}{how}", cut(&a), cut(&b))))
        }
        if rd.pos != len {
            return Err((class("consumed"), format!(
                "reader consumed {} bytes of a {len} byte record{how}", rd.pos
            )))
        }
    }
    Ok(())
}

pub fn run(ctx: &Ctx) -> Report {
    util::quiet_panics();
    let mut rep = Report::new("exploration");
    rep.rule = "full product of field edge values per record type \
        (URIs: shortest, mixed-case authority, IPv6+port, every legal \
        punctuation character, 1.4 kB deep path, 63-char label, percent \
        sequences, 70 kB; times: epoch, +-1 s, year 1, 2038, 9999; serials \
        0, 1, 2^63, max 159 bit; blobs empty / NUL / 70 kB / all-ones \
        prefix; options both ways; ETags empty, quoted, weak; delta maps \
        of 0, 1, 3 entries, and of 65535 / 65536 / 65537 / 70000 entries); \
        encode, append a sentinel, decode: value equal and exactly the \
        record consumed - through a reader that hands out everything and \
        through readers whose every read ends at the next multiple of c \
        bytes (c = 1, 2, 3, 5, 7, 8, 13, 16, 31, 32, 33, 64, 8192; thorough \
        1..70 and more), so that every field is met by a short read at \
        every offset; plus stored point files (header + 4 objects) read \
        back through StoredPoint::load_quietly and its iterator with the \
        first object's size swept over 500 (thorough 8492) consecutive \
        values; and the repository state as a record of a real RRDP \
        archive: published, then replaced in place 10 x 10 times by states \
        of other lengths, read back through a fresh handle each time; \
        non-trivial = all".into();
    let mut viol: Vec<(String, String, Value)> = Vec::new();
    let mut n = 0u64;
    let thorough = ctx.tier.thorough();
    let caps: Vec<usize> = if thorough { (1..=70).chain([100, 255, 256, 4096, 8192]).collect() }
        else { vec![1, 2, 3, 5, 7, 8, 13, 16, 31, 32, 33, 64, 8192] };
    CAPS.with(|c| *c.borrow_mut() = caps.clone());
    DECODES.with(|d| d.set(0));

    // StoredObject
    for u in rsync_uris() { for h in [false, true] { for c in blobs() {
        let hash = h.then(|| ManifestHash::new(
            Bytes::from(vec![0x5au8; 32]), DigestAlgorithm::sha256()
        ));
        let v = StoredObject::new(u.clone(), c.clone(), hash);
        n += 1;
        if let Err((c, m)) = trip("StoredObject", &v,
            |v, w| v.write(w),
            |mut r| StoredObject::read(&mut r).map_err(|e| std::io::Error::from(e).to_string())?.ok_or("EOF".to_string()))
        { viol.push((c, m, json!({"record": "StoredObject", "uri_len": u.as_str().len()}))); }
    }}}
    // A sequence of objects in one stream (the stored point body).
    {
        let objs: Vec<StoredObject> = rsync_uris().into_iter().zip(blobs().into_iter().cycle())
            .map(|(u, c)| StoredObject::new(u, c, None)).collect();
        let mut buf = Vec::new();
        for o in &objs { o.write(&mut buf).unwrap(); }
        let mut rd: &[u8] = &buf;
        let mut back = Vec::new();
        loop {
            match StoredObject::read(&mut rd) {
                Ok(Some(o)) => back.push(o),
                Ok(None) => break,
                Err(e) => { viol.push(("StoredObject:stream".into(), format!("{}", std::io::Error::from(e)), json!({"record": "object stream"}))); break }
            }
        }
        n += 1;
        if back != objs { viol.push(("StoredObject:stream-value".into(), "object stream differs".into(), json!({"record": "object stream"}))); }
    }

    // StoredManifest
    let ru = rsync_uris();
    let uri_sel: Vec<&uri::Rsync> = if thorough { ru.iter().collect() } else { ru.iter().take(5).collect() };
    for na in times() { for s in serials() { for tu in times() {
        for ca in &uri_sel { for m in blobs() { for cu in uri_sel.iter().take(3) { for crl in blobs().into_iter().take(3) {
            let v = StoredManifest {
                not_after: na, manifest_number: s, this_update: tu,
                ca_repository: (*ca).clone(), manifest: m.clone(),
                crl_uri: (**cu).clone(), crl,
            };
            n += 1;
            if let Err((c, msg)) = trip("StoredManifest", &v,
                |v, w| v.write(w),
                |mut r| StoredManifest::read(&mut r).map_err(|e| std::io::Error::from(e).to_string()))
            { if viol.len() < 50 { viol.push((c, msg, json!({"record": "StoredManifest"}))); } }
        }}}}
    }}}

    // StoredStatus (PartialEq not derived: compare the field)
    for t in times() {
        n += 1;
        let mut buf = Vec::new();
        StoredStatus::new(t).write(&mut buf).unwrap();
        buf.extend_from_slice(&SENTINEL);
        let mut rd: &[u8] = &buf;
        match StoredStatus::read(&mut rd) {
            Ok(s) if s.last_update == t && rd == SENTINEL => { }
            Ok(s) => viol.push(("StoredStatus:value".into(), format!("wrote {t:?} read {:?}, {} bytes left", s.last_update, rd.len()), json!({"record": "StoredStatus"}))),
            Err(e) => viol.push(("StoredStatus:read".into(), format!("{}", std::io::Error::from(e)), json!({"record": "StoredStatus"}))),
        }
    }

    // StoredPointHeader: the attempt time is set internally with
    // sub-second precision, which the format does not carry by design, so
    // the check is read(write(h)) re-encodes to identical bytes and a
    // second decode is equal.
    for u in rsync_uris() { for nu in std::iter::once(None).chain(https_uris().into_iter().map(Some)) {
        n += 1;
        let h = StoredPointHeader::new(u.clone(), nu.clone());
        let mut b1 = Vec::new();
        h.write(&mut b1).unwrap();
        let len = b1.len();
        b1.extend_from_slice(&SENTINEL);
        let mut rd: &[u8] = &b1;
        match StoredPointHeader::read(&mut rd) {
            Ok(h2) => {
                let mut b2 = Vec::new();
                h2.write(&mut b2).unwrap();
                let h3 = StoredPointHeader::read(&mut b2.as_slice());
                if b2 != b1[..len] || rd != SENTINEL || h3.ok().as_ref() != Some(&h2) {
                    viol.push(("StoredPointHeader:value".into(), format!("header for {u} / {nu:?} does not re-encode identically"), json!({"record": "StoredPointHeader"})));
                }
            }
            Err(e) => viol.push(("StoredPointHeader:read".into(), format!("{}", std::io::Error::from(e)), json!({"record": "StoredPointHeader"}))),
        }
    }}

    // RepositoryState
    let etags: Vec<Option<Bytes>> = vec![None, Some(Bytes::new()), Some(Bytes::from_static(b"\"\"")),
        Some(Bytes::from_static(b"W/\"x\"")), Some(Bytes::from(vec![b'e'; 300]))];
    let maps: Vec<HashMap<u64, rrdp::Hash>> = vec![
        HashMap::new(),
        [(0u64, rrdp::Hash::from_data(b"a"))].into_iter().collect(),
        [(1u64, rrdp::Hash::from_data(b"a")), (u64::MAX, rrdp::Hash::from_data(b"b")), (1 << 40, rrdp::Hash::from_data(b"c"))].into_iter().collect(),
    ];
    let tss = [0i64, -1, 1, i64::MAX, i64::MIN];
    for nu in https_uris() { for sess in [Uuid::nil(), Uuid::max(), Uuid::from_u128(0x0123456789abcdef0123456789abcdef)] {
        for serial in [0u64, 1, 1 << 63, u64::MAX] { for up in tss { for bb in tss {
            for lm in [None, Some(0i64), Some(i64::MIN), Some(i64::MAX)] { for et in &etags { for map in &maps {
                let v = RepositoryState {
                    rpki_notify: nu.clone(), session: sess, serial, updated_ts: up,
                    best_before_ts: bb, last_modified_ts: lm, etag: et.clone(),
                    delta_state: map.clone(),
                };
                n += 1;
                if let Err((c, msg)) = trip("RepositoryState", &v,
                    |v, w| v.verif_compose(w),
                    |mut r| RepositoryState::verif_parse(&mut r).map_err(|e| e.to_string()))
                { if viol.len() < 50 { viol.push((c, msg, json!({"record": "RepositoryState"}))); } }
            }}}
        }}}
    }}
    // Large delta-state maps around the reader's pre-allocation cap.
    for size in [65535usize, 65536, 65537, 70000] {
        let v = RepositoryState {
            rpki_notify: https_uris()[0].clone(), session: Uuid::nil(), serial: 7, updated_ts: 1,
            best_before_ts: 2, last_modified_ts: None, etag: None,
            delta_state: (0..size as u64).map(|i| (i, rrdp::Hash::from_data(&i.to_be_bytes()))).collect(),
        };
        n += 1;
        CAPS.with(|c| *c.borrow_mut() = vec![8192]);
        if let Err((c, msg)) = trip("RepositoryState", &v,
            |v, w| v.verif_compose(w),
            |mut r| RepositoryState::verif_parse(&mut r).map_err(|e| e.to_string()))
        { viol.push((format!("{c}:large-map"), format!("delta state of {size} entries: {}", msg.chars().take(200).collect::<String>()), json!({"record": "RepositoryState", "delta_state": size}))); }
        CAPS.with(|c| *c.borrow_mut() = caps.clone());
    }

    // The RRDP repository state where it is really kept: as a record of the
    // repository's archive, published once and then replaced in place by
    // states of other lengths (more / fewer remembered deltas, validators
    // appearing and disappearing) within and across the archive's pages.
    {
        use routinator::collector::RrdpArchive;
        let dir = ctx.scratch.join("c28-archive");
        let _ = std::fs::create_dir_all(&dir);
        let state_of = |deltas: usize, etag_len: Option<usize>| RepositoryState {
            rpki_notify: https_uris()[0].clone(), session: Uuid::from_u128(7), serial: deltas as u64 + 1, updated_ts: 1_700_000_000,
            best_before_ts: 1_700_600_000, last_modified_ts: etag_len.map(|l| l as i64),
            etag: etag_len.map(|l| Bytes::from(vec![b'e'; l])),
            delta_state: (0..deltas as u64).map(|i| (i, rrdp::Hash::from_data(&i.to_be_bytes()))).collect(),
        };
        let shapes: Vec<(usize, Option<usize>)> = vec![(0, None), (1, None), (0, Some(2)), (2, Some(10)), (3, None), (1, Some(40)), (6, Some(3)), (20, None), (0, None), (5, Some(300))];
        let mut steps = 0u64;
        let r = util::catch(|| -> Result<(), String> {
            for (fi, first) in shapes.iter().enumerate() {
                let path = std::sync::Arc::new(dir.join(format!("a{fi}.bin")));
                let _ = std::fs::remove_file(path.as_ref());
                let mut archive = RrdpArchive::create(path.clone()).map_err(|_| "archive cannot be created".to_string())?;
                let mut written = state_of(first.0, first.1);
                archive.publish_state(&written).map_err(|_| "publish_state failed".to_string())?;
                for (si, next) in shapes.iter().enumerate() {
                    steps += 1;
                    // read back what is there, through a fresh handle
                    drop(archive);
                    let reader = RrdpArchive::open(path.clone()).map_err(|_| "archive does not open".to_string())?;
                    let got = reader.load_state().map_err(|_| format!("state written with {} deltas / validators {:?} does not load (archive {fi}, step {si})", written.delta_state.len(), written.etag.as_ref().map(|e| e.len())))?;
                    if got != written {
                        return Err(format!("state read back from the archive differs from the one written ({} deltas; archive {fi}, step {si})", written.delta_state.len()))
                    }
                    drop(reader);
                    archive = RrdpArchive::try_open(path.clone()).map_err(|_| "archive does not open for writing".to_string())?.ok_or("archive vanished")?;
                    written = state_of(next.0, next.1);
                    archive.update_state(&written).map_err(|_| "update_state failed".to_string())?;
                }
                drop(archive);
                let reader = RrdpArchive::open(path.clone()).map_err(|_| "archive does not open".to_string())?;
                let got = reader.load_state().map_err(|_| "last state does not load".to_string())?;
                if got != written { return Err("last state read back differs".into()) }
                let _ = std::fs::remove_file(path.as_ref());
            }
            Ok(())
        }).unwrap_or_else(|p| Err(format!("panic: {p}")));
        n += steps;
        if let Err(e) = r {
            viol.push(("RepositoryState:archive".into(), e, json!({"record": "RepositoryState in its archive"})));
        }
        let _ = std::fs::remove_dir_all(&dir);
    }

    // Stored point files read back through the real buffered file reader:
    // the size of the first object is swept so that every later field
    // starts at every offset relative to the reader's 8 KiB buffer.
    {
        let dir = ctx.scratch.join("c28-points");
        let _ = std::fs::create_dir_all(&dir);
        let uris = rsync_uris();
        let hash = |b: u8| Some(ManifestHash::new(Bytes::from(vec![b; 32]), DigestAlgorithm::sha256()));
        let header = StoredPointHeader::new(uris[0].clone(), None);
        let mut head = Vec::new();
        header.write(&mut head).unwrap();
        let sizes: Vec<usize> = if thorough { (0..8192 + 300).collect() } else { (8192 - 400..8192 + 100).collect() };
        let res = util::par_map(sizes.len() as u64, util::cores(), |i| {
            let size = sizes[i as usize];
            let objs = vec![
                StoredObject::new(uris[0].clone(), Bytes::from(vec![0x11u8; size]), hash(0xa1)),
                StoredObject::new(uris[1].clone(), Bytes::from(vec![0x22u8; 40]), hash(0xb2)),
                StoredObject::new(uris[2].clone(), Bytes::from(vec![0x33u8; 3]), None),
                StoredObject::new(uris[3].clone(), Bytes::from(vec![0x44u8; 9000]), hash(0xc3)),
            ];
            let mut buf = head.clone();
            for o in &objs { o.write(&mut buf).unwrap(); }
            let path = dir.join(format!("p{i}.bin"));
            std::fs::write(&path, &buf).unwrap();
            let r = util::catch(|| {
                let point = routinator::store::StoredPoint::load_quietly(path.clone()).ok_or("stored point does not load".to_string())?;
                let mut back = Vec::new();
                for item in point {
                    back.push(item.map_err(|e| format!("object {}: {}", back.len(), std::io::Error::from(e)))?);
                }
                if back != objs { return Err(format!("objects read back differ (read {} of {})", back.len(), objs.len())) }
                Ok(())
            }).unwrap_or_else(|p| Err(format!("panic: {p}")));
            let _ = std::fs::remove_file(&path);
            (size, r)
        });
        for (size, r) in res {
            n += 1;
            if let Err(e) = r {
                if viol.len() < 50 {
                    viol.push(("StoredPoint:file".into(), format!("stored point file whose first object has {size} bytes: {e}"), json!({"record": "stored point file", "first_object_size": size})));
                }
            }
        }
        let _ = std::fs::remove_dir_all(&dir);
    }
    let _ = (&mut std::io::empty()).read(&mut []);

    rep.evaluations = n;
    rep.nontrivial = n;
    let decodes = DECODES.with(|d| d.get());
    rep.extra.insert("decodes".into(), json!(decodes));
    rep.extra.insert("fragment_capacities".into(), json!(caps));
    rep.bound = format!("{n} values over 5 record types and stored point files; {decodes} decodes ({} read fragmentations each)", caps.len() + 1);
    for (class, msg, replay) in viol {
        rep.outcome(format!("VIOLATION:{class}"));
        rep.violation(format!("record:{class}"), msg, replay);
    }
    rep.outcome("checked");
    rep.sample(json!({"record": "RepositoryState", "serial": "2^63", "etag": "W/\"x\"", "delta_state": 3}));
    rep.sample(json!({"record": "StoredManifest", "not_after": "9999-12-31T23:59:59Z", "manifest_number": "2^159-1"}));
    rep.assumptions.push("times are whole seconds (the on-disk resolution by design)".into());
    rep
}

pub fn replay(ctx: &Ctx, _v: &Value) -> Report {
    run(ctx)
}
