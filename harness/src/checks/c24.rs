//! C24 A crash never leaves an RRDP copy that is silently wrong.
//!
//! E-CRASH: during a real RRDP update every storage step of the archive
//! code (each data write into the memory map or file, every set_len, the
//! finalisation of a snapshot archive, removal of the old archive, rename
//! of the new one) reports to a hook, where the harness copies the archive
//! as it is on disk at that instant - the state a SIGKILL there leaves
//! behind (memory-mapped stores are in the page cache, buffered writes
//! that have not been flushed are not). Every such crash state is then
//! continued by a fresh update against several server versions.

use std::cell::RefCell;
use std::path::{Path, PathBuf};
use std::sync::Arc;
use serde_json::{json, Value};
use crate::checks::c25::{self, apply_srv, client_update, fmt_objs, new_server, obj_uri, Mode, SrvOp, Truth, Worker, CONTENTS};
use crate::hooks;
use crate::report::{Ctx, Report};
use crate::rrdpsrv::Server;
use crate::util;

struct Snap { kind: &'static str, archive: Option<Vec<u8>> }

thread_local! {
    static RECORD: RefCell<Option<(PathBuf, Vec<Snap>)>> = const { RefCell::new(None) };
}

fn install_fs_hook() {
    let h = hooks::hooks();
    let mut slot = h.fs.write().unwrap();
    if slot.is_none() {
        *slot = Some(Arc::new(|kind: &'static str, _path: &Path| {
            RECORD.with(|r| {
                if let Some((path, snaps)) = r.borrow_mut().as_mut() {
                    snaps.push(Snap { kind, archive: std::fs::read(&*path).ok() });
                }
            })
        }));
    }
}

#[derive(Clone, Debug)]
pub struct History { name: &'static str, pre: Vec<SrvOp>, change: Vec<SrvOp>, mode: Mode }

pub fn histories() -> Vec<History> {
    use SrvOp::*;
    vec![
        History { name: "first-snapshot", pre: vec![], change: vec![Set(0, Some(0)), Set(1, Some(1))], mode: Mode::Faithful },
        History { name: "one-delta-publish", pre: vec![Set(0, Some(0))], change: vec![Set(1, Some(1))], mode: Mode::Faithful },
        History { name: "one-delta-replace", pre: vec![Set(0, Some(0)), Set(1, Some(0))], change: vec![Set(0, Some(1))], mode: Mode::Faithful },
        History { name: "one-delta-withdraw", pre: vec![Set(0, Some(0)), Set(1, Some(0))], change: vec![Set(1, None)], mode: Mode::Faithful },
        History { name: "two-deltas", pre: vec![Set(0, Some(0)), Set(1, Some(1))], change: vec![Set(0, Some(1)), Set(1, None)], mode: Mode::Faithful },
        History { name: "three-deltas", pre: vec![Set(0, Some(0))], change: vec![Set(1, Some(0)), Set(0, None), Set(0, Some(1))], mode: Mode::Faithful },
        History { name: "new-session-snapshot", pre: vec![Set(0, Some(0)), Set(1, Some(0))], change: vec![Set(0, Some(1)), NewSession], mode: Mode::Faithful },
        History { name: "not-modified", pre: vec![Set(0, Some(0))], change: vec![], mode: Mode::Faithful },
        History { name: "failing-delta-then-snapshot", pre: vec![Set(0, Some(0))], change: vec![Set(1, Some(1))], mode: Mode::DeltaWrongHash(true) },
    ]
}

#[derive(Clone, Copy, Debug)]
pub enum Cont { Same, OneFurther, TwoFurther, NewSession, NotModifiedLie }
pub const CONTS: [Cont; 5] = [Cont::Same, Cont::OneFurther, Cont::TwoFurther, Cont::NewSession, Cont::NotModifiedLie];

/// Runs one history; returns (crash states, per-state results).
fn run_history(
    w: &Worker, h: &History, only: Option<(usize, usize)>
) -> Result<(usize, Vec<(usize, &'static str, String, Result<String, (String, String)>)>), (String, String)> {
    install_fs_hook();
    c25::FATAL_IS_OUTCOME.with(|f| f.set(true));
    let (mut server, mut truth) = new_server();
    for op in &h.pre { apply_srv(&mut server, &mut truth, *op); }
    // the local copy before the interrupted update
    w.install(&None);
    let mut pre_archive = None;
    if !h.pre.is_empty() {
        let o = client_update(w, &server, &truth, Mode::Faithful)?;
        if o.result != "updated" { return Err(("harness".into(), format!("{}: preparing update gave {}", h.name, o.result))) }
        pre_archive = w.read_back();
    }
    for op in &h.change { apply_srv(&mut server, &mut truth, *op); }
    // the update that gets interrupted: record a crash state at every step
    w.install(&pre_archive);
    RECORD.with(|r| *r.borrow_mut() = Some((w.path.clone(), Vec::new())));
    let full = client_update(w, &server, &truth, h.mode);
    let (_, snaps) = RECORD.with(|r| r.borrow_mut().take()).unwrap();
    let full = full?;
    if full.result != "updated" { return Err(("harness".into(), format!("{}: uninterrupted update gave {}", h.name, full.result))) }
    let n = snaps.len();
    let mut results = Vec::new();
    for (k, snap) in snaps.iter().enumerate() {
        for (ci, cont) in CONTS.iter().enumerate() {
            if let Some((ok, oc)) = only { if ok != k || oc != ci { continue } }
            let mut srv: Server = server.clone();
            let mut tr: Truth = truth.clone();
            let mut mode = Mode::Faithful;
            match cont {
                Cont::Same => { }
                Cont::OneFurther => {
                    let flip0 = if srv.objects.get(&obj_uri(0)).map(|v| &v[..]) == Some(CONTENTS[0]) { Some(1) } else { Some(0) };
                    apply_srv(&mut srv, &mut tr, SrvOp::Set(0, flip0));
                }
                Cont::TwoFurther => {
                    let flip1 = if srv.objects.contains_key(&obj_uri(1)) { None } else { Some(0) };
                    apply_srv(&mut srv, &mut tr, SrvOp::Set(1, flip1));
                    let flip0 = if srv.objects.get(&obj_uri(0)).map(|v| &v[..]) == Some(CONTENTS[0]) { Some(1) } else { Some(0) };
                    apply_srv(&mut srv, &mut tr, SrvOp::Set(0, flip0));
                }
                Cont::NewSession => { apply_srv(&mut srv, &mut tr, SrvOp::NewSession); }
                Cont::NotModifiedLie => { mode = Mode::NotModifiedLie; }
            }
            w.install(&snap.archive);
            let r = util::catch(|| client_update(w, &srv, &tr, mode)).unwrap_or_else(|p| Err(("panic".into(), p)));
            let r = r.map(|o| format!("{}:{}", o.result, match &o.local { Some(l) => fmt_objs(&l.objects), None => "-".into() }));
            results.push((k, snap.kind, format!("{cont:?}"), r));
        }
    }
    Ok((n, results))
}

thread_local! {
    static WORKER: RefCell<Option<Worker>> = const { RefCell::new(None) };
}

fn with_worker<R>(scratch: &PathBuf, f: impl FnOnce(&Worker) -> R) -> R {
    WORKER.with(|w| {
        let mut w = w.borrow_mut();
        if w.is_none() { *w = Some(Worker::new(scratch, None)) }
        f(w.as_ref().unwrap())
    })
}

pub fn run(ctx: &Ctx) -> Report {
    util::quiet_panics();
    let mut rep = Report::new("fault_enumeration");
    let hs = histories();
    rep.rule = "real RRDP updates (first snapshot; one delta publishing / \
        replacing / withdrawing; two and three deltas in one update; \
        snapshot of a new session replacing an existing archive; Not \
        Modified; a delta failing its hash check followed by the snapshot) \
        with a crash state captured before every storage step of the \
        archive code (each write into the memory map or file, set_len, \
        snapshot finalisation, removal of the old archive, rename of the \
        new one): the archive file exactly as on disk at that instant; \
        every crash state is continued by a fresh update against the same \
        server version, one and two deltas further, a new session, and a \
        (lying) Not Modified answer; oracle as for C25: an update reported \
        successful leaves the objects equal to the server's snapshot at \
        the serial in the local state record, no panic (an update \
        ending in a reported fatal error is counted as an outcome: the \
        statement does not speak about it); non-trivial = crash states whose archive differs from both \
        the old and the new complete version".into();
    let scratch = ctx.scratch.clone();
    let res = util::par_map(hs.len() as u64, util::cores().min(hs.len()), |i| {
        with_worker(&scratch, |w| (i as usize, util::catch(|| run_history(w, &hs[i as usize], None))
            .unwrap_or_else(|p| Err(("panic".into(), p)))))
    });
    let mut total_states = 0;
    for (i, r) in res {
        let h = &hs[i];
        match r {
            Err((class, msg)) if class == "harness" => { eprintln!("machinery error: {msg}"); std::process::exit(2) }
            Err((class, msg)) => {
                rep.violation(format!("rrdp-crash:{class}:{}:uninterrupted", h.name), format!("history {}: {msg}", h.name), json!({"history": h.name}));
            }
            Ok((n, results)) => {
                total_states += n;
                rep.extra.insert(format!("crash_states_{}", h.name), json!(n));
                let mut distinct = std::collections::BTreeSet::new();
                for (k, kind, cont, r) in results {
                    rep.evaluations += 1;
                    match r {
                        Ok(o) => { distinct.insert((k, o.clone())); rep.outcome(format!("{}:{}", kind, o.split(':').next().unwrap_or(""))) }
                        Err((class, msg)) => {
                            rep.outcome(format!("VIOLATION:{class}"));
                            rep.violation(format!("rrdp-crash:{class}:{}:{kind}:{cont}", h.name), format!(
                                "history {}, killed before storage step {k} ({kind}), continued with {cont}: {msg}", h.name
                            ), json!({"history": h.name, "step": k, "cont": cont}));
                        }
                    }
                }
                rep.nontrivial += distinct.len() as u64;
            }
        }
    }
    rep.extra.insert("crash_states_total".into(), json!(total_states));
    rep.bound = format!("{} histories, {} crash states (every storage step), {} continuations each", hs.len(), total_states, CONTS.len());
    rep.sample(json!({"history": "two-deltas", "step": 7, "cont": "OneFurther"}));
    rep.assumptions.push("a process kill (not power loss): memory-mapped stores and completed write calls survive, user-space buffers do not; the crash state is the archive file as the file system shows it at the hook point, hooks sit before every storage mutation of utils::archive and the remove / rename of the snapshot path".into());
    rep
}

pub fn replay(ctx: &Ctx, v: &Value) -> Report {
    util::quiet_panics();
    let mut rep = Report::new("fault_enumeration");
    let name = v["history"].as_str().unwrap_or("");
    let Some(h) = histories().into_iter().find(|h| h.name == name) else { eprintln!("unknown history"); std::process::exit(2) };
    let step = v["step"].as_u64().unwrap_or(0) as usize;
    let cont = CONTS.iter().position(|c| format!("{c:?}") == v["cont"].as_str().unwrap_or("Same")).unwrap_or(0);
    let r = with_worker(&ctx.scratch, |w| run_history(w, &h, Some((step, cont))));
    match r {
        Ok((n, results)) => {
            println!("{n} crash states");
            for (k, kind, cont, r) in results {
                println!("step {k} ({kind}) continued with {cont}: {r:?}");
                if let Err((class, msg)) = r { rep.violation(format!("rrdp-crash:{class}:{}:{kind}:{cont}", h.name), msg, v.clone()) }
            }
        }
        Err((class, msg)) => rep.violation(format!("rrdp-crash:{class}"), msg, v.clone()),
    }
    rep.evaluations = 1; rep.nontrivial = 2;
    rep.sample(v.clone());
    let _ = c25::HOST;
    rep
}
