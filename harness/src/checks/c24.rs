//! C24 A crash never leaves an RRDP copy that is silently wrong.
//!
//! E-CRASH: during a real RRDP update every storage step of the archive
//! code (each data write into the memory map or file, every set_len, the
//! finalisation of a snapshot archive, removal of the old archive, rename
//! of the new one) reports to a hook, where the harness copies the archive
//! as it is on disk at that instant - the state a SIGKILL there leaves
//! behind (memory-mapped stores are in the page cache, buffered writes
//! that have not been flushed are not). Every such crash state is then
//! continued by a fresh update against several server versions.

use std::cell::RefCell;
use std::path::{Path, PathBuf};
use std::sync::Arc;
use serde_json::{json, Value};
use crate::checks::c25::{self, apply_srv, client_update, fmt_objs, new_server, obj_uri, Mode, SrvOp, Truth, Worker, CONTENTS};
use crate::hooks;
use crate::report::{Ctx, Report};
use crate::rrdpsrv::Server;
use crate::util;

struct Snap { kind: &'static str, archive: Option<Vec<u8>> }

thread_local! {
    static RECORD: RefCell<Option<(PathBuf, Vec<Snap>)>> = const { RefCell::new(None) };
}

fn install_fs_hook() {
    let h = hooks::hooks();
    let mut slot = h.fs.write().unwrap();
    if slot.is_none() {
        *slot = Some(Arc::new(|kind: &'static str, _path: &Path| {
            RECORD.with(|r| {
                if let Some((path, snaps)) = r.borrow_mut().as_mut() {
                    snaps.push(Snap { kind, archive: std::fs::read(&*path).ok() });
                }
            })
        }));
    }
}

#[derive(Clone, Debug)]
pub struct History {
    name: &'static str,
    /// each phase: server steps followed by one faithful, uninterrupted update
    pre: Vec<Vec<SrvOp>>,
    change: Vec<SrvOp>,
    mode: Mode,
    /// objects 2 and 3 get names sharing the archive bucket of object 0
    collide: bool,
}

pub fn histories() -> Vec<History> {
    use SrvOp::*;
    let h = |name, pre: Vec<SrvOp>, change, mode| History { name, pre: if pre.is_empty() { vec![] } else { vec![pre] }, change, mode, collide: false };
    let c = |name, pre, change| History { name, pre, change, mode: Mode::Faithful, collide: true };
    vec![
        h("first-snapshot", vec![], vec![Set(0, Some(0)), Set(1, Some(1))], Mode::Faithful),
        h("one-delta-publish", vec![Set(0, Some(0))], vec![Set(1, Some(1))], Mode::Faithful),
        h("one-delta-replace", vec![Set(0, Some(0)), Set(1, Some(0))], vec![Set(0, Some(1))], Mode::Faithful),
        h("one-delta-withdraw", vec![Set(0, Some(0)), Set(1, Some(0))], vec![Set(1, None)], Mode::Faithful),
        h("two-deltas", vec![Set(0, Some(0)), Set(1, Some(1))], vec![Set(0, Some(1)), Set(1, None)], Mode::Faithful),
        h("three-deltas", vec![Set(0, Some(0))], vec![Set(1, Some(0)), Set(0, None), Set(0, Some(1))], Mode::Faithful),
        h("new-session-snapshot", vec![Set(0, Some(0)), Set(1, Some(0))], vec![Set(0, Some(1)), NewSession], Mode::Faithful),
        h("not-modified", vec![Set(0, Some(0))], vec![], Mode::Faithful),
        h("failing-delta-then-snapshot", vec![Set(0, Some(0))], vec![Set(1, Some(1))], Mode::DeltaWrongHash(true)),
        // Shared buckets and reused space: objects 2 and 3 hash into the
        // bucket of object 0; object 1 sits between object 0 and the state
        // record, so withdrawing it leaves a hole inside the file.
        c("colliding-publish-appended", vec![vec![Set(0, Some(0)), Set(1, Some(0))]], vec![Set(2, Some(1))]),
        c("colliding-publish-into-hole", vec![vec![Set(0, Some(0)), Set(1, Some(0))], vec![Set(1, None)]], vec![Set(2, Some(1))]),
        c("withdraw-then-colliding-publish", vec![vec![Set(0, Some(0)), Set(1, Some(0))]], vec![Set(1, None), Set(2, Some(1))]),
        c("colliding-publish-into-larger-hole", vec![vec![Set(0, Some(0)), Set(1, Some(2))], vec![Set(1, None)]], vec![Set(2, Some(1)), Set(3, Some(0))]),
        c("colliding-withdraw-head", vec![vec![Set(0, Some(0)), Set(1, Some(0))], vec![Set(2, Some(1))]], vec![Set(2, None)]),
        c("colliding-withdraw-tail", vec![vec![Set(0, Some(0)), Set(1, Some(0))], vec![Set(2, Some(1))]], vec![Set(0, None)]),
        c("colliding-withdraw-middle", vec![vec![Set(0, Some(0)), Set(1, Some(0))], vec![Set(2, Some(1))], vec![Set(3, Some(1))]], vec![Set(2, None), Set(1, None)]),
        c("colliding-replace-grows", vec![vec![Set(0, Some(0)), Set(1, Some(0))], vec![Set(2, Some(1))]], vec![Set(0, Some(2))]),
        // Two neighbours withdrawn back to front, so that the second hole
        // absorbs the first while that is the head of the free list, then
        // both names published again into the reused space.
        h("withdraw-neighbours-then-republish", vec![Set(0, Some(0)), Set(1, Some(0)), Set(2, Some(0)), Set(3, Some(0))],
            vec![Set(2, None), Set(1, None), Set(1, Some(1)), Set(2, Some(1))], Mode::Faithful),
        History { name: "republish-into-merged-holes", pre: vec![vec![Set(0, Some(0)), Set(1, Some(0)), Set(2, Some(0)), Set(3, Some(0))], vec![Set(2, None)], vec![Set(1, None)]],
            change: vec![Set(1, Some(1)), Set(2, Some(1))], mode: Mode::Faithful, collide: false },
        c("colliding-replace-shrinks-into-hole", vec![vec![Set(0, Some(2)), Set(1, Some(2))], vec![Set(2, Some(1)), Set(1, None)]], vec![Set(0, Some(0)), Set(3, Some(0))]),
    ]
}

/// Independent look into the file: do the named objects really share a chain?
fn chain_len_of_object0(path: &Path) -> usize {
    use std::hash::Hasher;
    let Ok(b) = std::fs::read(path) else { return 0 };
    if b.len() < 30 { return 0 }
    let key: [u8; 16] = b[6..22].try_into().unwrap();
    let buckets = usize::from_ne_bytes(b[22..30].try_into().unwrap()) as u64;
    let mut h = siphasher::sip::SipHasher24::new_with_key(&key);
    h.write(obj_uri(0).as_bytes());
    let bucket = (h.finish() % buckets) as usize;
    let at = |p: usize| b.get(p..p + 8).map(|x| u64::from_ne_bytes(x.try_into().unwrap())).unwrap_or(0);
    let mut pos = at(30 + bucket * 8);
    let mut n = 0;
    while pos != 0 && n < 100 { n += 1; pos = at(pos as usize + 8); }
    n
}

#[derive(Clone, Copy, Debug)]
pub enum Cont { Same, OneFurther, TwoFurther, NewSession, NotModifiedLie }
pub const CONTS: [Cont; 5] = [Cont::Same, Cont::OneFurther, Cont::TwoFurther, Cont::NewSession, Cont::NotModifiedLie];

/// Runs one history; returns (crash states, per-state results).
fn run_history(
    w: &Worker, h: &History, only: Option<(usize, usize)>
) -> Result<(usize, Vec<(usize, &'static str, String, Result<String, (String, String)>)>), (String, String)> {
    install_fs_hook();
    c25::FATAL_IS_OUTCOME.with(|f| f.set(true));
    c25::NAME_OVERRIDE.with(|n| n.borrow_mut().clear());
    let (mut server, mut truth) = new_server();
    // the local copy before the interrupted update
    w.install(&None);
    let mut pre_archive = None;
    for (i, phase) in h.pre.iter().enumerate() {
        for op in phase { apply_srv(&mut server, &mut truth, *op); }
        w.install(&pre_archive);
        let o = client_update(w, &server, &truth, Mode::Faithful)?;
        if o.result != "updated" { return Err(("harness".into(), format!("{}: preparing update {i} gave {}", h.name, o.result))) }
        pre_archive = w.read_back();
        if i == 0 && h.collide { c25::resolve_colliders(&w.path)?; }
    }
    if h.collide && h.pre.len() > 1 && h.pre[1..].iter().flatten().any(|op| matches!(op, SrvOp::Set(2 | 3, Some(_)))) {
        if chain_len_of_object0(&w.path) < 2 {
            return Err(("harness".into(), format!("{}: the colliding names do not share a chain", h.name)))
        }
    }
    for op in &h.change { apply_srv(&mut server, &mut truth, *op); }
    // the update that gets interrupted: record a crash state at every step
    w.install(&pre_archive);
    RECORD.with(|r| *r.borrow_mut() = Some((w.path.clone(), Vec::new())));
    let full = client_update(w, &server, &truth, h.mode);
    let (_, snaps) = RECORD.with(|r| r.borrow_mut().take()).unwrap();
    let full = full?;
    if full.result != "updated" { return Err(("harness".into(), format!("{}: uninterrupted update gave {}", h.name, full.result))) }
    let n = snaps.len();
    let mut results = Vec::new();
    for (k, snap) in snaps.iter().enumerate() {
        for (ci, cont) in CONTS.iter().enumerate() {
            if let Some((ok, oc)) = only { if ok != k || oc != ci { continue } }
            let mut srv: Server = server.clone();
            let mut tr: Truth = truth.clone();
            let mut mode = Mode::Faithful;
            match cont {
                Cont::Same => { }
                Cont::OneFurther => {
                    let flip0 = if srv.objects.get(&obj_uri(0)).map(|v| &v[..]) == Some(CONTENTS[0]) { Some(1) } else { Some(0) };
                    apply_srv(&mut srv, &mut tr, SrvOp::Set(0, flip0));
                }
                Cont::TwoFurther => {
                    let flip1 = if srv.objects.contains_key(&obj_uri(1)) { None } else { Some(0) };
                    apply_srv(&mut srv, &mut tr, SrvOp::Set(1, flip1));
                    let flip0 = if srv.objects.get(&obj_uri(0)).map(|v| &v[..]) == Some(CONTENTS[0]) { Some(1) } else { Some(0) };
                    apply_srv(&mut srv, &mut tr, SrvOp::Set(0, flip0));
                }
                Cont::NewSession => { apply_srv(&mut srv, &mut tr, SrvOp::NewSession); }
                Cont::NotModifiedLie => { mode = Mode::NotModifiedLie; }
            }
            w.install(&snap.archive);
            let r = util::catch(|| client_update(w, &srv, &tr, mode)).unwrap_or_else(|p| Err(("panic".into(), p)));
            let r = r.map(|o| format!("{}:{}", o.result, match &o.local { Some(l) => fmt_objs(&l.objects), None => "-".into() }));
            results.push((k, snap.kind, format!("{cont:?}"), r));
        }
    }
    Ok((n, results))
}

thread_local! {
    static WORKER: RefCell<Option<Worker>> = const { RefCell::new(None) };
}

fn with_worker<R>(scratch: &PathBuf, f: impl FnOnce(&Worker) -> R) -> R {
    WORKER.with(|w| {
        let mut w = w.borrow_mut();
        if w.is_none() { *w = Some(Worker::new(scratch, None)) }
        f(w.as_ref().unwrap())
    })
}

pub fn run(ctx: &Ctx) -> Report {
    util::quiet_panics();
    let mut rep = Report::new("fault_enumeration");
    let hs = histories();
    rep.rule = "real RRDP updates (first snapshot; one delta publishing / \
        replacing / withdrawing; two and three deltas in one update; \
        snapshot of a new session replacing an existing archive; Not \
        Modified; a delta failing its hash check followed by the snapshot; \
        two neighbouring objects withdrawn back to front and published \
        again, in one update and spread over three; \
        and nine histories in which further objects are given names that \
        the archive's keyed hash puts into the bucket of an existing \
        object - publishing them at the end of the file, into the hole a \
        withdrawn object left, into a larger hole, withdrawing the head / \
        middle / tail of a shared chain, replacing a chained object by a \
        larger / smaller one) \
        with a crash state captured before every storage step of the \
        archive code (each write into the memory map or file, set_len, \
        snapshot finalisation, removal of the old archive, rename of the \
        new one): the archive file exactly as on disk at that instant; \
        every crash state is continued by a fresh update against the same \
        server version, one and two deltas further, a new session, and a \
        (lying) Not Modified answer; oracle as for C25: an update reported \
        successful leaves the objects equal to the server's snapshot at \
        the serial in the local state record, no panic (an update \
        ending in a reported fatal error is counted as an outcome: the \
        statement does not speak about it); non-trivial = crash states whose archive differs from both \
        the old and the new complete version".into();
    let scratch = ctx.scratch.clone();
    let res = util::par_map(hs.len() as u64, util::cores().min(hs.len()), |i| {
        with_worker(&scratch, |w| (i as usize, util::catch(|| run_history(w, &hs[i as usize], None))
            .unwrap_or_else(|p| Err(("panic".into(), p)))))
    });
    let mut total_states = 0;
    for (i, r) in res {
        let h = &hs[i];
        match r {
            Err((class, msg)) if class == "harness" => { eprintln!("machinery error: {msg}"); std::process::exit(2) }
            Err((class, msg)) => {
                rep.violation(format!("rrdp-crash:{class}:{}:uninterrupted", h.name), format!("history {}: {msg}", h.name), json!({"history": h.name}));
            }
            Ok((n, results)) => {
                total_states += n;
                rep.extra.insert(format!("crash_states_{}", h.name), json!(n));
                let mut distinct = std::collections::BTreeSet::new();
                for (k, kind, cont, r) in results {
                    rep.evaluations += 1;
                    match r {
                        Ok(o) => { distinct.insert((k, o.clone())); rep.outcome(format!("{}:{}", kind, o.split(':').next().unwrap_or(""))) }
                        Err((class, msg)) => {
                            rep.outcome(format!("VIOLATION:{class}"));
                            rep.violation(format!("rrdp-crash:{class}:{}:{kind}:{cont}", h.name), format!(
                                "history {}, killed before storage step {k} ({kind}), continued with {cont}: {msg}", h.name
                            ), json!({"history": h.name, "step": k, "cont": cont}));
                        }
                    }
                }
                rep.nontrivial += distinct.len() as u64;
            }
        }
    }
    rep.extra.insert("crash_states_total".into(), json!(total_states));
    rep.bound = format!("{} histories, {} crash states (every storage step), {} continuations each", hs.len(), total_states, CONTS.len());
    rep.sample(json!({"history": "two-deltas", "step": 7, "cont": "OneFurther"}));
    rep.assumptions.push("a process kill (not power loss): memory-mapped stores and completed write calls survive, user-space buffers do not; the crash state is the archive file as the file system shows it at the hook point, hooks sit before every storage mutation of utils::archive and the remove / rename of the snapshot path".into());
    rep
}

pub fn replay(ctx: &Ctx, v: &Value) -> Report {
    util::quiet_panics();
    let mut rep = Report::new("fault_enumeration");
    let name = v["history"].as_str().unwrap_or("");
    let Some(h) = histories().into_iter().find(|h| h.name == name) else { eprintln!("unknown history"); std::process::exit(2) };
    let step = v["step"].as_u64().unwrap_or(0) as usize;
    let cont = CONTS.iter().position(|c| format!("{c:?}") == v["cont"].as_str().unwrap_or("Same")).unwrap_or(0);
    let r = with_worker(&ctx.scratch, |w| run_history(w, &h, Some((step, cont))));
    match r {
        Ok((n, results)) => {
            println!("{n} crash states");
            for (k, kind, cont, r) in results {
                println!("step {k} ({kind}) continued with {cont}: {r:?}");
                if let Err((class, msg)) = r { rep.violation(format!("rrdp-crash:{class}:{}:{kind}:{cont}", h.name), msg, v.clone()) }
            }
        }
        Err((class, msg)) => rep.violation(format!("rrdp-crash:{class}"), msg, v.clone()),
    }
    rep.evaluations = 1; rep.nontrivial = 2;
    rep.sample(v.clone());
    let _ = c25::HOST;
    rep
}
