//! C07 Validation terminates on deep or cyclic CA hierarchies.

use std::collections::BTreeSet;
use std::net::Ipv4Addr;
use std::sync::mpsc;
use std::time::Duration;
use routinator::slurm::LocalExceptions;
use serde_json::{json, Value};
use crate::data;
use crate::etree::{self, Case};
use crate::report::{Ctx, Report};
use crate::rpkigen::{Builder, CaSpec, Gen, ObjSpec, Stale, TalSpec, TreeSpec};
use crate::util;

#[derive(Clone, Debug)]
pub enum Shape {
    /// chain with `depth` CAs below the TA
    Chain { depth: usize },
    /// chain of `k` CAs; the last one issues a certificate for the key of
    /// the CA at level `j` (0 = TA, k = itself); `reuse_repo`: the
    /// certificate points at that ancestor's publication point.
    Cycle { k: usize, j: usize, reuse_repo: bool },
}

#[derive(Clone, Debug)]
pub struct CaseSpec { pub shape: Shape, pub max_depth: usize, pub threads: usize }

fn level_ca(level: usize) -> CaSpec {
    let name = if level == 0 { "ta0".to_string() } else { format!("lv{level}") };
    let mut ca = CaSpec::new(&name, level, &format!("h{level}.example"), "repo");
    ca.v4 = vec![(Ipv4Addr::new(10, 0, 0, 0), 8)];
    ca.asns = vec![(64496, 64600)];
    ca.objs = vec![ObjSpec::roa(&format!("r{level}"), 64496 + level as u32, &format!("10.{level}.0.0"), 16, 16)];
    ca
}

/// Returns the tree and the set of levels that must contribute.
fn tree(c: &CaseSpec) -> (TreeSpec, BTreeSet<usize>, bool) {
    let (depth, cycle) = match c.shape {
        Shape::Chain { depth } => (depth, None),
        Shape::Cycle { k, j, reuse_repo } => (k, Some((j, reuse_repo))),
    };
    // build bottom-up
    let mut cur: Option<CaSpec> = None;
    for level in (0..=depth).rev() {
        let mut ca = level_ca(level);
        if level == depth {
            if let Some((j, reuse)) = cycle {
                // certificate for the key of level j
                let anc = level_ca(j);
                let mut lp = CaSpec::new("loop", j, &anc.host, "repo");
                lp.v4 = anc.v4.clone(); lp.asns = anc.asns.clone();
                if reuse {
                    lp.name = anc.name.clone();   // same mft/crl/repo URIs as the ancestor
                    lp.dir = anc.dir.clone();
                    lp.skip_point = true;
                }
                else {
                    lp.host = "loop.example".into();
                    lp.objs = vec![ObjSpec::roa("rloop", 64599, "10.99.0.0", 16, 16)];
                }
                ca.children.push(lp);
            }
        }
        if let Some(child) = cur.take() { ca.children.push(child); }
        cur = Some(ca);
    }
    let must: BTreeSet<usize> = (0..=depth).filter(|l| *l <= c.max_depth).collect();
    let spec = TreeSpec { tals: vec![TalSpec {
        name: "alpha".into(), ta_uri: "rsync://h0.example/repo/ta0.cer".into(),
        ca: cur.unwrap(), wrong_key: false, https_uri: None,
    }]};
    (spec, must, cycle.is_some())
}

pub fn cases(thorough: bool) -> Vec<CaseSpec> {
    let mut res = Vec::new();
    let threads: &[usize] = if thorough { &[1, 2, 4] } else { &[1, 4] };
    for &t in threads {
        for m in 1..=3usize {
            for d in [m.saturating_sub(1), m, m + 1, m + 2] {
                if d == 0 { continue }
                res.push(CaseSpec { shape: Shape::Chain { depth: d }, max_depth: m, threads: t });
            }
        }
        for k in 1..=3usize { for j in 0..=k { for reuse in [false, true] {
            res.push(CaseSpec { shape: Shape::Cycle { k, j, reuse_repo: reuse }, max_depth: 32, threads: t });
            if thorough {
                res.push(CaseSpec { shape: Shape::Cycle { k, j, reuse_repo: reuse }, max_depth: k, threads: t });
            }
        }}}
    }
    res
}

pub fn run_case(gen: &'static Gen, dir: std::path::PathBuf, c: &CaseSpec) -> Result<String, (String, String)> {
    let (spec, must, has_loop) = tree(c);
    let image = Builder::new(gen, Stale::Reject).build(&spec);
    let case = Case::new(dir);
    case.publish(&image);
    case.write_tals(&image);
    let mut config = case.config();
    config.max_ca_depth = c.max_depth;
    config.validation_threads = c.threads;
    let (tx, rx) = mpsc::channel();
    let cfg = config.clone();
    std::thread::spawn(move || {
        let r = util::catch(|| etree::run(&cfg, false, &LocalExceptions::empty()));
        let _ = tx.send(r);
    });
    let out = match rx.recv_timeout(Duration::from_secs(10)) {
        Ok(Ok(Ok(out))) => out,
        Ok(Ok(Err(e))) => return Err(("run-failed".into(), format!("{c:?}: {e}"))),
        Ok(Err(p)) => return Err(("panic".into(), format!("{c:?}: {p}"))),
        Err(_) => return Err(("no-termination".into(), format!(
            "{c:?}: validation run did not return within 10 s"
        ))),
    };
    let mut want = BTreeSet::new();
    for l in &must { want.insert(data::v4(10, *l as u8, 0, 0, 16, 16, 64496 + *l as u32)); }
    if out.data.origins != want {
        let class = if out.data.origins.contains(&data::v4(10, 99, 0, 0, 16, 16, 64599)) { "loop-cert-contributes" }
            else if out.data.origins.len() > want.len() { "beyond-depth-contributes" } else { "valid-ca-dropped" };
        return Err((class.into(), format!(
            "{c:?}: served {:?}, expected levels {:?}",
            out.data.origins.iter().map(data::fmt_origin).collect::<Vec<_>>(), must
        )))
    }
    let _ = std::fs::remove_dir_all(&case.dir);
    Ok(format!("{}:levels={}", if has_loop { "cycle" } else { "chain" }, must.len()))
}

pub fn run(ctx: &Ctx) -> Report {
    util::quiet_panics();
    let gen: &'static Gen = Box::leak(Box::new(Gen::load()));
    let mut rep = Report::new("exploration");
    let cases = cases(ctx.tier.thorough());
    rep.rule = "chains of depth d in {m-1, m, m+1, m+2} for max-ca-depth m in \
        {1,2,3}; cycles: the CA at depth k in 1..3 issues a certificate for \
        the key of the CA at level j <= k (TA, any ancestor, itself), \
        pointing either at a publication point of its own or at the \
        ancestor's; validation threads 1, (2,) 4; each run must return \
        within a 10 s horizon (normal: < 0.2 s) and serve exactly the \
        levels within the depth limit, nothing through the repeating key; \
        non-trivial = cases with a CA beyond the limit or a cycle".into();
    rep.bound = format!("{} hierarchies", cases.len());
    let res = util::par_map(cases.len() as u64, 6, |i| {
        run_case(gen, ctx.scratch.join(format!("c{i}")), &cases[i as usize])
    });
    for (i, r) in res.into_iter().enumerate() {
        rep.evaluations += 1;
        let c = &cases[i];
        let nontrivial = match c.shape { Shape::Chain { depth } => depth > c.max_depth, Shape::Cycle { .. } => true };
        if nontrivial { rep.nontrivial += 1; }
        match r {
            Ok(o) => rep.outcome(o),
            Err((class, msg)) => {
                rep.outcome(format!("VIOLATION:{class}"));
                rep.violation(format!("hierarchy:{class}:{}", match c.shape { Shape::Chain { .. } => "chain", Shape::Cycle { .. } => "cycle" }),
                    msg, json!({"index": i, "thorough": ctx.tier.thorough()}));
            }
        }
    }
    rep.sample(json!({"shape": "Cycle { k: 2, j: 0, reuse_repo: true }", "meaning": "grandchild CA certifies the TA's key and points at the TA's own publication point"}));
    rep
}

pub fn replay(ctx: &Ctx, v: &Value) -> Report {
    let gen: &'static Gen = Box::leak(Box::new(Gen::load()));
    let mut rep = Report::new("exploration");
    let cases = cases(v["thorough"].as_bool().unwrap_or(false));
    let c = &cases[v["index"].as_u64().unwrap() as usize];
    let r = run_case(gen, ctx.scratch.join("replay"), c);
    println!("{c:?}: {r:?}");
    if let Err((class, msg)) = r { rep.violation(format!("hierarchy:{class}"), msg, v.clone()); }
    rep.evaluations = 1; rep.nontrivial = 2;
    rep.sample(v.clone());
    rep
}
