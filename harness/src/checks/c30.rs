//! C30 Remote URIs map to confined, distinct local paths.
//!
//! A bounded URI grammar (authorities x modules x paths, rsync and https),
//! every URI the rpki-rs parser accepts is run through every real path
//! function (cfg-only accessors to the private functions): confinement of
//! the lexically normalised path, and injectivity over all pairs.

use std::collections::{BTreeMap, BTreeSet};
use std::path::{Component, Path, PathBuf};
use std::str::FromStr;
use routinator::collector::verif::{RrdpCollector, RsyncCollector};
use routinator::store::Store;
use routinator::utils::dump::DumpRegistry;
use rpki::repository::tal::TalUri;
use rpki::uri;
use serde_json::{json, Value};
use crate::etree::Case;
use crate::report::{Ctx, Report};
use crate::util;

fn authorities(thorough: bool) -> Vec<String> {
    let mut v: Vec<String> = [
        "a.example", "A.example", "a.EXAMPLE", "b.example", "a.b.example",
        "..", ".", "...", "%2e%2e", "%2E%2E", "a.example:873", "a.example:443",
        "[::1]", "[::1]:873", "1.2.3.4", "a..b", "-", "_x", "xn--bcher-kva.example",
        "a.example.", "localhost", "a%2fb", "a\\b", "~", "a.example@b",
    ].iter().map(|s| s.to_string()).collect();
    v.push("l".repeat(63) + ".example");
    if thorough {
        for s in ["A.B.EXAMPLE", "..a", "a..", "%00", "a%00b", "a%2f..%2f..", "a,b", "a;b", "a=b", "a+b", "(a)", "a'b", "a*b", "a!b", "a$b", "a&b"] {
            v.push(s.to_string());
        }
    }
    v
}

fn modules(thorough: bool) -> Vec<String> {
    // "t", "ta", "tar" with paths "aroot.cer", "root.cer", "oot.cer": the
    // same characters with the module / path boundary shifted
    let mut v: Vec<String> = ["m", "M", "~", "%2f", "..", ".", "m.n", "a-b_c", "%2e%2e", "m%2f..", "..m", "t", "ta", "tar"]
        .iter().map(|s| s.to_string()).collect();
    if thorough { for s in ["m m", "m:n", "m@n", "m\\n", "%00", "m;n", "m,n"] { v.push(s.to_string()) } }
    v
}

fn paths(thorough: bool) -> Vec<String> {
    let mut v: Vec<String> = [
        "x.cer", "X.cer", "x/y.mft", "a/b/c.roa", "!$&'()*+,;=:@.cer",
        "../x.cer", "a/../../b.cer", "./x.cer", "x%2fy.cer", "%2e%2e/z.cer",
        "", "a//b.cer", "a/b.cer", "/x.cer", "aroot.cer", "root.cer", "oot.cer", "a/root.cer", "ar/oot.cer", "//etc/x.cer", "~x.cer", "..", "a/..", "a/./b.cer",
        "x.cer/", "..x.cer", "x..cer", "a/%2e%2e/b.cer", "a\\..\\b.cer",
    ].iter().map(|s| s.to_string()).collect();
    if thorough {
        for s in ["a/b/c/d/e/f/g.roa", "%00.cer", "a b.cer", "x.cer?y", "x.cer#y", "a/../b.cer", "../../../../../../etc/x.cer", "a/b/../../../c.cer", "%2fetc%2fx.cer", "x.CER"] {
            v.push(s.to_string());
        }
    }
    v
}

/// Lexical normalisation: resolves `.` and `..` without touching the file
/// system; `None` if the path climbs above its root.
fn normalise(p: &Path) -> Option<PathBuf> {
    let mut out: Vec<std::ffi::OsString> = Vec::new();
    for c in p.components() {
        match c {
            Component::RootDir => { out.clear(); out.push("/".into()); }
            Component::Prefix(_) => return None,
            Component::CurDir => { }
            Component::ParentDir => {
                if out.len() <= 1 { return None }
                out.pop();
            }
            Component::Normal(s) => out.push(s.to_os_string()),
        }
    }
    let mut res = PathBuf::new();
    for o in out { res.push(o) }
    Some(res)
}

fn confined(p: &Path, root: &Path) -> bool {
    match normalise(p) {
        Some(n) => n.starts_with(root) && n != root,
        None => false
    }
}

/// Equivalence key of a URI: scheme, lower-cased authority, rest verbatim.
fn equiv_key(u: &str) -> String {
    let (scheme, rest) = u.split_once("://").unwrap();
    let (auth, tail) = match rest.find('/') { Some(i) => (&rest[..i], &rest[i..]), None => (rest, "") };
    format!("{scheme}://{}{tail}", auth.to_ascii_lowercase())
}

/// Module-level key for rsync URIs.
fn module_key(u: &uri::Rsync) -> String {
    format!("{}/{}", u.authority().to_ascii_lowercase(), u.module_name())
}

struct Funcs { store: Store, rsync: RsyncCollector, rrdp: RrdpCollector, cache: PathBuf, dump: PathBuf }

pub fn run(ctx: &Ctx) -> Report {
    util::quiet_panics();
    let mut rep = Report::new("exploration");
    let th = ctx.tier.thorough();
    let case = Case::new(ctx.scratch.join("c30"));
    let mut config = case.config();
    config.disable_rrdp = false;
    let cache = config.cache_dir.clone();
    let dump = case.dir.join("dump");
    let f = Funcs {
        store: Store::new(&config).expect("store"),
        rsync: RsyncCollector::new(&config).ok().flatten().expect("rsync collector"),
        rrdp: RrdpCollector::new(&config).ok().flatten().expect("rrdp collector"),
        cache: cache.clone(), dump: dump.clone(),
    };
    rep.rule = "URIs = authorities (mixed case, dots only, percent-encoded \
        dots, ports, IP literals, 63-char label, odd characters) x modules \
        x paths (legal punctuation, dot segments, empty and doubled \
        slashes, percent-encoded separators), as rsync and as https URIs; \
        every URI the rpki-rs parser accepts goes through the real path \
        functions: store TA path (rsync and https), stored point path \
        (rsync repository and per-RRDP-repository), rsync module directory \
        and file path, RRDP archive path, dump directory (and, end to \
        end, the store dump of five publication points on one host whose \
        URIs differ in module, directory or file name only); oracle: the \
        lexically normalised path lies strictly inside the cache (dump) \
        directory, and over all pairs equal normalised paths imply \
        equivalent URIs (authority case-insensitive, rest exact); \
        non-trivial = accepted URIs containing a dot segment, an encoded \
        character, an upper-case authority, a port or an empty segment".into();
    let mut rsync_uris = Vec::new();
    let mut https_uris = Vec::new();
    let mut rejected = 0u64;
    for a in authorities(th) { for m in modules(th) { for p in paths(th) {
        let s = format!("rsync://{a}/{m}/{p}");
        match uri::Rsync::from_str(&s) { Ok(u) => rsync_uris.push(u), Err(_) => rejected += 1 }
        let s = format!("https://{a}/{m}/{p}");
        match uri::Https::from_str(&s) { Ok(u) => https_uris.push(u), Err(_) => rejected += 1 }
    }}}
    rep.extra.insert("uris_rejected_by_parser".into(), json!(rejected));
    rep.extra.insert("rsync_uris".into(), json!(rsync_uris.len()));
    rep.extra.insert("https_uris".into(), json!(https_uris.len()));
    let odd = |s: &str| s.contains("..") || s.contains('%') || s.contains("//") && s.matches("//").count() > 1
        || s.contains(':') && s.matches(':').count() > 1 || s.chars().any(|c| c.is_ascii_uppercase()) || s.contains("/./");

    // function name -> normalised path -> set of equivalence keys
    let mut maps: BTreeMap<&'static str, BTreeMap<PathBuf, BTreeSet<String>>> = BTreeMap::new();
    let mut check = |rep: &mut Report, func: &'static str, uri_s: &str, key: String, path: PathBuf, root: &Path| {
        rep.evaluations += 1;
        if !confined(&path, root) {
            rep.outcome(format!("VIOLATION:escape:{func}"));
            rep.violation(format!("paths:escape:{func}"), format!(
                "{func}({uri_s}) = {} which is not inside {}", path.display(), root.display()
            ), json!({"func": func, "uri": uri_s}));
            return
        }
        rep.outcome(format!("confined:{func}"));
        let n = normalise(&path).unwrap();
        maps.entry(func).or_default().entry(n).or_default().insert(key);
    };
    // https notify URIs used for per-repository stored points
    let notify_a = uri::Https::from_str("https://rrdp.example/notification.xml").unwrap();
    for u in &rsync_uris {
        let s = u.to_string();
        if odd(&s) { rep.nontrivial += 1 }
        let r = util::catch(|| {
            let (module, file) = f.rsync.verif_paths(u);
            let ta = f.store.verif_ta_path(&TalUri::Rsync(u.clone()));
            let point = f.store.verif_point_path(None, u);
            let point_rrdp = f.store.verif_point_path(Some(&notify_a), u);
            (module, file, ta, point, point_rrdp)
        });
        match r {
            Err(p) => rep.violation("paths:panic", format!("path functions panic for {s}: {p}"), json!({"uri": s})),
            Ok((module, file, ta, point, point_rrdp)) => {
                check(&mut rep, "rsync-module-dir", &s, module_key(u), module, &f.cache);
                // A URI with an empty last segment names a directory: it
                // can never be read or written as a file.
                if s.ends_with('/') { continue }
                check(&mut rep, "rsync-file", &s, equiv_key(&s), file, &f.cache);
                check(&mut rep, "store-ta-rsync", &s, equiv_key(&s), ta, &f.cache);
                check(&mut rep, "store-point-rsync", &s, equiv_key(&s), point, &f.cache);
                check(&mut rep, "store-point-rrdp", &s, equiv_key(&s), point_rrdp, &f.cache);
            }
        }
    }
    let mft = uri::Rsync::from_str("rsync://a.example/m/ca/ca.mft").unwrap();
    let mut registry = DumpRegistry::new(f.dump.clone());
    for u in &https_uris {
        let s = u.to_string();
        if odd(&s) { rep.nontrivial += 1 }
        let r = util::catch(|| {
            let ta = f.store.verif_ta_path(&TalUri::Https(u.clone()));
            let archive = f.rrdp.verif_repository_path(u);
            let point = f.store.verif_point_path(Some(u), &mft);
            (ta, archive, point)
        });
        match r {
            Err(p) => rep.violation("paths:panic", format!("path functions panic for {s}: {p}"), json!({"uri": s})),
            Ok((ta, archive, point)) => {
                check(&mut rep, "store-ta-https", &s, equiv_key(&s), ta, &f.cache);
                if let Some(archive) = archive {
                    check(&mut rep, "rrdp-archive", &s, equiv_key(&s), archive, &f.cache);
                }
                // the repository part of the point path identifies the notify URI
                check(&mut rep, "store-rrdp-repository", &s, equiv_key(&s), point, &f.cache);
            }
        }
        let d = util::catch(|| registry.get_repo_path(Some(u)));
        match d {
            Err(p) => rep.violation("paths:panic", format!("dump registry panics for {s}: {p}"), json!({"uri": s})),
            Ok(d) => check(&mut rep, "dump-repository-dir", &s, equiv_key(&s), d, &f.dump),
        }
    }
    // injectivity: all pairs, via grouping by normalised path
    let mut pairs = 0u64;
    for (func, map) in &maps {
        let total: u64 = map.values().map(|s| s.len() as u64).sum();
        pairs += total * total.saturating_sub(1) / 2;
        for (path, keys) in map {
            if keys.len() > 1 {
                if std::env::var_os("C30_DEBUG").is_some() { eprintln!("SHARED {func} {keys:?}"); }
                let list: Vec<&String> = keys.iter().take(3).collect();
                rep.outcome(format!("VIOLATION:shared:{func}"));
                rep.violation(format!("paths:shared:{func}"), format!(
                    "{func}: non-equivalent URIs {list:?} share the file {}", path.display()
                ), json!({"func": func, "uris": list}));
            }
        }
    }
    // The store dump, end to end: publication points on one host whose
    // URIs differ in one component only (module; directory; file) are
    // validated, stored and dumped - every stored object must survive in a
    // file of its own under the dump directory.
    {
        use crate::rpkigen::{Builder, CaSpec, Gen, ObjSpec, Stale, TalSpec, TreeSpec};
        rep.evaluations += 1;
        rep.nontrivial += 1;
        let r = util::catch(|| -> Result<usize, String> {
            let gen = Gen::load();
            let mut ta = CaSpec::new("ta0", 0, "dump.c30.example", "repo");
            ta.v4 = vec![(std::net::Ipv4Addr::new(10, 0, 0, 0), 8)];
            ta.asns = vec![(64496, 64600)];
            ta.objs = vec![ObjSpec::roa("r", 64496, "10.0.0.0", 16, 16)];
            // (name, module, directory): same directory and file names in two modules; two directories in one module
            for (i, (name, module, dir)) in [("cax", "repo", "ca/"), ("cay", "repo-2", "ca/"), ("caz", "repo", "cb/"), ("caw", "repo-2", "cb/")].iter().enumerate() {
                let mut ca = CaSpec::new(name, 1 + i, "dump.c30.example", module);
                ca.dir = dir.to_string();
                ca.v4 = vec![(std::net::Ipv4Addr::new(10, 1 + i as u8, 0, 0), 16)];
                ca.asns = vec![(64500 + i as u32, 64500 + i as u32)];
                ca.objs = vec![ObjSpec::roa("r", 64500 + i as u32, &format!("10.{}.0.0", 1 + i), 16, 16)];
                ta.children.push(ca);
            }
            let spec = TreeSpec { tals: vec![TalSpec { name: "alpha".into(), ta_uri: "rsync://dump.c30.example/repo/ta0.cer".into(), ca: ta, wrong_key: false, https_uri: None }] };
            let image = Builder::new(&gen, Stale::Reject).build(&spec);
            let case = Case::new(ctx.scratch.join("c30-dump"));
            case.publish(&image);
            case.write_tals(&image);
            let config = case.config();
            let out = crate::etree::run(&config, false, &routinator::slurm::LocalExceptions::empty())?;
            if out.data.origins.len() != 5 { return Err(format!("harness: {} origins validated, expected 5", out.data.origins.len())) }
            let dump = case.dir.join("dumped");
            Store::new(&config).map_err(|_| "Store::new".to_string())?.dump(&dump).map_err(|_| "Store::dump failed".to_string())?;
            let mut dumped: Vec<Vec<u8>> = Vec::new();
            fn walk(dir: &std::path::Path, out: &mut Vec<Vec<u8>>) {
                if let Ok(rd) = std::fs::read_dir(dir) { for e in rd.flatten() {
                    if e.path().is_dir() { walk(&e.path(), out) } else if let Ok(b) = std::fs::read(e.path()) { out.push(b) }
                }}
            }
            walk(&dump.join("store"), &mut dumped);
            let mut checked = 0;
            for (uri, content) in &image.files {
                // everything that is part of a stored publication point
                if !(uri.ends_with(".mft") || uri.ends_with(".crl") || uri.ends_with(".roa")) { continue }
                checked += 1;
                if !dumped.iter().any(|d| d == content) {
                    return Err(format!("the dumped copy of {uri} is missing (lost or overwritten by another object's file)"))
                }
            }
            let _ = std::fs::remove_dir_all(&case.dir);
            Ok(checked)
        }).unwrap_or_else(|p| Err(format!("panic: {p}")));
        match r {
            Ok(n) => { rep.extra.insert("dumped_objects_checked".into(), json!(n)); rep.outcome("dump:all-objects-present"); }
            Err(e) if e.starts_with("harness") => { eprintln!("machinery error: {e}"); std::process::exit(2) }
            Err(e) => rep.violation("paths:shared:store-dump-object", e, json!({"func": "store dump"})),
        }
    }
    rep.extra.insert("pairs_compared".into(), json!(pairs));
    rep.bound = format!("{} rsync and {} https URIs accepted by the parser, {pairs} pairs", rsync_uris.len(), https_uris.len());
    rep.sample(json!({"uri": "rsync://A.example/m/a/../../b.cer"}));
    rep.sample(json!({"uri": "https://../%2e%2e//etc/x.cer"}));
    rep.assumptions.push("lexical normalisation models what the operating system does with dot segments; symlinks inside the cache are out of scope".into());
    rep
}

pub fn replay(ctx: &Ctx, v: &Value) -> Report {
    let mut rep = Report::new("exploration");
    let case = Case::new(ctx.scratch.join("c30"));
    let mut config = case.config();
    config.disable_rrdp = false;
    let store = Store::new(&config).expect("store");
    let rsync = RsyncCollector::new(&config).ok().flatten().expect("rsync collector");
    let s = v["uri"].as_str().or_else(|| v["uris"][0].as_str()).unwrap_or("");
    if let Ok(u) = uri::Rsync::from_str(s) {
        let (m, f) = rsync.verif_paths(&u);
        println!("module dir {}\nfile {}\nta {}\npoint {}", m.display(), f.display(),
            store.verif_ta_path(&TalUri::Rsync(u.clone())).display(), store.verif_point_path(None, &u).display());
        for p in [m, f, store.verif_point_path(None, &u)] {
            if !confined(&p, &config.cache_dir) {
                rep.violation("paths:escape", format!("{} escapes {}", p.display(), config.cache_dir.display()), v.clone());
            }
        }
    }
    rep.evaluations = 1; rep.nontrivial = 2;
    rep.sample(v.clone());
    rep
}
