//! C18 JSON delta and snapshot streams are well-formed and exact.

use rpki::rtr::payload::{Action, Payload};
use routinator::payload::SharedHistory;
use serde_json::{json, Value};
use crate::data::{self, DataSet};
use crate::httpd::Httpd;
use crate::report::{Ctx, Report};
use crate::util;

/// The canonical form of an item as the JSON document should present it.
pub fn expect_item(p: &Payload) -> Value {
    match p {
        Payload::Origin(o) => json!({
            "type": "routeOrigin",
            "asn": format!("{}", o.asn),
            "prefix": format!("{}/{}", o.prefix.addr(), o.prefix.prefix_len()),
            "maxLength": o.prefix.resolved_max_len(),
        }),
        Payload::RouterKey(k) => json!({
            "type": "routerKey",
            "keyIdentifier": format!("{}", k.key_identifier),
            "asn": format!("{}", k.asn),
            "keyInfo": format!("{}", k.key_info),
        }),
        Payload::Aspa(a) => json!({
            "type": "aspa",
            "customerAsn": format!("{}", a.customer),
            "providerAsns": a.providers.iter().map(|x| format!("{x}")).collect::<Vec<_>>(),
        }),
    }
}

fn sorted(list: &[Value]) -> Vec<String> {
    let mut v: Vec<String> = list.iter().map(|x| x.to_string()).collect();
    v.sort();
    v
}

pub struct Doc {
    pub old: DataSet,
    pub new: DataSet,
}

/// Checks the delta and the reset document for one (old, new) pair.
pub fn check_doc(doc: &Doc) -> Result<(usize, usize), (String, String)> {
    let mut config = data::mem_config();
    config.history_size = 10;
    let history = SharedHistory::from_config(&config);
    data::install(&history, &config, &doc.old);
    history.mark_update_done();
    let changed = data::install(&history, &config, &doc.new);
    history.mark_update_done();
    let httpd = Httpd::new(&config, history.clone());
    let session = history.read().session();
    let cur_serial = if changed { 1 } else { 0 };
    let mut max_chunks = 0;

    // --- the delta document
    let ans = util::catch(|| {
        httpd.get(&format!("/json-delta?session={session}&serial=0"), &[])
    }).map_err(|e| ("panic".to_string(), format!("handler panicked: {e}")))?;
    if ans.status != 200 {
        return Err(("status".into(), format!("delta status {}", ans.status)))
    }
    max_chunks = max_chunks.max(ans.chunks.len());
    let v: Value = serde_json::from_slice(&ans.body).map_err(|e| {
        ("delta-json".to_string(), format!(
            "delta document is not one valid JSON document: {e} \
             (chunks {:?})", ans.chunks
        ))
    })?;
    // expected change set from the reference
    let mut ann = Vec::new();
    let mut wd = Vec::new();
    for o in doc.new.origins.difference(&doc.old.origins) {
        ann.push(expect_item(&Payload::Origin(*o)));
    }
    for o in doc.old.origins.difference(&doc.new.origins) {
        wd.push(expect_item(&Payload::Origin(*o)));
    }
    for k in doc.new.keys.difference(&doc.old.keys) {
        ann.push(expect_item(&Payload::RouterKey(k.clone())));
    }
    for k in doc.old.keys.difference(&doc.new.keys) {
        wd.push(expect_item(&Payload::RouterKey(k.clone())));
    }
    for (c, p) in &doc.new.aspas {
        if doc.old.aspas.get(c) != Some(p) {
            ann.push(expect_item(&Payload::aspa(*c, p.clone())));
        }
    }
    for (c, _) in &doc.old.aspas {
        if !doc.new.aspas.contains_key(c) {
            wd.push(expect_item(&Payload::aspa(
                *c, rpki::rtr::pdu::ProviderAsns::empty()
            )));
        }
    }
    let field = |v: &Value, k: &str| -> Result<Value, (String, String)> {
        v.get(k).cloned().ok_or_else(|| {
            ("missing-field".to_string(), format!("field {k} missing"))
        })
    };
    if field(&v, "reset")? != json!(false) {
        return Err(("reset-flag".into(), "delta document has reset != false".into()))
    }
    if field(&v, "session")? != json!(session.to_string()) {
        return Err(("session".into(), "wrong session in delta document".into()))
    }
    if field(&v, "serial")? != json!(cur_serial) || field(&v, "fromSerial")? != json!(0) {
        return Err(("serials".into(), format!(
            "serial/fromSerial {}/{} expected {cur_serial}/0",
            v["serial"], v["fromSerial"]
        )))
    }
    let got_ann = field(&v, "announced")?;
    let got_wd = field(&v, "withdrawn")?;
    let (got_ann, got_wd) = match (got_ann.as_array(), got_wd.as_array()) {
        (Some(a), Some(w)) => (a.clone(), w.clone()),
        _ => return Err(("lists".into(), "announced/withdrawn not arrays".into()))
    };
    if sorted(&got_ann) != sorted(&ann) {
        return Err(("announced".into(), format!(
            "announced list has {} items, expected {}; first difference: {:?}",
            got_ann.len(), ann.len(),
            sorted(&got_ann).iter().zip(sorted(&ann).iter()).find(|(a, b)| a != b)
        )))
    }
    if sorted(&got_wd) != sorted(&wd) {
        return Err(("withdrawn".into(), format!(
            "withdrawn list has {} items, expected {}; first difference: {:?}",
            got_wd.len(), wd.len(),
            sorted(&got_wd).iter().zip(sorted(&wd).iter()).find(|(a, b)| a != b)
        )))
    }

    // --- the reset document
    // no parameters, and sessions of other server instances (started a
    // second / an hour earlier or later; differing only above bit 16) with
    // serials this instance knows
    let mut reset_uris = vec!["/json-delta".to_string()];
    for other in [session.wrapping_add(1), session.wrapping_sub(1), session.wrapping_add(3600), session.wrapping_sub(3600), session ^ (1 << 16), session ^ (1 << 40)] {
        for serial in [0, cur_serial] { reset_uris.push(format!("/json-delta?session={other}&serial={serial}")); }
    }
    reset_uris.dedup();
    for uri in reset_uris {
        let ans = util::catch(|| httpd.get(&uri, &[]))
            .map_err(|e| ("panic".to_string(), format!("handler panicked: {e}")))?;
        max_chunks = max_chunks.max(ans.chunks.len());
        let v: Value = serde_json::from_slice(&ans.body).map_err(|e| {
            ("reset-json".to_string(), format!(
                "reset document is not one valid JSON document: {e} \
                 (chunks {:?})", ans.chunks
            ))
        })?;
        if field(&v, "reset")? != json!(true)
            || field(&v, "session")? != json!(session.to_string())
            || field(&v, "serial")? != json!(cur_serial)
        {
            return Err(("reset-head".into(), format!("{uri} (own session {session}): expected a reset document with the own session and serial {cur_serial}, got reset={} session={} serial={}", v["reset"], v["session"], v["serial"])))
        }
        let mut all = Vec::new();
        for o in &doc.new.origins { all.push(expect_item(&Payload::Origin(*o))); }
        for k in &doc.new.keys { all.push(expect_item(&Payload::RouterKey(k.clone()))); }
        for (c, p) in &doc.new.aspas { all.push(expect_item(&Payload::aspa(*c, p.clone()))); }
        let got = field(&v, "announced")?.as_array().cloned().unwrap_or_default();
        if sorted(&got) != sorted(&all) {
            return Err(("reset-announced".into(), format!(
                "reset announced list has {} items, expected {}",
                got.len(), all.len()
            )))
        }
        if v.get("withdrawn").is_some() {
            return Err(("reset-withdrawn".into(), "reset document has withdrawn".into()))
        }
    }
    let _ = Action::Announce;
    Ok((ann.len() + wd.len(), max_chunks))
}

/// n distinct origins (~150 bytes each in JSON).
fn many_origins(start: u32, n: u32) -> Vec<rpki::rtr::payload::RouteOrigin> {
    (start..start + n).map(|i| {
        data::v4(10, (i >> 8) as u8, (i & 0xff) as u8, 0, 24, 24 + (i % 9) as u8, 64496 + i)
    }).collect()
}

fn small_docs() -> Vec<(String, Doc)> {
    // per type: (a, w) in {0,1,2}^2; all type combinations
    let o = many_origins(0, 4);
    let k = [data::router_key(1, 1, b"k1"), data::router_key(2, 2, b"k2"),
             data::router_key(3, 3, b"k3"), data::router_key(4, 4, b"k4")];
    let mut res = Vec::new();
    for oc in 0..9 { for kc in 0..9 { for ac in 0..9 {
        let (oa, ow) = (oc / 3, oc % 3);
        let (ka, kw) = (kc / 3, kc % 3);
        let (aa, aw) = (ac / 3, ac % 3);
        let mut old = DataSet::default();
        let mut new = DataSet::default();
        for i in 0..ow { old.origins.insert(o[i]); }
        for i in 0..oa { new.origins.insert(o[2 + i]); }
        for i in 0..kw { old.keys.insert(k[i].clone()); }
        for i in 0..ka { new.keys.insert(k[2 + i].clone()); }
        // ASPA: withdraw customers 1..=aw; announce: one new customer and
        // (if aa == 2) one provider change of a customer present in both.
        for i in 0..aw { old.aspas.insert((100 + i as u32).into(), data::aspa(0, &[1, 2]).providers); }
        if aa >= 1 { new.aspas.insert(200.into(), data::aspa(0, &[7]).providers); }
        if aa >= 2 {
            old.aspas.insert(300.into(), data::aspa(0, &[1]).providers);
            new.aspas.insert(300.into(), data::aspa(0, &[1, 2, 3]).providers);
        }
        res.push((format!("small:o{oa}{ow}k{ka}{kw}a{aa}{aw}"), Doc { old, new }));
    }}}
    res
}

fn large_docs(thorough: bool) -> Vec<(String, Doc)> {
    let mut res = Vec::new();
    let step = 1;
    // Calibrate: how many origins fill one 64000 byte chunk?
    let n0 = {
        let mut config = data::mem_config();
        config.history_size = 10;
        let history = SharedHistory::from_config(&config);
        let ds = DataSet { origins: many_origins(0, 200).into_iter().collect(), ..Default::default() };
        data::install(&history, &config, &ds);
        history.mark_update_done();
        let httpd = Httpd::new(&config, history);
        let len = httpd.get("/json-delta", &[]).body.len();
        (64000 * 200 / len) as u32
    };
    let (mut n, hi) = if thorough { (n0 - 60, n0 + 60) } else { (n0 - 20, n0 + 20) };
    while n <= hi {
        // announces only
        res.push((format!("large:announce{n}"), Doc {
            old: DataSet::default(),
            new: DataSet { origins: many_origins(0, n).into_iter().collect(), ..Default::default() },
        }));
        // withdraws only
        res.push((format!("large:withdraw{n}"), Doc {
            old: DataSet { origins: many_origins(0, n).into_iter().collect(), ..Default::default() },
            new: DataSet::default(),
        }));
        // n announces then withdraws: chunk boundary near the separator
        for w in [1u32, 2, 40] {
            res.push((format!("large:announce{n}withdraw{w}"), Doc {
                old: DataSet { origins: many_origins(10_000, w).into_iter().collect(), ..Default::default() },
                new: DataSet { origins: many_origins(0, n).into_iter().collect(), ..Default::default() },
            }));
        }
        n += step;
    }
    // two boundaries and mixed types behind a boundary
    for n in [2 * n0 - 12, 2 * n0 - 6, 2 * n0 - 3, 2 * n0, 2 * n0 + 3, 2 * n0 + 6, 2 * n0 + 12] {
        let mut new = DataSet { origins: many_origins(0, n).into_iter().collect(), ..Default::default() };
        new.keys.insert(data::router_key(9, 9, b"behind-the-boundary"));
        new.aspas.insert(500.into(), data::aspa(0, &[1, 2]).providers);
        res.push((format!("large:mixed{n}"), Doc { old: DataSet::default(), new }));
    }
    // many ASPAs (announce list made of ASPAs crossing the boundary)
    for n in [600u32, 700] {
        let mut new = DataSet::default();
        for i in 0..n { new.aspas.insert((1000 + i).into(), data::aspa(0, &[1, 2, i + 3]).providers); }
        let mut old = DataSet::default();
        for i in 0..n { old.aspas.insert((5000 + i).into(), data::aspa(0, &[1]).providers); }
        res.push((format!("large:aspas{n}"), Doc { old, new }));
    }
    res
}

pub fn docs(thorough: bool) -> Vec<(String, Doc)> {
    let mut res = small_docs();
    res.extend(large_docs(thorough));
    res
}

pub fn run(ctx: &Ctx) -> Report {
    util::quiet_panics();
    let mut rep = Report::new("exploration");
    rep.rule = "change sets with (announced, withdrawn) counts in {0,1,2}^2 \
        for each payload type, all 729 type combinations; plus origin / \
        mixed / ASPA lists whose rendering crosses the 64000 byte chunk \
        threshold at every item position (calibrated threshold +-20 items, thorough +-60, one and two \
        boundaries, boundary around the announce/withdraw separator); \
        each served by the real dispatcher for /json-delta with and \
        without a version; parsed by serde_json as exactly one document \
        and compared as multisets with the reference change set; \
        non-trivial = documents with at least one item".into();
    let docs = docs(ctx.tier.thorough());
    rep.bound = format!("{} (old,new) pairs, 3 documents each", docs.len());
    let res = util::par_map(docs.len() as u64, util::cores(), |i| {
        check_doc(&docs[i as usize].1)
    });
    let mut multi_chunk = 0;
    for (i, r) in res.into_iter().enumerate() {
        rep.evaluations += 3;
        if docs[i].1.old != docs[i].1.new { rep.nontrivial += 1; }
        match r {
            Ok((_, chunks)) => {
                if chunks > 1 { multi_chunk += 1; }
                rep.outcome(format!("ok:chunks={chunks}"));
            }
            Err((class, msg)) => {
                rep.outcome(format!("VIOLATION:{class}"));
                rep.violation(
                    format!("json-delta:{class}"),
                    format!("{}: {msg}", docs[i].0),
                    json!({"doc": docs[i].0})
                );
            }
        }
    }
    rep.extra.insert("multi_chunk_documents".into(), json!(multi_chunk));
    rep.sample(json!({"doc": "small:o12k00a21", "meaning": "1 origin announced, 2 withdrawn, 2 ASPA announces (1 new, 1 changed), 1 ASPA withdrawn"}));
    rep.sample(json!({"doc": "large:announce427withdraw1"}));
    rep.assumptions.push("serde_json is the independent JSON parser; item \
        field rendering (ASN, prefix, key) uses rpki-rs Display".into());
    rep
}

pub fn replay(_ctx: &Ctx, v: &Value) -> Report {
    let mut rep = Report::new("exploration");
    let name = v["doc"].as_str().unwrap();
    let docs = docs(true);
    let (_, doc) = docs.iter().find(|d| d.0 == name).expect("doc");
    let r = check_doc(doc);
    println!("{name}: {r:?}");
    if let Err((class, msg)) = r {
        rep.violation(format!("json-delta:{class}"), msg, v.clone());
    }
    rep.evaluations = 3; rep.nontrivial = 2;
    rep.sample(v.clone());
    rep
}
