//! C38 The object size limit is applied exactly as configured.
//!
//! Full product limit x size x Content-Length x path on the real RRDP
//! collector (trust anchor download, snapshot publish, delta publish) over
//! the fake HTTPS transport.

use std::str::FromStr;
use std::sync::{Arc, Mutex};
use routinator::collector::verif::{RrdpCollector, RrdpLoadResult};
use routinator::verif::HttpAnswer;
use rpki::uri;
use serde_json::{json, Value};
use crate::etree::Case;
use crate::report::{Ctx, Report};
use crate::rrdpsrv::{self, Server};
use crate::util;

#[derive(Clone, Copy, Debug, Eq, PartialEq)]
pub enum PathKind { Ta, Snapshot, Delta }

#[derive(Clone, Debug)]
pub struct CaseSpec { limit: Option<u64>, size: u64, known_length: bool, path: PathKind }

const DEFAULT_LIMIT: u64 = 20_000_000;

fn cases(thorough: bool) -> Vec<CaseSpec> {
    let mut res = Vec::new();
    let mut limits: Vec<(Option<u64>, Vec<u64>)> = vec![
        (None, vec![1, 25_000_000]),
        (Some(100), vec![99, 100, 101]),
        (Some(DEFAULT_LIMIT), vec![DEFAULT_LIMIT - 1, DEFAULT_LIMIT, DEFAULT_LIMIT + 1]),
    ];
    if thorough {
        limits.push((Some(1), vec![0, 1, 2]));
        limits.push((Some(65536), vec![65535, 65536, 65537]));
        limits.push((Some(1 << 20), vec![(1 << 20) - 1, 1 << 20, (1 << 20) + 1]));
    }
    for (limit, sizes) in limits {
        for size in sizes {
            for known_length in [true, false] {
                for path in [PathKind::Ta, PathKind::Snapshot, PathKind::Delta] {
                    res.push(CaseSpec { limit, size, known_length, path });
                }
            }
        }
    }
    res
}

/// The size limit as the real configuration code produces it for the
/// documented spelling (0 = disabled), given on the command line (even
/// case indexes) or in the config file (odd ones); the default limit also
/// by not being mentioned at all (every third case).
fn configured_limit(dir: &std::path::Path, idx: usize, limit: Option<u64>) -> Result<Option<u64>, String> {
    use clap::Command;
    use routinator::config::Config;
    let value = limit.unwrap_or(0);
    let conf = dir.join("limit.conf");
    let mut args: Vec<String> = vec!["routinator".into(), "-c".into(), conf.display().to_string()];
    if limit == Some(DEFAULT_LIMIT) && idx % 3 == 2 {
        // the documented default: mentioned neither in the file nor on the command line
        std::fs::write(&conf, "repository-dir = \"/nonexistent\"\n").map_err(|e| e.to_string())?;
    }
    else if idx % 2 == 0 {
        std::fs::write(&conf, "repository-dir = \"/nonexistent\"\n").map_err(|e| e.to_string())?;
        args.push("--max-object-size".into());
        args.push(value.to_string());
    }
    else {
        std::fs::write(&conf, format!("repository-dir = \"/nonexistent\"\nmax-object-size = {value}\n")).map_err(|e| e.to_string())?;
    }
    let matches = Config::config_args(Command::new("routinator")).try_get_matches_from(&args).map_err(|e| e.to_string())?;
    let config = Config::from_arg_matches(&matches, dir).map_err(|_| "config rejected".to_string())?;
    Ok(config.max_object_size)
}

fn blob(size: u64, seed: u8) -> Vec<u8> {
    (0..size).map(|i| (i as u8).wrapping_mul(31).wrapping_add(seed)).collect()
}

fn run_case(dir: std::path::PathBuf, idx: usize, c: &CaseSpec) -> Result<String, (String, String)> {
    let case = Case::new(dir);
    let mut config = case.config();
    config.disable_rrdp = false;
    config.max_object_size = configured_limit(&case.dir, idx, c.limit).map_err(|e| ("harness".to_string(), e))?;
    let host = format!("c{idx}.c38.example");
    let mut collector = RrdpCollector::new(&config).ok().flatten().ok_or(("harness".to_string(), "no collector".to_string()))?;
    collector.ignite().map_err(|_| ("harness".to_string(), "ignite".to_string()))?;
    let accept_expected = c.limit.map(|l| c.size <= l).unwrap_or(true);
    let desc = format!("limit {}, object of {} bytes, Content-Length {}, {:?}",
        c.limit.map(|l| l.to_string()).unwrap_or("disabled".into()), c.size,
        if c.known_length { "present" } else { "absent" }, c.path);
    let known = c.known_length;
    let verdict = |accepted: bool, how: &str| -> Result<String, (String, String)> {
        match (accept_expected, accepted) {
            (true, true) => Ok(format!("accepted:{:?}", c.path)),
            (false, false) => Ok(format!("refused:{:?}", c.path)),
            (true, false) => Err(("refused-within-limit".into(), format!("{desc}: the object was refused ({how})"))),
            (false, true) => Err(("accepted-over-limit".into(), format!("{desc}: the object was accepted ({how})"))),
        }
    };
    match c.path {
        PathKind::Ta => {
            let content = blob(c.size, 7);
            let ta_uri = format!("https://{host}/ta/ta.cer");
            let served = content.clone();
            let _g = rrdpsrv::serve_host(&host, Arc::new(move |_uri, _etag, _lm| {
                let mut r = rrdpsrv::resp(200, vec![], served.clone());
                r.known_length = known;
                Some(HttpAnswer::Response(r))
            }));
            let run = collector.start();
            let got = run.load_ta(&uri::Https::from_str(&ta_uri).unwrap());
            let accepted = got.as_ref().map(|b| b.as_ref() == &content[..]).unwrap_or(false);
            verdict(accepted, &format!("load_ta returned {:?} bytes", got.map(|b| b.len())))
        }
        PathKind::Snapshot | PathKind::Delta => {
            let mut server = Server::new(&format!("https://{host}/r"));
            let small = format!("rsync://{host}/m/small.bin");
            let big = format!("rsync://{host}/m/big.bin");
            // everything else stays within any limit under test
            server.objects.insert(small.clone(), Vec::new());
            if c.path == PathKind::Snapshot {
                server.objects.insert(big.clone(), blob(c.size, 3));
            }
            server.new_session();
            let server = Arc::new(Mutex::new(server));
            let _g = {
                let server = server.clone();
                rrdpsrv::serve_host(&host, Arc::new(move |uri, etag, _lm| {
                    server.lock().unwrap().answer(uri, etag).map(|mut r| {
                        r.known_length = known;
                        HttpAnswer::Response(r)
                    })
                }))
            };
            let notify = uri::Https::from_str(&server.lock().unwrap().notify_uri()).unwrap();
            let big_uri = uri::Rsync::from_str(&big).unwrap();
            let check = |res: Result<RrdpLoadResult, routinator::error::RunFailed>| -> Result<(bool, String), (String, String)> {
                match res {
                    Ok(RrdpLoadResult::Updated(repo)) => {
                        let obj = repo.load_object(&big_uri).map_err(|_| ("harness".to_string(), "load_object failed".to_string()))?;
                        let ok = obj.as_ref().map(|b| b.len() as u64 == c.size).unwrap_or(false);
                        Ok((ok, format!("update succeeded, object reads as {:?} bytes", obj.map(|b| b.len()))))
                    }
                    Ok(RrdpLoadResult::Current) => Ok((false, "update failed, copy current".into())),
                    Ok(RrdpLoadResult::Stale) => Ok((false, "update failed, copy stale".into())),
                    Ok(RrdpLoadResult::Unavailable) => Ok((false, "update failed, no copy".into())),
                    Err(_) => Err(("run-failed".to_string(), format!("{desc}: the run failed"))),
                }
            };
            if c.path == PathKind::Delta {
                let run = collector.start();
                match run.load_repository(&notify) {
                    Ok(RrdpLoadResult::Updated(_)) => { }
                    _ => return Err(("harness".into(), format!("{desc}: initial snapshot update failed")))
                }
                drop(run);
                server.lock().unwrap().set(&big, Some(&blob(c.size, 3)));
            }
            let run = collector.start();
            let (accepted, how) = check(run.load_repository(&notify))?;
            verdict(accepted, &how)
        }
    }
}

pub fn run(ctx: &Ctx) -> Report {
    util::quiet_panics();
    let mut rep = Report::new("exploration");
    let cases = cases(ctx.tier.thorough());
    rep.rule = "full product: limit {disabled, 100, default 20 MB} \
        (thorough also 1, 64 KiB, 1 MiB) x object size {limit-1, limit, \
        limit+1} (disabled: 1 byte and 25 MB) x Content-Length present / \
        absent x path {HTTPS trust anchor download, object published in \
        an RRDP snapshot, object published in an RRDP delta}, on the real \
        RRDP collector over the fake HTTPS transport, the limit being \
        configured through the real option parsing (command line for \
        even, config file for odd case numbers, the default also by being \
        mentioned nowhere; 0 = disabled); oracle: accepted \
        (trust anchor bytes returned in full / update succeeds and the \
        object is loadable) iff size <= limit or the limit is disabled; \
        non-trivial = cases at limit or limit+1, and the 25 MB cases".into();
    rep.bound = format!("{} cases (complete product)", cases.len());
    let res = util::par_map(cases.len() as u64, 6, |i| {
        util::catch(|| run_case(ctx.scratch.join(format!("c{i}")), i as usize, &cases[i as usize]))
            .unwrap_or_else(|p| Err(("panic".into(), p)))
    });
    for (i, r) in res.into_iter().enumerate() {
        let c = &cases[i];
        rep.evaluations += 1;
        if c.limit.map(|l| c.size >= l).unwrap_or(c.size > 1000) { rep.nontrivial += 1 }
        match r {
            Ok(o) => rep.outcome(o),
            Err((class, msg)) if class == "harness" => { eprintln!("machinery error: {msg}"); std::process::exit(2) }
            Err((class, msg)) => {
                rep.outcome(format!("VIOLATION:{class}"));
                rep.violation(format!("size-limit:{class}:{:?}:limit={}:content-length={}", c.path,
                    if c.limit.is_some() { "set" } else { "disabled" }, c.known_length), msg,
                    json!({"limit": c.limit, "size": c.size, "known_length": c.known_length, "path": format!("{:?}", c.path)}));
            }
        }
    }
    rep.sample(json!({"limit": 100, "size": 101, "known_length": false, "path": "Delta"}));
    rep.assumptions.push("objects are opaque byte strings (the limit is applied before any decoding); sizes are exact content sizes".into());
    rep
}

pub fn replay(ctx: &Ctx, v: &Value) -> Report {
    let mut rep = Report::new("exploration");
    let c = CaseSpec {
        limit: v["limit"].as_u64(), size: v["size"].as_u64().unwrap_or(1),
        known_length: v["known_length"].as_bool().unwrap_or(true),
        path: match v["path"].as_str() { Some("Ta") => PathKind::Ta, Some("Snapshot") => PathKind::Snapshot, _ => PathKind::Delta },
    };
    let r = run_case(ctx.scratch.join("replay"), 9999, &c);
    println!("{c:?}: {r:?}");
    if let Err((class, msg)) = r { rep.violation(format!("size-limit:{class}"), msg, v.clone()) }
    rep.evaluations = 1; rep.nontrivial = 2;
    rep.sample(v.clone());
    rep
}
