//! C19 RTR listener keeps accepting after a failed connection setup.
//!
//! E-FAULT: the real `rtr_listener` on a loopback socket in a real tokio
//! runtime; the set-up of each accepted connection is forced to succeed or
//! fail (hook in `RtrStream::new`) following every sequence in
//! {ok, fail}^n; afterwards a fresh connection must be answered. A second
//! family uses a keepalive time the kernel rejects (no hook involved).

use std::io::{Read, Write};
use std::net::{TcpListener, TcpStream};
use std::sync::Arc;
use std::time::{Duration, Instant};
use routinator::metrics::RtrServerMetrics;
use routinator::payload::SharedHistory;
use routinator::rtr::rtr_listener;
use rpki::rtr::server::NotifySender;
use serde_json::{json, Value};
use crate::data;
use crate::hooks;
use crate::report::{Ctx, Report};
use crate::util;

const RESET_QUERY: [u8; 8] = [1, 2, 0, 0, 0, 0, 0, 8];
const HORIZON: Duration = Duration::from_secs(5);

#[derive(Debug, Clone, Copy, Eq, PartialEq)]
enum Seen { Answered(u8), Closed, Silent, Refused }

/// Connects, sends a Reset Query, reports what came back.
fn probe(addr: std::net::SocketAddr, wait: Duration) -> Result<Seen, String> {
    let mut s = match TcpStream::connect_timeout(&addr, Duration::from_secs(2)) {
        Ok(s) => s,
        // nobody listens any more: the listener task is gone
        Err(e) if e.kind() == std::io::ErrorKind::ConnectionRefused => return Ok(Seen::Refused),
        Err(e) => return Err(format!("connect: {e}")),
    };
    s.set_read_timeout(Some(wait)).map_err(|e| e.to_string())?;
    if s.write_all(&RESET_QUERY).is_err() { return Ok(Seen::Closed) }
    let mut hdr = [0u8; 8];
    let mut got = 0;
    let started = Instant::now();
    while got < 8 {
        match s.read(&mut hdr[got..]) {
            Ok(0) => return Ok(Seen::Closed),
            Ok(n) => got += n,
            Err(e) if matches!(e.kind(), std::io::ErrorKind::WouldBlock | std::io::ErrorKind::TimedOut) => {
                return Ok(Seen::Silent)
            }
            Err(e) if e.kind() == std::io::ErrorKind::ConnectionReset => return Ok(Seen::Closed),
            Err(e) => return Err(format!("read: {e}")),
        }
        if started.elapsed() > wait + Duration::from_secs(1) { return Ok(Seen::Silent) }
    }
    Ok(Seen::Answered(hdr[1]))
}

/// Runs one sequence against a fresh listener.
/// `forced`: per-connection set-up outcome through the hook; `keepalive`:
/// the configured keepalive seconds (a value above 32767 is rejected by
/// the kernel for every connection).
fn run_seq(forced: &[bool], keepalive: Option<u64>) -> Result<String, (String, String)> {
    let rt = tokio::runtime::Builder::new_multi_thread().worker_threads(2)
        .enable_all().build().map_err(|e| ("harness".to_string(), e.to_string()))?;
    let mut config = data::mem_config();
    config.rtr_tcp_keepalive = keepalive.map(Duration::from_secs);
    let history = SharedHistory::from_config(&config);
    data::install(&history, &config, &data::history_sets()[1]);
    let listener = TcpListener::bind("127.0.0.1:0").map_err(|e| ("harness".to_string(), e.to_string()))?;
    listener.set_nonblocking(true).map_err(|e| ("harness".to_string(), e.to_string()))?;
    let addr = listener.local_addr().unwrap();
    let metrics = Arc::new(RtrServerMetrics::new(true));
    let fut = {
        let _g = rt.enter();
        rtr_listener(history, metrics.clone(), &config, NotifySender::new(), Some(listener))
            .map_err(|_| ("harness".to_string(), "rtr_listener failed".to_string()))?
    };
    let task = rt.spawn(fut);
    let h = hooks::hooks();
    {
        let mut q = h.rtr_fail.lock().unwrap();
        q.clear();
        q.extend(forced.iter().map(|ok| !*ok));
    }
    // The kernel accepts 1..=32767 seconds.
    let all_fail = keepalive.map(|k| k == 0 || k > 32767).unwrap_or(false);
    let desc = format!("set-up outcomes {:?}{}", forced.iter().map(|ok| if *ok { "ok" } else { "fail" }).collect::<Vec<_>>(),
        if all_fail { " with a keepalive time the kernel rejects" } else { "" });
    let mut res = Ok(String::new());
    let mut log = Vec::new();
    for (i, ok) in forced.iter().enumerate() {
        let expect_ok = *ok && !all_fail;
        let seen = probe(addr, if expect_ok { HORIZON } else { Duration::from_millis(1500) })
            .map_err(|e| ("harness".to_string(), e))?;
        log.push(format!("{seen:?}"));
        match (expect_ok, seen) {
            (true, Seen::Answered(_)) => { }
            (true, other) => {
                res = Err(("connection-not-served".to_string(), format!(
                    "{desc}: connection {i} (set-up ok) saw {other:?} instead of an answer; earlier: {log:?}"
                )));
                break
            }
            // a failed set-up: the connection is dropped; being left
            // hanging in the accept queue means the listener stopped
            (false, Seen::Closed) => { }
            (false, Seen::Silent) | (false, Seen::Refused) => {
                res = Err(("listener-stopped".to_string(), format!(
                    "{desc}: connection {i} was neither served nor closed within 1.5 s (listener no longer accepting); earlier: {log:?}"
                )));
                break
            }
            (false, Seen::Answered(t)) => {
                res = Err(("harness".to_string(), format!("{desc}: connection {i} with failing set-up was answered (PDU {t})")));
                break
            }
        }
    }
    if res.is_ok() {
        // The fresh connection after the sequence.
        h.rtr_fail.lock().unwrap().clear();
        if all_fail {
            // its set-up fails as well: it must at least be accepted and closed
            match probe(addr, Duration::from_millis(2500)).map_err(|e| ("harness".to_string(), e))? {
                Seen::Closed => res = Ok(format!("all-closed:{}", forced.len())),
                other => res = Err(("listener-stopped".to_string(), format!(
                    "{desc}: a later connection saw {other:?} (expected to be accepted and closed); earlier: {log:?}"
                ))),
            }
        }
        else {
            match probe(addr, HORIZON).map_err(|e| ("harness".to_string(), e))? {
                Seen::Answered(t) => res = Ok(format!("answered:pdu{t}:after-{}-fails", forced.iter().filter(|x| !**x).count())),
                other => res = Err(("listener-stopped".to_string(), format!(
                    "{desc}: the next client connection saw {other:?} instead of an answer to its Reset Query within {HORIZON:?}; earlier: {log:?}"
                ))),
            }
        }
    }
    h.rtr_fail.lock().unwrap().clear();
    task.abort();
    rt.shutdown_timeout(Duration::from_millis(200));
    res
}

fn sequences(max: usize) -> Vec<Vec<bool>> {
    let mut res = Vec::new();
    for n in 1..=max {
        for bits in 0..(1u32 << n) {
            res.push((0..n).map(|i| bits & (1 << i) == 0).collect());
        }
    }
    res
}

pub fn run(ctx: &Ctx) -> Report {
    util::quiet_panics();
    let mut rep = Report::new("fault_enumeration");
    let max = if ctx.tier.thorough() { 5 } else { 3 };
    let seqs = sequences(max);
    rep.rule = format!("the real rtr_listener on a loopback socket in a \
        real tokio runtime, history active; for every sequence in \
        {{ok, fail}}^n, n = 1..{max}, the set-up of the n accepted \
        connections is forced to succeed or fail (hook at the top of \
        RtrStream::new); each connection sends a Reset Query; then a \
        fresh connection must get a Cache Response / Error Report within \
        {HORIZON:?}; failing connections must be closed, not left \
        hanging; second family without hook: rtr-tcp-keepalive 40000 \
        (rejected by the kernel) and 60 (accepted) for 1..3 connections, \
        and 0, 1, 32767, 32768, 2^32-1, 2^32, 2^64-1 for two connections; \
        non-trivial = sequences with at least one failing set-up");
    rep.bound = format!("{} forced sequences + 13 keepalive runs", seqs.len());
    // One listener at a time: the forced-outcome queue is process wide.
    let mut cases: Vec<(Vec<bool>, Option<u64>)> = seqs.into_iter().map(|s| (s, None)).collect();
    for n in 1..=3 {
        cases.push((vec![true; n], Some(40000)));
        cases.push((vec![true; n], Some(60)));
    }
    // every class of value the option accepts (a u64 number of seconds)
    for k in [0u64, 1, 32767, 32768, u32::MAX as u64, u32::MAX as u64 + 1, u64::MAX] {
        cases.push((vec![true, true], Some(k)));
    }
    for (forced, keepalive) in &cases {
        rep.evaluations += 1;
        if forced.iter().any(|x| !*x) || keepalive.map(|k| k == 0 || k > 32767).unwrap_or(false) { rep.nontrivial += 1 }
        match util::catch(|| run_seq(forced, *keepalive)).unwrap_or_else(|p| Err(("panic".into(), p))) {
            Ok(o) => rep.outcome(o),
            Err((class, msg)) if class == "harness" => {
                eprintln!("machinery error: {msg}");
                std::process::exit(2)
            }
            Err((class, msg)) => {
                rep.outcome(format!("VIOLATION:{class}"));
                let first_fail = forced.iter().position(|x| !*x).map(|p| format!("first-fail-at-{p}")).unwrap_or("kernel".into());
                let _ = first_fail;
                rep.violation(format!("rtr-listener:{class}:{}", if keepalive.is_some() { "keepalive" } else { "forced" }),
                    msg, json!({"forced": forced, "keepalive": keepalive}));
            }
        }
    }
    rep.sample(json!({"forced": [true, false, true], "meaning": "second accepted connection fails its set-up"}));
    rep.assumptions.push("tokio's own task scheduling is not enumerated; the property is a liveness-after-fault statement whose only failure mode is a listener that stops accepting, judged by a 5 s horizon (normal answers take milliseconds)".into());
    rep
}

pub fn replay(_ctx: &Ctx, v: &Value) -> Report {
    util::quiet_panics();
    let mut rep = Report::new("fault_enumeration");
    let forced: Vec<bool> = v["forced"].as_array().map(|a| a.iter().map(|x| x.as_bool().unwrap_or(true)).collect()).unwrap_or_default();
    let keepalive = v["keepalive"].as_u64();
    let r = run_seq(&forced, keepalive);
    println!("{forced:?} keepalive {keepalive:?}: {r:?}");
    if let Err((class, msg)) = r {
        rep.violation(format!("rtr-listener:{class}:{}", if keepalive.is_some() { "keepalive" } else { "forced" }), msg, v.clone());
    }
    rep.evaluations = 1; rep.nontrivial = 2;
    rep.sample(v.clone());
    rep
}
