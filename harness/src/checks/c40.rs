//! C40 Cleanup keeps everything still needed.
//!
//! E-TREE histories: every sequence of repository situations (a CA
//! disappears, moves from rsync to RRDP, moves between RRDP repositories,
//! its transport fails, ...) is served to consecutive real engine runs,
//! once normally and once with the `dirty` option (nothing may be removed)
//! as a twin; optionally the last run fails after validation.

use std::collections::{BTreeMap, BTreeSet};
use std::fs;
use std::net::Ipv4Addr;
use std::path::{Path, PathBuf};
use std::sync::{Arc, Mutex};
use routinator::slurm::LocalExceptions;
use routinator::store::StoredPoint;
use routinator::verif::{HttpAnswer, RunOutcome};
use rpki::repository::x509::Time;
use rpki::rtr::payload::RouteOrigin;
use serde_json::{json, Value};
use crate::data;
use crate::etree::{self, Case};
use crate::hooks;
use crate::report::{Ctx, Report};
use crate::rpkigen::{Builder, CaSpec, Gen, Image, ObjSpec, Stale, TalSpec, TreeSpec};
use crate::rrdpsrv::{self, Server};
use crate::util;

#[derive(Clone, Copy, Debug, Eq, PartialEq)]
pub enum Ev { Base, Ca2Gone, Ca1Rrdp, Ca1RrdpOther, Ca1Unreachable, Ca2Back, Ca2Broken, ShortLived,
    /// several rsync modules and RRDP repositories, each holding short-lived and long-lived CAs
    Groups,
    /// the same publication again after the short-lived manifests have expired
    GroupsLater }
const EVENTS: [Ev; 7] = [Ev::Base, Ev::Ca2Gone, Ev::Ca1Rrdp, Ev::Ca1RrdpOther, Ev::Ca1Unreachable, Ev::Ca2Back, Ev::Ca2Broken];

#[derive(Clone, Debug)]
pub struct CaseSpec { events: Vec<Ev>, fail_last: Option<&'static str> }

fn hosts(idx: usize) -> [String; 4] {
    [format!("ta{idx}.c40.example"), format!("ca1x{idx}.c40.example"), format!("ca2x{idx}.c40.example"), format!("rr{idx}.c40.example")]
}

fn tree(idx: usize, ev: Ev, step: usize) -> TreeSpec {
    let h = hosts(idx);
    let mut ta = CaSpec::new("ta0", 0, &h[0], "repo");
    ta.v4 = vec![(Ipv4Addr::new(10, 0, 0, 0), 8)];
    ta.asns = vec![(64496, 64600)];
    ta.mft_number = step as u64 + 1;
    ta.mft_this_update = -7200 + 600 * step as i64;
    ta.objs = vec![ObjSpec::roa("rta", 64496, "10.0.0.0", 16, 16)];
    let mut ca1 = CaSpec::new("ca1", 1, &h[1], "repo");
    ca1.v4 = vec![(Ipv4Addr::new(10, 1, 0, 0), 16)];
    ca1.asns = vec![(64500, 64509)];
    ca1.objs = vec![ObjSpec::roa("r1", 64500, "10.1.0.0", 16, 16)];
    ca1.mft_number = step as u64 + 1;
    ca1.mft_this_update = -7200 + 600 * step as i64;
    match ev {
        Ev::Ca1Rrdp => ca1.rpki_notify = Some(format!("https://{}/r1/notification.xml", h[3])),
        Ev::Ca1RrdpOther => ca1.rpki_notify = Some(format!("https://{}/r2/notification.xml", h[3])),
        Ev::ShortLived => { ca1.mft_ee_not_after = 2; }
        _ => { }
    }
    // CA2's URIs spell the host name with capitals (host names are
    // case-insensitive; the cache keeps them lower-case)
    let ca2_host = h[2].replace("ca2x", "Ca2X").replace(".c40.example", ".C40.Example");
    let mut ca2 = CaSpec::new("ca2", 2, &ca2_host, "repo");
    ca2.v4 = vec![(Ipv4Addr::new(10, 2, 0, 0), 16)];
    ca2.asns = vec![(64510, 64519)];
    ca2.objs = vec![ObjSpec::roa("r2", 64510, "10.2.0.0", 16, 16)];
    if ev == Ev::Ca2Broken { ca2.point_fault = Some(crate::rpkigen::PointFault::NoManifest); }
    ta.children.push(ca1);
    if ev != Ev::Ca2Gone { ta.children.push(ca2); }
    TreeSpec { tals: vec![TalSpec { name: "alpha".into(), ta_uri: format!("rsync://{}/repo/ta0.cer", h[0]), ca: ta, wrong_key: false, https_uri: None }] }
}

/// Seconds the short-lived manifest certificates of `Ev::Groups` live.
const SHORT_LIFE: i64 = 3;
const GROUPS: usize = 4;
const PER_GROUP: usize = 4;

/// TA plus GROUPS x PER_GROUP CAs: group g lives in its own rsync module
/// (even g) or RRDP repository (odd g); in each group one CA (a different
/// position per group) is long-lived, one has a manifest that goes stale
/// after SHORT_LIFE seconds under a manifest certificate that stays valid,
/// and the manifest certificates of the others expire after SHORT_LIFE.
fn groups_tree(idx: usize) -> TreeSpec {
    let h = hosts(idx);
    let mut ta = CaSpec::new("ta0", 0, &h[0], "repo");
    ta.v4 = vec![(Ipv4Addr::new(10, 0, 0, 0), 8)];
    ta.asns = vec![(64496, 64600)];
    ta.objs = vec![ObjSpec::roa("rta", 64496, "10.0.0.0", 16, 16)];
    for g in 0..GROUPS {
        for j in 0..PER_GROUP {
            let n = g * PER_GROUP + j;
            // sibling CAs may share a key pair (12 CA keys in the pool)
            let mut ca = CaSpec::new(&format!("g{g}k{j}"), 1 + n % 11, &h[1], &format!("m{g}"));
            ca.v4 = vec![(Ipv4Addr::new(10, 100 + g as u8, j as u8, 0), 24)];
            ca.asns = vec![(64500 + n as u32, 64500 + n as u32)];
            ca.objs = vec![ObjSpec::roa("r", 64500 + n as u32, &format!("10.{}.{j}.0", 100 + g), 24, 24)];
            if g % 2 == 1 { ca.rpki_notify = Some(format!("https://{}/g{g}/notification.xml", h[3])); }
            // one CA per group lives long; the next one's manifest and CRL
            // go stale after SHORT_LIFE while its manifest certificate
            // stays valid; the manifest certificates of the others expire
            if j == (g + 1) % PER_GROUP { ca.mft_next_update = SHORT_LIFE; ca.crl_next_update = SHORT_LIFE; }
            else if j != g % PER_GROUP { ca.mft_ee_not_after = SHORT_LIFE; }
            ta.children.push(ca);
        }
    }
    TreeSpec { tals: vec![TalSpec { name: "alpha".into(), ta_uri: format!("rsync://{}/repo/ta0.cer", h[0]), ca: ta, wrong_key: false, https_uri: None }] }
}

fn files(dir: &Path) -> BTreeSet<PathBuf> {
    fn rec(base: &Path, dir: &Path, out: &mut BTreeSet<PathBuf>) {
        if let Ok(rd) = fs::read_dir(dir) {
            for e in rd.flatten() {
                let p = e.path();
                if p.is_dir() { rec(base, &p, out) } else { out.insert(p.strip_prefix(base).unwrap().to_path_buf()); }
            }
        }
    }
    let mut out = BTreeSet::new();
    rec(dir, dir, &mut out);
    out
}

/// Files of `before` that are gone in `after`, not counting what a fetch
/// legitimately removes: temporary files, and single files inside an rsync
/// module copy that still exists (rsync mirrors deletions).
fn removed(before: &BTreeSet<PathBuf>, after: &BTreeSet<PathBuf>, cache: &Path) -> Vec<PathBuf> {
    before.difference(after).filter(|p| {
        if p.starts_with("stored/tmp") || p.starts_with("rrdp/tmp") { return false }
        if p.starts_with("rsync") {
            let comps: Vec<_> = p.components().take(3).collect();
            if comps.len() == 3 {
                let module: PathBuf = comps.iter().collect();
                return !cache.join(module).is_dir()
            }
        }
        true
    }).cloned().collect()
}

fn copy_tree(src: &Path, dst: &Path) {
    let _ = fs::remove_dir_all(dst);
    fs::create_dir_all(dst).unwrap();
    if let Ok(rd) = fs::read_dir(src) {
        for e in rd.flatten() {
            let to = dst.join(e.file_name());
            if e.path().is_dir() { copy_tree(&e.path(), &to) } else { let _ = fs::copy(e.path(), &to); }
        }
    }
}

struct Twin { case: Case, dirty: bool }

fn run_case(gen: &Gen, dir: PathBuf, idx: usize, c: &CaseSpec) -> Result<String, (String, String)> {
    let h = hosts(idx);
    let servers: Arc<Mutex<BTreeMap<String, Server>>> = Arc::new(Mutex::new(BTreeMap::new()));
    let _g = {
        let servers = servers.clone();
        rrdpsrv::serve_host(&h[3], Arc::new(move |uri, etag, _lm| {
            for s in servers.lock().unwrap().values() {
                if uri.starts_with(&s.base) { return s.answer(uri, etag).map(HttpAnswer::Response) }
            }
            Some(HttpAnswer::Unreachable)
        }))
    };
    let twins = [Twin { case: Case::new(dir.join("clean")), dirty: false }, Twin { case: Case::new(dir.join("dirty")), dirty: true }];
    let hk = hooks::hooks();
    let mut summary = String::new();
    // where the stored point of each CA seen so far lives, and the collector
    // copy it was taken from (paths relative to a cache directory, computed
    // by the real path functions on a scratch cache)
    let paths_case = Case::new(dir.join("paths"));
    let mut paths_config = paths_case.config();
    paths_config.disable_rrdp = false;
    let path_fns = (
        routinator::store::Store::new(&paths_config).map_err(|_| ("harness".to_string(), "Store::new".to_string()))?,
        routinator::collector::verif::RrdpCollector::new(&paths_config).ok().flatten(),
        routinator::collector::verif::RsyncCollector::new(&paths_config).ok().flatten(),
    );
    let rel = |p: PathBuf| p.strip_prefix(&paths_config.cache_dir).map(|x| x.to_path_buf()).unwrap_or(p);
    let mut uses: BTreeMap<PathBuf, PathBuf> = BTreeMap::new();
    let mut point_of: BTreeMap<String, PathBuf> = BTreeMap::new();
    let mut prev_image: Option<(Image, Time)> = None;
    for (step, ev) in c.events.iter().enumerate() {
        let last = step + 1 == c.events.len();
        let ev_tree = if *ev == Ev::Ca2Back || *ev == Ev::Ca1Unreachable { Ev::Base } else { *ev };
        let image: Image = match ev {
            Ev::Groups => Builder::new(gen, Stale::Reject).build(&groups_tree(idx)),
            Ev::GroupsLater => {
                // the same objects, once the short-lived certificates are over
                let Some((image, built)) = prev_image.clone() else { return Err(("harness".into(), "GroupsLater without Groups".into())) };
                let wait = SHORT_LIFE + 1 - (Time::now().timestamp() - built.timestamp());
                if wait > 0 { std::thread::sleep(std::time::Duration::from_secs(wait as u64)); }
                image
            }
            _ => Builder::new(gen, Stale::Reject).build(&tree(idx, ev_tree, step)),
        };
        if *ev != Ev::GroupsLater { prev_image = Some((image.clone(), Time::now())); }
        for ca in &image.cas {
            use std::str::FromStr;
            let Ok(mft) = rpki::uri::Rsync::from_str(&ca.mft_uri) else { continue };
            let notify = ca.rpki_notify.as_ref().and_then(|n| rpki::uri::Https::from_str(n).ok());
            let point = rel(path_fns.0.verif_point_path(notify.as_ref(), &mft));
            point_of.insert(ca.name.clone(), point.clone());
            let copy = match &notify {
                Some(n) => path_fns.1.as_ref().and_then(|c| c.verif_repository_path(n)),
                None => path_fns.2.as_ref().map(|c| c.verif_paths(&mft).0),
            };
            if let Some(copy) = copy { uses.insert(point, rel(copy)); }
        }
        // RRDP servers for the CA1 publication point
        if *ev != Ev::GroupsLater {
            let mut s = servers.lock().unwrap();
            s.clear();
            for ca in &image.cas {
                if let Some(n) = ca.rpki_notify.as_ref() {
                    let base = n.trim_end_matches("/notification.xml").to_string();
                    let srv = s.entry(base.clone()).or_insert_with(|| Server::new(&base));
                    for (uri, data) in &image.files { if uri.starts_with(&ca.repo_uri) { srv.objects.insert(uri.clone(), data.clone()); } }
                }
            }
            for srv in s.values_mut() { srv.new_session(); }
        }
        let mut payloads: Vec<BTreeSet<RouteOrigin>> = Vec::new();
        for t in &twins {
            if step == 0 { t.case.write_tals(&image); }
            t.case.publish(&image);
            t.case.set_unreachable(&h[1], "repo", *ev == Ev::Ca1Unreachable);
            t.case.clear_rsync_log();
            let mut config = t.case.config();
            config.disable_rrdp = false;
            config.dirty_repository = t.dirty;
            let cache = config.cache_dir.clone();
            let before = files(&cache);
            let fail = if last { c.fail_last } else { None };
            if let Some(stage) = fail {
                hk.stage_outcomes.lock().unwrap().insert(cache.clone(), (stage, RunOutcome::Retry));
            }
            let res = etree::run(&config, false, &LocalExceptions::empty());
            hk.stage_outcomes.lock().unwrap().remove(&cache);
            let after = files(&cache);
            let desc = format!("history {:?}{}, run {} ({})", c.events, c.fail_last.map(|s| format!(" with the last run failing at '{s}'")).unwrap_or_default(), step + 1, if t.dirty { "dirty" } else { "normal" });
            if fail.is_some() {
                if res.is_ok() { return Err(("harness".into(), format!("{desc}: forced failure did not fail the run"))) }
                // a failed run removes nothing
                let removed = removed(&before, &after, &cache);
                if !removed.is_empty() {
                    return Err(("removed-by-failed-run".into(), format!("{desc}: files removed although the run failed: {:?}", removed.iter().take(4).collect::<Vec<_>>())))
                }
                continue
            }
            let out = res.map_err(|e| ("run-failed".to_string(), format!("{desc}: {e}")))?;
            if t.dirty {
                let removed = removed(&before, &after, &cache);
                if !removed.is_empty() {
                    return Err(("removed-despite-dirty".into(), format!("{desc}: files removed with the dirty option: {:?}", removed.iter().take(4).collect::<Vec<_>>())))
                }
            }
            else {
                // every rsync module this run fetched is still there
                for fetched in t.case.rsync_log() {
                    let rest = fetched.trim_start_matches("rsync://").trim_end_matches('/');
                    if !cache.join("rsync").join(rest).is_dir() {
                        return Err(("used-module-removed".into(), format!("{desc}: the copy of {fetched}, fetched in this run, is gone after cleanup")))
                    }
                }
                // everything this run needed is still there: an offline run
                // over a copy of the cache gives the same data
                let probe = Case { dir: dir.join("probe") };
                copy_tree(&t.case.dir, &probe.dir);
                let mut pc = probe.config();
                pc.disable_rrdp = false;
                let off = etree::run(&pc, true, &LocalExceptions::empty()).map_err(|e| ("offline-run-failed".to_string(), format!("{desc}: offline run over the cleaned cache: {e}")))?;
                if off.data.origins != out.data.origins {
                    let missing: Vec<String> = out.data.origins.difference(&off.data.origins).map(data::fmt_origin).collect();
                    return Err(("needed-data-removed".into(), format!(
                        "{desc}: an offline run right after cleanup lacks {missing:?} which the run itself served"
                    )))
                }
            }
            payloads.push(out.data.origins.clone());
        }
        if c.fail_last.is_some() && last { continue }
        // the twins serve the same data
        if payloads.len() == 2 && payloads[0] != payloads[1] {
            return Err(("twins-differ".into(), format!("history {:?}, run {}: normal and dirty runs serve different data", c.events, step + 1)))
        }
        // what the dirty twin still holds and is unexpired must be in the clean twin as well
        let now = Time::now();
        let dirty_cache = twins[1].case.dir.join("cache");
        let clean_cache = twins[0].case.dir.join("cache");
        let clean_files = files(&clean_cache);
        let mut unexpired = 0;
        for p in files(&dirty_cache) {
            if !p.starts_with("stored/rsync") && !p.starts_with("stored/rrdp") { continue }
            let Some(sp) = StoredPoint::load_quietly(dirty_cache.join(&p)) else { continue };
            let Some(m) = sp.manifest() else { continue };
            if m.not_after <= now { continue }
            unexpired += 1;
            if !clean_files.contains(&p) {
                return Err(("unexpired-point-removed".into(), format!(
                    "history {:?}, run {}: stored point {} (manifest certificate valid until {}) was removed by cleanup",
                    c.events, step + 1, p.display(), m.not_after.to_rfc3339()
                )))
            }
            // and the collector copy it names
            let sp2 = StoredPoint::load_quietly(clean_cache.join(&p));
            if sp2.is_none() {
                return Err(("unexpired-point-unreadable".into(), format!("history {:?}, run {}: stored point {} no longer loads", c.events, step + 1, p.display())))
            }
        }
        // by construction (not by what the store wrote down): the points of
        // the Groups CAs whose manifest certificate lives for days
        if matches!(ev, Ev::Groups | Ev::GroupsLater) {
            for g in 0..GROUPS { for j in 0..PER_GROUP {
                if j != g % PER_GROUP && j != (g + 1) % PER_GROUP { continue }
                let name = format!("g{g}k{j}");
                let Some(point) = point_of.get(&name) else { continue };
                if StoredPoint::load_quietly(clean_cache.join(point)).and_then(|p| p.manifest().map(|_| ())).is_none() {
                    return Err(("unexpired-point-removed".into(), format!(
                        "history {:?}, run {}: the stored point of {name} ({}) is gone although its manifest certificate is valid for days{}",
                        c.events, step + 1, point.display(), if j == (g + 1) % PER_GROUP { " (its manifest has passed nextUpdate)" } else { "" }
                    )))
                }
            }}
        }
        // ... and so must the collector copy each unexpired stored point was taken from
        let mut copies = 0;
        for (point, copy) in &uses {
            let Some(sp) = StoredPoint::load_quietly(clean_cache.join(point)) else { continue };
            let Some(m) = sp.manifest() else { continue };
            if m.not_after <= now || !dirty_cache.join(copy).exists() { continue }
            copies += 1;
            if !clean_cache.join(copy).exists() {
                return Err(("collector-copy-removed".into(), format!(
                    "history {:?}, run {}: stored point {} (manifest certificate valid until {}) is kept, but the collector copy {} it belongs to was removed by cleanup",
                    c.events, step + 1, point.display(), m.not_after.to_rfc3339(), copy.display()
                )))
            }
        }
        summary.push_str(&format!("{}:{unexpired}:{copies} ", payloads.first().map(|p| p.len()).unwrap_or(0)));
    }
    let _ = fs::remove_dir_all(&dir);
    Ok(summary.trim().to_string())
}

fn cases(thorough: bool) -> Vec<CaseSpec> {
    let mut res = Vec::new();
    let len = if thorough { 3 } else { 2 };
    let mut seqs: Vec<Vec<Ev>> = vec![vec![]];
    for _ in 0..len {
        let mut next = Vec::new();
        for s in &seqs { for e in EVENTS { let mut t = s.clone(); t.push(e); next.push(t); } }
        seqs = next;
    }
    // expiry next to live siblings (a real wait of a few seconds, so only these)
    res.push(CaseSpec { events: vec![Ev::Groups, Ev::GroupsLater], fail_last: None });
    res.push(CaseSpec { events: vec![Ev::Groups, Ev::GroupsLater], fail_last: Some("processed") });
    if thorough { res.push(CaseSpec { events: vec![Ev::Groups, Ev::GroupsLater, Ev::GroupsLater], fail_last: None }); }
    for s in seqs {
        res.push(CaseSpec { events: s.clone(), fail_last: None });
        if s.last() != Some(&Ev::Ca2Back) || thorough {
            res.push(CaseSpec { events: s.clone(), fail_last: Some("processed") });
        }
    }
    res
}

pub fn run(ctx: &Ctx) -> Report {
    util::quiet_panics();
    let gen = Gen::load();
    let mut rep = Report::new("fault_enumeration");
    let cases = cases(ctx.tier.thorough());
    rep.rule = "TA with CA1 and CA2; every history of length 2 (thorough 3) \
        over the per-run situations {all present, CA2 gone from the TA's \
        manifest, CA1 announcing RRDP repository r1, CA1 announcing RRDP \
        repository r2, CA1's rsync module unreachable, all present again, CA2's \
        publication point without manifest} \
        served to consecutive real engine runs, as a normal run and as a \
        twin with the dirty option; each history also with the last run \
        forced to fail after validation; oracle: after every successful \
        normal run an offline run over a copy of the cache serves the same \
        data and every rsync module fetched in the run still has its \
        copy; every stored point that the dirty twin holds and whose \
        manifest certificate has not expired exists and loads in the \
        normal twin; the dirty twin never loses a file; a failed run \
        removes no file; both twins serve the same data; the collector \
        copy (rsync module directory / RRDP archive, located with the real \
        path functions) of every unexpired stored point still exists if the \
        dirty twin has it; plus an expiry history: 4 groups (2 rsync \
        modules, 2 RRDP repositories) of 4 sibling CAs each: one lives \
        for days, one has a manifest going stale after 3 s under a \
        certificate valid for days, two have manifest certificates living \
        3 s (positions rotate per group); run once and, after a real \
        wait, again - the points of the first two kinds must remain; non-trivial = \
        histories in which something moves, disappears or fails".into();
    rep.bound = format!("{} histories", cases.len());
    let threads = std::env::var("ETREE_THREADS").ok().and_then(|s| s.parse().ok()).unwrap_or(8);
    let res = util::par_map(cases.len() as u64, threads, |i| {
        util::catch(|| run_case(&gen, ctx.scratch.join(format!("c{i}")), i as usize, &cases[i as usize]))
            .unwrap_or_else(|p| Err(("panic".into(), p)))
    });
    for (i, r) in res.into_iter().enumerate() {
        let c = &cases[i];
        rep.evaluations += 1;
        if c.events.iter().any(|e| *e != Ev::Base) || c.fail_last.is_some() { rep.nontrivial += 1 }
        match r {
            Ok(o) => rep.outcome(o),
            Err((class, msg)) if class == "harness" => { eprintln!("machinery error: {msg}"); std::process::exit(2) }
            Err((class, msg)) => {
                rep.outcome(format!("VIOLATION:{class}"));
                rep.violation(format!("cleanup:{class}:{:?}", c.events.last().unwrap()), msg,
                    json!({"events": c.events.iter().map(|e| format!("{e:?}")).collect::<Vec<_>>(), "fail_last": c.fail_last}));
            }
        }
    }
    rep.sample(json!({"events": ["Ca1Rrdp", "Ca1RrdpOther"], "fail_last": null}));
    rep.assumptions.push("expiry is exercised by the two Groups histories only (12 of 16 sibling CAs expire between the runs); in all other histories manifest certificates are valid for days".into());
    rep
}

pub fn replay(ctx: &Ctx, v: &Value) -> Report {
    let gen = Gen::load();
    let mut rep = Report::new("fault_enumeration");
    let all = [Ev::Base, Ev::Ca2Gone, Ev::Ca1Rrdp, Ev::Ca1RrdpOther, Ev::Ca1Unreachable, Ev::Ca2Back, Ev::Ca2Broken, Ev::ShortLived, Ev::Groups, Ev::GroupsLater];
    let events: Vec<Ev> = v["events"].as_array().map(|a| a.iter().filter_map(|x| all.iter().find(|e| format!("{e:?}") == x.as_str().unwrap_or("")).copied()).collect()).unwrap_or_default();
    let c = CaseSpec { events, fail_last: if v["fail_last"].is_null() { None } else { Some("processed") } };
    let r = run_case(&gen, ctx.scratch.join("replay"), 99999, &c);
    println!("{c:?}: {r:?}");
    if let Err((class, msg)) = r { rep.violation(format!("cleanup:{class}"), msg, v.clone()) }
    rep.evaluations = 1; rep.nontrivial = 2;
    rep.sample(v.clone());
    rep
}
