//! Small helpers.

use std::path::PathBuf;
use std::sync::atomic::{AtomicU64, Ordering};
use std::sync::Mutex;

pub fn scratch_root() -> PathBuf {
    if let Some(dir) = std::env::var_os("VERIF_SCRATCH") {
        return PathBuf::from(dir)
    }
    let shm = PathBuf::from("/dev/shm");
    if shm.is_dir() {
        let probe = shm.join(format!(".rtv-probe-{}", std::process::id()));
        if std::fs::write(&probe, b"x").is_ok() {
            let _ = std::fs::remove_file(&probe);
            return shm
        }
    }
    std::env::temp_dir()
}

pub fn cores() -> usize {
    std::thread::available_parallelism().map(|n| n.get()).unwrap_or(4)
}

/// Runs `f(i)` for all `i` in `0..n` on `threads` threads, in-process.
///
/// Results are returned in index order.
pub fn par_map<T: Send, F: Fn(u64) -> T + Sync>(
    n: u64, threads: usize, f: F
) -> Vec<T> {
    let next = AtomicU64::new(0);
    let out: Mutex<Vec<(u64, T)>> = Mutex::new(Vec::new());
    std::thread::scope(|scope| {
        for _ in 0..threads.max(1) {
            scope.spawn(|| {
                let mut local = Vec::new();
                loop {
                    let i = next.fetch_add(1, Ordering::Relaxed);
                    if i >= n { break }
                    local.push((i, f(i)));
                }
                out.lock().unwrap().extend(local);
            });
        }
    });
    let mut out = out.into_inner().unwrap();
    out.sort_by_key(|x| x.0);
    out.into_iter().map(|x| x.1).collect()
}

thread_local! {
    static CATCHING: std::cell::Cell<u32> = const { std::cell::Cell::new(0) };
}

/// Catches a panic and returns its message.
pub fn catch<T>(f: impl FnOnce() -> T) -> Result<T, String> {
    CATCHING.with(|c| c.set(c.get() + 1));
    let res = std::panic::catch_unwind(std::panic::AssertUnwindSafe(f));
    CATCHING.with(|c| c.set(c.get() - 1));
    res.map_err(|err| {
        if let Some(s) = err.downcast_ref::<&str>() { s.to_string() }
        else if let Some(s) = err.downcast_ref::<String>() { s.clone() }
        else { "panic".to_string() }
    })
}

/// Silences the default panic message (we report panics ourselves).
pub fn quiet_panics() {
    let default = std::panic::take_hook();
    std::panic::set_hook(Box::new(move |info| {
        if CATCHING.with(|c| c.get()) == 0 {
            default(info)
        }
    }));
}

/// Creates a connected loopback TCP socket pair `(client, server)`.
///
/// Retries for a while if the ephemeral port range is exhausted.
pub fn loopback_pair() -> (std::net::TcpStream, std::net::TcpStream) {
    let mut last = String::new();
    for _ in 0..240 {
        let attempt = (|| -> std::io::Result<_> {
            let l = std::net::TcpListener::bind("127.0.0.1:0")?;
            let c = std::net::TcpStream::connect(l.local_addr()?)?;
            let (s, _) = l.accept()?;
            Ok((c, s))
        })();
        match attempt {
            Ok(pair) => return pair,
            Err(err) => last = err.to_string()
        }
        std::thread::sleep(std::time::Duration::from_millis(500));
    }
    eprintln!("machinery error: cannot create a loopback connection: {last}");
    std::process::exit(2)
}

/// All regular files below `dir`, recursively (nothing if it does not exist).
pub fn walk(dir: &std::path::Path, out: &mut Vec<std::path::PathBuf>) {
    let Ok(rd) = std::fs::read_dir(dir) else { return };
    let mut entries: Vec<_> = rd.flatten().map(|e| e.path()).collect();
    entries.sort();
    for p in entries {
        if p.is_dir() { walk(&p, out) } else { out.push(p) }
    }
}
