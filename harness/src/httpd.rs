//! A network-less HTTP server instance (hook H-HTTPD).

use std::future::Future;
use std::pin::Pin;
use std::sync::Arc;
use std::task::{Context, Poll, Wake, Waker};
use routinator::http::verif::{handle, Answer, State};
use routinator::metrics::RtrServerMetrics;
use routinator::payload::SharedHistory;
use rpki::rtr::server::NotifySender;

pub struct Httpd {
    pub state: State,
    pub history: SharedHistory,
    pub notify: NotifySender,
}

struct Noop;
impl Wake for Noop { fn wake(self: Arc<Self>) { } }

/// Polls a future that is expected never to pend.
pub fn now<T>(fut: impl Future<Output = T>) -> T {
    let waker = Waker::from(Arc::new(Noop));
    let mut cx = Context::from_waker(&waker);
    let mut fut = std::pin::pin!(fut);
    match fut.as_mut().poll(&mut cx) {
        Poll::Ready(t) => t,
        Poll::Pending => panic!("future unexpectedly pending")
    }
}

/// Polls once.
pub fn poll_once<T>(
    fut: &mut Pin<Box<dyn Future<Output = T> + '_>>, waker: &Waker
) -> Option<T> {
    let mut cx = Context::from_waker(waker);
    match fut.as_mut().poll(&mut cx) {
        Poll::Ready(t) => Some(t),
        Poll::Pending => None
    }
}

impl Httpd {
    pub fn new(config: &routinator::Config, history: SharedHistory) -> Self {
        let notify = NotifySender::new();
        Httpd {
            state: State::new(
                config, history.clone(),
                Arc::new(RtrServerMetrics::new(false)), None, notify.clone()
            ),
            history, notify
        }
    }

    pub fn get(&self, uri: &str, headers: &[(&str, &str)]) -> Answer {
        now(handle(&self.state, "GET", uri, headers))
    }

    pub fn head(&self, uri: &str, headers: &[(&str, &str)]) -> Answer {
        now(handle(&self.state, "HEAD", uri, headers))
    }
}
