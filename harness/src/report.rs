//! Reports, evidence files, known findings, replay files.

use std::collections::{BTreeMap, BTreeSet};
use std::path::{Path, PathBuf};
use std::{fs, io};
use serde_json::{json, Map, Value};

#[derive(Clone, Copy, Debug, Eq, PartialEq)]
pub enum Tier { Quick, Thorough }

impl Tier {
    pub fn as_str(self) -> &'static str {
        match self { Tier::Quick => "quick", Tier::Thorough => "thorough" }
    }
    pub fn thorough(self) -> bool { matches!(self, Tier::Thorough) }
}

/// The context of a check run.
#[derive(Clone, Debug)]
pub struct Ctx {
    pub id: String,
    pub tier: Tier,
    pub seed: u64,
    /// `(index, count)` when running as a shard worker.
    pub shard: Option<(usize, usize)>,
    /// Scratch directory private to this process (removed by the parent).
    pub scratch: PathBuf,
}

impl Ctx {
    /// Returns whether case number `idx` belongs to this shard.
    pub fn mine(&self, idx: u64) -> bool {
        match self.shard {
            Some((i, n)) => (idx % n as u64) == i as u64,
            None => true
        }
    }

    pub fn shard_index(&self) -> usize {
        self.shard.map(|x| x.0).unwrap_or(0)
    }
}

#[derive(Clone, Debug)]
pub struct Violation {
    /// Stable identification of the minimal failing case.
    pub fingerprint: String,
    /// Human-readable description.
    pub what: String,
    /// Everything needed to re-run the case.
    pub replay: Value,
}

/// What a check found and covered.
#[derive(Clone, Debug, Default)]
pub struct Report {
    /// MANIFEST level: exploration, fault_enumeration, model_checking
    pub level: String,
    pub evaluations: u64,
    pub nontrivial: u64,
    pub states: u64,
    pub transitions: u64,
    pub traces: u64,
    pub rule: String,
    pub bound: String,
    pub samples: Vec<Value>,
    pub exhaustive: bool,
    pub capped: Option<String>,
    pub assumptions: Vec<String>,
    pub violations: Vec<Violation>,
    /// Distinct observed outcomes with counts.
    pub outcomes: BTreeMap<String, u64>,
    pub extra: Map<String, Value>,
}

impl Report {
    pub fn new(level: &str) -> Self {
        Report { level: level.into(), exhaustive: true, ..Default::default() }
    }

    pub fn outcome(&mut self, key: impl Into<String>) {
        *self.outcomes.entry(key.into()).or_insert(0) += 1;
    }

    pub fn sample(&mut self, v: Value) {
        if self.samples.len() < 6 {
            self.samples.push(v)
        }
    }

    pub fn violation(
        &mut self, fingerprint: impl Into<String>, what: impl Into<String>,
        replay: Value
    ) {
        // Keep at most a handful per fingerprint.
        let fingerprint = fingerprint.into();
        let n = self.violations.iter().filter(|v| {
            v.fingerprint == fingerprint
        }).count();
        if n < 3 && self.violations.len() < 200 {
            self.violations.push(Violation {
                fingerprint, what: what.into(), replay
            })
        }
        *self.extra.entry("violating_cases").or_insert(json!(0)) = json!(
            self.extra.get("violating_cases").and_then(|v| v.as_u64())
                .unwrap_or(0) + 1
        );
    }

    pub fn to_json(&self) -> Value {
        json!({
            "level": self.level,
            "evaluations": self.evaluations,
            "nontrivial": self.nontrivial,
            "states": self.states,
            "transitions": self.transitions,
            "traces": self.traces,
            "rule": self.rule,
            "bound": self.bound,
            "samples": self.samples,
            "exhaustive": self.exhaustive,
            "capped": self.capped,
            "assumptions": self.assumptions,
            "violations": self.violations.iter().map(|v| json!({
                "fingerprint": v.fingerprint, "what": v.what,
                "replay": v.replay
            })).collect::<Vec<_>>(),
            "outcomes": self.outcomes,
            "extra": self.extra,
        })
    }

    pub fn from_json(v: &Value) -> Self {
        let mut res = Report::new(v["level"].as_str().unwrap_or(""));
        res.evaluations = v["evaluations"].as_u64().unwrap_or(0);
        res.nontrivial = v["nontrivial"].as_u64().unwrap_or(0);
        res.states = v["states"].as_u64().unwrap_or(0);
        res.transitions = v["transitions"].as_u64().unwrap_or(0);
        res.traces = v["traces"].as_u64().unwrap_or(0);
        res.rule = v["rule"].as_str().unwrap_or("").into();
        res.bound = v["bound"].as_str().unwrap_or("").into();
        res.samples = v["samples"].as_array().cloned().unwrap_or_default();
        res.exhaustive = v["exhaustive"].as_bool().unwrap_or(false);
        res.capped = v["capped"].as_str().map(Into::into);
        res.assumptions = v["assumptions"].as_array().map(|a| {
            a.iter().filter_map(|x| x.as_str().map(String::from)).collect()
        }).unwrap_or_default();
        res.violations = v["violations"].as_array().map(|a| {
            a.iter().map(|x| Violation {
                fingerprint: x["fingerprint"].as_str().unwrap_or("").into(),
                what: x["what"].as_str().unwrap_or("").into(),
                replay: x["replay"].clone(),
            }).collect()
        }).unwrap_or_default();
        if let Some(o) = v["outcomes"].as_object() {
            for (k, v) in o {
                res.outcomes.insert(k.clone(), v.as_u64().unwrap_or(0));
            }
        }
        res.extra = v["extra"].as_object().cloned().unwrap_or_default();
        res
    }

    /// Merges the report of another shard into this one.
    ///
    /// Shards partition the case space by case index, so counts add up.
    /// `states` is only summed for sharded checks whose state notion is
    /// per-case; checks with a global state set do not shard.
    pub fn merge(&mut self, other: Report) {
        if self.level.is_empty() { self.level = other.level.clone(); }
        self.evaluations += other.evaluations;
        self.nontrivial += other.nontrivial;
        self.states += other.states;
        self.transitions += other.transitions;
        self.traces += other.traces;
        if self.rule.is_empty() { self.rule = other.rule; }
        if self.bound.is_empty() { self.bound = other.bound; }
        for s in other.samples {
            if self.samples.len() < 8 { self.samples.push(s) }
        }
        self.exhaustive &= other.exhaustive;
        if self.capped.is_none() { self.capped = other.capped; }
        let have: BTreeSet<_> = self.assumptions.iter().cloned().collect();
        for a in other.assumptions {
            if !have.contains(&a) { self.assumptions.push(a) }
        }
        self.violations.extend(other.violations);
        for (k, v) in other.outcomes {
            *self.outcomes.entry(k).or_insert(0) += v;
        }
        for (k, v) in other.extra {
            match (self.extra.get(&k).and_then(|x| x.as_u64()), v.as_u64()) {
                (Some(a), Some(b)) => {
                    self.extra.insert(k, json!(a + b));
                }
                _ => {
                    // lists are concatenated, anything else keeps the first value
                    if let (Some(a), Some(b)) = (self.extra.get(&k).and_then(|x| x.as_array()).cloned(), v.as_array()) {
                        let mut a = a; a.extend(b.iter().cloned());
                        self.extra.insert(k, json!(a));
                    }
                    else { self.extra.entry(k).or_insert(v); }
                }
            }
        }
    }
}


//------------ Known findings ------------------------------------------------

#[derive(Clone, Debug)]
pub struct Finding {
    pub property: String,
    pub fingerprint: String,
    pub status: String,
    pub what: String,
}

pub fn load_findings(path: &Path) -> io::Result<Vec<Finding>> {
    let data = match fs::read_to_string(path) {
        Ok(data) => data,
        Err(err) if err.kind() == io::ErrorKind::NotFound => {
            return Ok(Vec::new())
        }
        Err(err) => return Err(err)
    };
    let mut res = Vec::new();
    for line in data.lines() {
        let line = line.trim();
        if line.is_empty() || line.starts_with('#') { continue }
        let v: Value = serde_json::from_str(line).map_err(|err| {
            io::Error::new(io::ErrorKind::InvalidData, err)
        })?;
        res.push(Finding {
            property: v["property"].as_str().unwrap_or("").into(),
            fingerprint: v["fingerprint"].as_str().unwrap_or("").into(),
            status: v["status"].as_str().unwrap_or("").into(),
            what: v["what"].as_str().unwrap_or("").into(),
        })
    }
    Ok(res)
}


//------------ Finishing -----------------------------------------------------

/// Writes evidence and replay files, prints verdict lines.
///
/// Returns the process exit code.
pub fn finish(
    ctx: &Ctx, report: &Report, wall_s: f64, verif_dir: &Path
) -> i32 {
    let findings = load_findings(
        &verif_dir.join("known-findings.jsonl")
    ).unwrap_or_else(|err| {
        eprintln!("cannot read known-findings.jsonl: {err}");
        std::process::exit(2)
    });
    let open: Vec<&Finding> = findings.iter().filter(|f| {
        f.property == ctx.id && f.status == "open"
    }).collect();

    let mut known_hit: BTreeMap<String, u64> = BTreeMap::new();
    let mut fresh: Vec<&Violation> = Vec::new();
    for v in &report.violations {
        if let Some(f) = open.iter().find(|f| {
            f.fingerprint == v.fingerprint
        }) {
            *known_hit.entry(f.fingerprint.clone()).or_insert(0) += 1;
        }
        else {
            fresh.push(v)
        }
    }

    if std::env::var_os("RTV_ALL_VIOLATIONS").is_some() {
        for v in &fresh { eprintln!("ALL {} :: {}", v.fingerprint, v.what); }
    }
    // Replay files for fresh violations.
    let replay_dir = verif_dir.join("replays").join(&ctx.id);
    let mut replay_paths = Vec::new();
    if !fresh.is_empty() {
        let _ = fs::create_dir_all(&replay_dir);
    }
    let mut seen = BTreeSet::new();
    for v in &fresh {
        if !seen.insert(v.fingerprint.clone()) { continue }
        if replay_paths.len() >= 10 { break }
        let name = format!(
            "{}-{:016x}.json", ctx.tier.as_str(), fnv(&v.fingerprint)
        );
        let path = replay_dir.join(name);
        let body = json!({
            "property": ctx.id,
            "fingerprint": v.fingerprint,
            "what": v.what,
            "replay": v.replay,
        });
        let _ = fs::write(
            &path, serde_json::to_vec_pretty(&body).unwrap()
        );
        replay_paths.push((path, *v));
    }

    // Evidence.
    let mut coverage = Map::new();
    coverage.insert("evaluations".into(), json!(report.evaluations));
    coverage.insert(
        "distinct_nontrivial".into(), json!(report.nontrivial)
    );
    coverage.insert("rule".into(), json!(report.rule));
    coverage.insert("bound".into(), json!(report.bound));
    coverage.insert("samples".into(), json!(report.samples));
    coverage.insert("exhaustive".into(), json!(
        report.exhaustive && report.capped.is_none()
    ));
    if let Some(capped) = report.capped.as_ref() {
        coverage.insert("capped".into(), json!(true));
        coverage.insert("cap_detail".into(), json!(capped));
    }
    if report.level == "model_checking" {
        coverage.insert("states".into(), json!(report.states));
        coverage.insert("transitions".into(), json!(report.transitions));
        coverage.insert(
            "traces_validated_against_impl".into(), json!(report.traces)
        );
    }
    coverage.insert("distinct_outcomes".into(), json!(report.outcomes.len()));
    coverage.insert("outcomes".into(), json!(report.outcomes));
    coverage.insert("known_findings_hit".into(), json!(known_hit));
    for (k, v) in &report.extra {
        coverage.insert(k.clone(), v.clone());
    }
    let evidence = json!({
        "property_id": ctx.id,
        "tier": ctx.tier.as_str(),
        "seed": ctx.seed,
        "level": report.level,
        "coverage": coverage,
        "assumptions": report.assumptions,
        "wall_s": wall_s,
        "violations": fresh.len(),
    });
    let ev_dir = verif_dir.join("evidence");
    let _ = fs::create_dir_all(&ev_dir);
    let ev_path = ev_dir.join(format!("{}.json", ctx.id));
    if let Err(err) = fs::write(
        &ev_path, serde_json::to_vec_pretty(&evidence).unwrap()
    ) {
        eprintln!("cannot write {}: {}", ev_path.display(), err);
        return 2
    }

    // Verdict lines.
    println!(
        "{} {}: evaluations={} nontrivial={} states={} transitions={} \
         outcomes={} exhaustive={} wall={:.1}s",
        ctx.id, ctx.tier.as_str(), report.evaluations, report.nontrivial,
        report.states, report.transitions, report.outcomes.len(),
        report.exhaustive && report.capped.is_none(), wall_s
    );
    for f in &open {
        if known_hit.contains_key(&f.fingerprint) {
            println!("KNOWN-FINDING: property={} {}", ctx.id, f.what);
        }
        else {
            println!(
                "note: listed finding not reproduced in this run: \
                 property={} fingerprint={}", ctx.id, f.fingerprint
            );
        }
    }
    if fresh.is_empty() {
        println!("OK property={}", ctx.id);
        0
    }
    else {
        for (path, v) in &replay_paths {
            println!("  violation: {} [{}]", v.what, v.fingerprint);
            println!(
                "VIOLATION property={} replay={}", ctx.id, path.display()
            );
        }
        1
    }
}

pub fn fnv(s: &str) -> u64 {
    let mut h = 0xcbf29ce484222325u64;
    for b in s.bytes() {
        h ^= b as u64;
        h = h.wrapping_mul(0x100000001b3);
    }
    h
}
